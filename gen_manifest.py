#!/usr/bin/env python3
"""Regenerates MANIFEST.json from the table below (kept in one place so it is always valid)."""
import json, os

CLAIMED = {
    # id: (level category, text, note, technique, design_ref)
}
NOT_APPLICABLE = {}

def load_claims():
    import importlib, sys
    sys.path.insert(0, os.path.dirname(os.path.abspath(__file__)))
    out = {}
    rules_dir = os.path.join(os.path.dirname(os.path.abspath(__file__)), 'affcheck', 'rules')
    for f in sorted(os.listdir(rules_dir)):
        if f.startswith('c') and f.endswith('.py'):
            pid = f[:-3].upper()
            mod = importlib.import_module('affcheck.rules.' + f[:-3])
            if getattr(mod, 'CLAIMED', True):
                out[pid] = mod
    return out

def level_text(mod, level):
    rules = getattr(mod, 'RULES', {})
    base = getattr(mod, 'LEVEL_TEXT', getattr(mod, 'EXPLANATION', ''))
    if level == 'proof':
        head = ('Every obligation (one per rule instance of %s) is discharged by the static checker on the current tree, for all inputs / '
                'histories / K, in exact arithmetic; the check fails (and the evidence level drops to "other") if a single instance is '
                'violated or undecided. It is a proof of the structural clauses named by the rules, which are necessary conditions of the '
                'property, not of floating-point behaviour. ' % ', '.join(sorted(rules)))
    else:
        head = ('Structural rule check (%s): each rule instance is decided for all inputs / histories from the MIR of the current tree; '
                'the clauses are necessary conditions of the property, value-level clauses are declined (see level_note). ' % ', '.join(sorted(rules)))
    return head + base


def main():
    claims = load_claims()
    checks = []
    for pid, mod in sorted(claims.items()):
        level = getattr(mod, 'LEVEL', 'other')
        checks.append({
            'property_id': pid,
            'quick_cmd': 'python3 -m affcheck run %s --tier quick' % pid,
            'thorough_cmd': 'python3 -m affcheck run %s --tier thorough' % pid,
            'evidence_file': '/verif/evidence/%s.json' % pid,
            'replay_cmd_template': 'python3 -m affcheck explain {path}',
            'engine': 'affcheck',
            'level_claimed': {
                'category': level,
                'text': level_text(mod, level),
                'design_ref': 'DESIGN.md §5 ' + pid,
            },
            'level_note': getattr(mod, 'LEVEL_NOTE', 'Trusted: rustc nightly front end + MIR construction, the /verif/driver fact serialiser, the affcheck rule engine. '
                                  'Decides the structural clauses listed in the evidence (rules), for all inputs/histories; does not decide: ' + getattr(mod, 'DOES_NOT_DECIDE', '')),
            'technique': getattr(mod, 'TECHNIQUE', 'static analysis: custom MIR rules (rustc_private fact extraction; effects, dominance/guards, provenance) over the current tree'),
        })
    na = dict(NOT_APPLICABLE)
    all_ids = ['C%02d' % i for i in range(1, 20)]
    for pid in all_ids:
        if pid not in claims and pid not in na:
            na[pid] = 'check under construction in this session: no verdict is claimed yet'
    m = {
        'version': 1,
        'setup_cmd': 'python3 -m affcheck setup',
        'hooks': {
            'guard': 'affinitree_verif',
            'enable': 'none needed: the static checks read the unmodified sources (no hook commits exist)',
            'baseline_off_cmd': 'cd /repo && cargo test --workspace --no-fail-fast --offline',
            'source_commits': [],
            'add_only': True,
        },
        'engines': [
            {'name': 'afffacts', 'path': '/verif/driver', 'serves_properties': sorted(claims), 'kind_free_text': 'rustc_private driver dumping un-optimised MIR + type facts as JSON (nothing is executed)'},
            {'name': 'affcheck', 'path': '/verif/affcheck', 'serves_properties': sorted(claims), 'kind_free_text': 'Python rule engine over the MIR facts: CFG/dominators/guards, reaching definitions, provenance, effect contracts, kernel normal forms, abstract interpretation over exhaustive case partitions (absint.py, caseinterp.py)'},
            {'name': 'fixture_macros', 'path': '/verif/fixture_macros', 'serves_properties': ['C14', 'C16'], 'kind_free_text': 'crate expanding every arm of the exported macros once; type-checked against the analysed tree through the fact driver (never run) so that the arms can be read from MIR'},
        ],
        'checks': checks,
        'notes': 'Static analysis only; see DESIGN.md. Known findings in /verif/known_findings.txt.',
        'not_applicable': [{'property_id': k, 'reason': v} for k, v in sorted(na.items())],
    }
    with open(os.path.join(os.path.dirname(os.path.abspath(__file__)), 'MANIFEST.json'), 'w') as f:
        json.dump(m, f, indent=1)
    print('claimed', sorted(claims), 'n/a', sorted(na))

if __name__ == '__main__':
    main()

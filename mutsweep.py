#!/usr/bin/env python3
"""Development aid (not part of any verdict): an operator-level mutation sweep over the non-test source of /repo.

  mutsweep.py gen <outdir> [N] [seed]      write N single-token mutants (unified diffs) sampled from all candidate sites
  mutsweep.py run <outdir>                 run every check on every mutant (scratch worktrees), write <outdir>/results.json
  mutsweep.py tests <outdir>               run the existing test suite on the mutants no check reported, append to results.json

A mutant that compiles, passes the suite and is silent is either equivalent or a hole: those are listed for reading.
"""
import difflib
import json
import os
import random
import re
import subprocess
import sys

REPO = '/repo'
OPS2 = [
    (r'^(\s*)(self\.[a-z_\.]+\(.*\);|[a-z_]+\.[a-z_]+\(.*\);|[a-z_\.\[\]\*]+ [-+*]?= .*;)\s*$', r'\1'),          # delete a statement
    (r'\(0\.\.', '(1..'), (r'\b0\.\.', '1..'), (r'\.iter\(\)', '.iter().skip(1)'), (r'\.\.=', '..'), (r'\+= 1\b', '+= 2'), (r'\+= ', '-= '), (r'-= ', '+= '),
    (r'\(([a-z_]+), ([a-z_]+)\)', r'(\2, \1)'), (r'\.enumerate\(\)', '.enumerate().skip(1)'), (r'\.zip\(', '.zip(std::iter::repeat(()).zip('),
    (r'Some\(([a-z_]+)\)', 'None'), (r'\.clone\(\)', ''), (r'\.abs\(\)', ''), (r'\.sqrt\(\)', ''), (r'\.t\(\)', ''), (r'\.dot\(', '.dot(&-'),
    (r'\bmin_val\b', 'max_val'), (r'\bmax_val\b', 'min_val'), (r'\blower\b', 'upper'), (r'\bupper\b', 'lower'), (r'\bstart\b', 'end'), (r'\bdepth \+ 1', 'depth'),
    (r'\bfirst\b', 'last'), (r'\bOk\(\(\)\)', 'Ok(())'), (r'\.unwrap_or\(0\)', '.unwrap_or(1)'), (r'>= 0\.', '> 0.'), (r'<= 0\.', '< 0.'), (r'\b1 << ', '2 << '),
    (r'\.filter\(', '.filter(|_| true).skip_while('), (r'\.take\(', '.skip('), (r'\.skip\(', '.take('), (r'\.last\(\)', '.next()'), (r'\.first\(\)', '.last()'),
    (r'\.push\(', '.insert(0, '), (r'\.pop\(\)', '.first().copied()'), (r'\bLabel\b', 'Label'),
]
OPS = [
    (r' == ', ' != '), (r' != ', ' == '), (r' <= ', ' < '), (r' >= ', ' > '), (r' < ', ' <= '), (r' > ', ' >= '), (r' < ', ' > '),
    (r' && ', ' || '), (r' \|\| ', ' && '), (r'\btrue\b', 'false'), (r'\bfalse\b', 'true'),
    (r' \+ 1\b', ' + 2'), (r' - 1\b', ' - 0'), (r' \+ 1\b', ''), (r' \+ ', ' - '), (r' - ', ' + '), (r' \* ', ' + '),
    (r'\.any\(', '.all('), (r'\.all\(', '.any('), (r'\.min\(', '.max('), (r'\.max\(', '.min('),
    (r'\.is_some\(\)', '.is_none()'), (r'\.is_none\(\)', '.is_some()'), (r'\.rev\(\)', ''), (r'\.is_empty\(\)', '.is_empty() == false'),
    (r'push_back', 'push_front'), (r'pop_front', 'pop_back'), (r'\.0\b', '.1'), (r'\.1\b', '.0'), (r'\[0\]', '[1]'), (r'\[1\]', '[0]'),
    (r'Axis\(0\)', 'Axis(1)'), (r'Axis\(1\)', 'Axis(0)'), (r'\bNone\b', 'Some(0)'), (r'saturating_sub', 'wrapping_sub'),
    (r'1e-8\b', '1e-6'), (r'1e-10\b', '1e-3'), (r'\b0\.0\b', '1.0'), (r'\b1\.0\b', '0.0'), (r'-([A-Za-z_(])', r'\1'),
    (r'\bsource_idx\b', 'target_idx'), (r'\btarget_idx\b', 'source_idx'), (r'\bindim\(\)', 'outdim()'), (r'\boutdim\(\)', 'indim()'),
    (r'\.mat\b', '.bias'), (r'\blabel\b', 'idx'), (r'\bparent_idx\b', 'node_idx'), (r'\bLe\b', 'Ge'), (r'\bFeasible\b', 'Infeasible'),
    (r'\bInfeasible\b', 'Indeterminate'), (r'\.unwrap_or\(false\)', '.unwrap_or(true)'), (r'continue;', 'break;'),
]
SKIP_LINE = re.compile(r'^\s*(//|///|#\[|use |pub use |mod |debug!|trace!|info!|warn!|error!|println!|assert|debug_assert|panic!|unreachable!|\*/|/\*)')
SKIP_ANY = re.compile(r'\bfn \b|\bimpl\b|\bwhere\b|::<|\btype \b|\bstruct \b|\benum \b|\btrait \b|^\s*[A-Za-z_]+: .*[<>]|"')


def source_files():
    out = []
    for root, dirs, fs in os.walk(os.path.join(REPO, 'src')):
        dirs.sort()
        for f in sorted(fs):
            if f.endswith('.rs') and f != 'lib.rs':
                out.append(os.path.join(root, f))
    return out


def candidates(ops=None):
    ops = ops or OPS
    cands = []
    for path in source_files():
        lines = open(path).read().split('\n')
        end = len(lines)
        for i, l in enumerate(lines):
            if l.strip() == '#[cfg(test)]' and i + 1 < len(lines) and lines[i + 1].strip().startswith('mod '):
                end = i
                break
        in_macro_doc = False
        for i in range(end):
            l = lines[i]
            if SKIP_LINE.match(l) or SKIP_ANY.search(l):
                continue
            for k, (pat, rep) in enumerate(ops):
                for m in re.finditer(pat, l):
                    new = l[:m.start()] + m.expand(rep) + l[m.end():]
                    if new != l:
                        cands.append((path, i, l, new, k))
    return cands


def wrong_variable_candidates():
    """one occurrence of a parameter / local replaced by another parameter / local of the same function"""
    cands = []
    ident = re.compile(r'\b[a-z_][a-z0-9_]*\b')
    kw = {'let', 'mut', 'for', 'in', 'if', 'else', 'match', 'while', 'loop', 'return', 'fn', 'pub', 'self', 'as', 'ref', 'move', 'true', 'false', 'continue', 'break',
          'impl', 'where', 'use', 'mod', 'crate', 'super', 'unsafe', 'dyn', 'const', 'static', 'usize', 'f64', 'f32', 'i32', 'u64', 'bool', 'u8', 'isize', 'i64', 'str', 'u32'}
    for path in source_files():
        lines = open(path).read().split('\n')
        end = len(lines)
        for i, l in enumerate(lines):
            if l.strip() == '#[cfg(test)]' and i + 1 < len(lines) and lines[i + 1].strip().startswith('mod '):
                end = i
                break
        i = 0
        while i < end:
            m = re.match(r'^(\s*)(pub(\([a-z]+\))? )?fn ([a-zA-Z_0-9]+)', lines[i])
            if not m:
                i += 1
                continue
            indent = m.group(1)
            # signature up to the opening brace, body up to the closing brace at the same indent
            j = i
            while j < end and not lines[j].rstrip().endswith('{'):
                j += 1
            k = j + 1
            while k < end and lines[k] != indent + '}':
                k += 1
            sig = ' '.join(lines[i:j + 1])
            names = set(re.findall(r'\b([a-z_][a-z0-9_]*)\s*:', sig.split('->')[0])) - kw
            for q in range(j + 1, k):
                for mm in re.finditer(r'\blet (?:mut )?\(?([a-z_][a-z0-9_]*(?:, (?:mut )?[a-z_][a-z0-9_]*)*)\)?', lines[q]):
                    for nm in re.split(r',\s*', mm.group(1)):
                        names.add(nm.replace('mut ', '').strip())
                for mm in re.finditer(r'\bfor \(?([a-z_][a-z0-9_]*(?:, [a-z_][a-z0-9_]*)*)\)? in', lines[q]):
                    for nm in re.split(r',\s*', mm.group(1)):
                        names.add(nm.strip())
            names = {x for x in names if x not in kw and len(x) > 1 and not x.startswith('_')}
            if len(names) >= 2:
                for q in range(j + 1, k):
                    l = lines[q]
                    if SKIP_LINE.match(l) or '"' in l or l.strip().startswith('let ') and '=' not in l:
                        continue
                    for mm in ident.finditer(l):
                        a = mm.group(0)
                        if a not in names:
                            continue
                        before = l[:mm.start()]
                        if before.rstrip().endswith('let') or before.rstrip().endswith('mut') or before.rstrip().endswith('.') or l[mm.end():mm.end() + 1] == ':' or before.rstrip().endswith('|'):
                            continue
                        for bname in sorted(names):
                            if bname != a:
                                cands.append((path, q, l, l[:mm.start()] + bname + l[mm.end():], -1))
            i = k + 1
    return cands


def gen3(outdir, n, seed):
    os.makedirs(outdir, exist_ok=True)
    c = wrong_variable_candidates()
    random.Random(seed).shuffle(c)
    seen, chosen = {}, []
    for x in c:
        key = (x[0], x[1])
        if seen.get(key, 0) >= 1:
            continue
        seen[key] = 1
        chosen.append(x)
        if len(chosen) >= n:
            break
    index = []
    for j, (path, i, old, new, k) in enumerate(chosen):
        rel = os.path.relpath(path, REPO)
        a = open(path).read().split('\n')
        b = list(a)
        b[i] = new
        diff = '\n'.join(difflib.unified_diff(a, b, 'a/' + rel, 'b/' + rel, lineterm='', n=3)) + '\n'
        name = 'x%04d.diff' % j
        open(os.path.join(outdir, name), 'w').write('diff --git a/%s b/%s\n' % (rel, rel) + diff)
        index.append({'name': name, 'file': rel, 'line': i + 1, 'old': old.strip(), 'new': new.strip(), 'op': 'wrong variable'})
    json.dump(index, open(os.path.join(outdir, 'index.json'), 'w'), indent=1)
    print(len(c), 'candidate replacements,', len(chosen), 'mutants written to', outdir)


ENUMS = {
    'NodeState': ['Indeterminate', 'Infeasible', 'Feasible', 'FeasibleWitness'],
    'PolytopeStatus': ['Infeasible', 'Unbounded', 'Optimal', 'Error'],
    'Layer': ['Linear', 'ReLU', 'LeakyReLU', 'HardTanh', 'HardSigmoid', 'Argmax', 'ClassChar'],
    'PolyRepr': ['MatrixLeqBias', 'MatrixBiasLeqZero', 'MatrixGeqBias', 'MatrixBiasGeqZero'],
    'NodeError': ['InvalidIndex', 'MissingChild', 'MissingParent', 'NodeExists', 'ChildExists', 'RootNode', 'NodeNotFound'],
    'OptimizationDirection': ['Minimize', 'Maximize'], 'ComparisonOp': ['Le', 'Ge', 'Eq'], 'Bound': ['Included', 'Excluded', 'Unbounded'],
    'Error': ['Infeasible', 'Unbounded'],
}
BARE = {'First': ['Middle', 'Last', 'Only'], 'Middle': ['First', 'Last', 'Only'], 'Last': ['First', 'Middle', 'Only'], 'Only': ['First', 'Middle', 'Last'],
        'Some': [], 'Ok': [], 'Err': []}


def variant_candidates():
    cands = []
    for path in source_files():
        lines = open(path).read().split('\n')
        end = len(lines)
        for i, l in enumerate(lines):
            if l.strip() == '#[cfg(test)]' and i + 1 < len(lines) and lines[i + 1].strip().startswith('mod '):
                end = i
                break
        for i in range(end):
            l = lines[i]
            if SKIP_LINE.match(l) or l.strip().startswith('//'):
                continue
            for en, vs in ENUMS.items():
                for v in vs:
                    for m in re.finditer(r'\b%s::%s\b' % (en, v), l):
                        for w in vs:
                            if w != v:
                                cands.append((path, i, l, l[:m.start()] + '%s::%s' % (en, w) + l[m.end():], -1))
            for v, ws in BARE.items():
                for m in re.finditer(r'(?<![:A-Za-z_])%s\b(?!\()' % v, l):
                    for w in ws:
                        cands.append((path, i, l, l[:m.start()] + w + l[m.end():], -1))
    return cands


def gen4(outdir, n, seed):
    os.makedirs(outdir, exist_ok=True)
    c = variant_candidates()
    random.Random(seed).shuffle(c)
    seen, chosen = {}, []
    for x in c:
        key = (x[0], x[1], x[3])
        if key in seen:
            continue
        seen[key] = 1
        chosen.append(x)
        if len(chosen) >= n:
            break
    index = []
    for j, (path, i, old, new, k) in enumerate(chosen):
        rel = os.path.relpath(path, REPO)
        a = open(path).read().split('\n')
        b = list(a)
        b[i] = new
        diff = '\n'.join(difflib.unified_diff(a, b, 'a/' + rel, 'b/' + rel, lineterm='', n=3)) + '\n'
        name = 'x%04d.diff' % j
        open(os.path.join(outdir, name), 'w').write('diff --git a/%s b/%s\n' % (rel, rel) + diff)
        index.append({'name': name, 'file': rel, 'line': i + 1, 'old': old.strip(), 'new': new.strip(), 'op': 'wrong variant'})
    json.dump(index, open(os.path.join(outdir, 'index.json'), 'w'), indent=1)
    print(len(c), 'candidate replacements,', len(chosen), 'mutants written to', outdir)


def gen(outdir, n, seed, ops=None):
    ops = ops or OPS
    os.makedirs(outdir, exist_ok=True)
    c = candidates(ops)
    random.Random(seed).shuffle(c)
    seen_lines = {}
    chosen = []
    for x in c:
        key = (x[0], x[1])
        if seen_lines.get(key, 0) >= 2:      # at most two mutants per source line
            continue
        seen_lines[key] = seen_lines.get(key, 0) + 1
        chosen.append(x)
        if len(chosen) >= n:
            break
    index = []
    for j, (path, i, old, new, k) in enumerate(chosen):
        rel = os.path.relpath(path, REPO)
        a = open(path).read().split('\n')
        b = list(a)
        b[i] = new
        diff = '\n'.join(difflib.unified_diff(a, b, 'a/' + rel, 'b/' + rel, lineterm='', n=3)) + '\n'
        name = 'x%04d.diff' % j
        open(os.path.join(outdir, name), 'w').write('diff --git a/%s b/%s\n' % (rel, rel) + diff)
        index.append({'name': name, 'file': rel, 'line': i + 1, 'old': old.strip(), 'new': new.strip(), 'op': ops[k][0] + ' -> ' + ops[k][1]})
    json.dump(index, open(os.path.join(outdir, 'index.json'), 'w'), indent=1)
    print(len(c), 'candidate sites,', len(chosen), 'mutants written to', outdir)


def run(outdir):
    sys.path.insert(0, os.path.dirname(os.path.abspath(__file__)))
    import selftest
    index = json.load(open(os.path.join(outdir, 'index.json')))
    respath = os.path.join(outdir, 'results.json')
    results = json.load(open(respath)) if os.path.exists(respath) else {}
    todo = [os.path.join(outdir, e['name']) for e in index if e['name'] not in results]
    for p, res, err in selftest.many(todo):
        name = os.path.basename(p)
        if err:
            results[name] = {'status': 'noapply'}
        else:
            f = selftest.fired(res)
            if any(h and h[0][0].startswith('BUILD-FAILED') for h in f.values()):
                results[name] = {'status': 'nobuild'}
            elif f:
                results[name] = {'status': 'caught', 'by': {k: ['%s@%s' % x for x in v][:3] for k, v in f.items()}}
            else:
                results[name] = {'status': 'silent'}
        print(name, results[name]['status'], flush=True)
        json.dump(results, open(respath, 'w'), indent=1)


def tests(outdir):
    index = {e['name']: e for e in json.load(open(os.path.join(outdir, 'index.json')))}
    respath = os.path.join(outdir, 'results.json')
    results = json.load(open(respath))
    todo = [n for n, r in sorted(results.items()) if r['status'] == 'silent' and 'tests' not in r]
    from concurrent.futures import ThreadPoolExecutor
    import queue
    slots = queue.Queue()
    for k in range(int(os.environ.get('SWEEP_WORKERS', '3'))):
        slots.put(k)

    def one(name):
        k = slots.get()
        wt = '/tmp/sweep_wt%d' % k
        try:
            subprocess.run(['git', '-C', REPO, 'worktree', 'remove', '--force', wt], capture_output=True)
            subprocess.run(['rm', '-rf', wt])
            subprocess.run(['git', '-C', REPO, 'worktree', 'prune'])
            subprocess.run(['git', '-C', REPO, 'worktree', 'add', '-q', '--detach', wt, 'HEAD'], check=True)
            subprocess.run(['cp', os.path.join(REPO, 'Cargo.lock'), wt])
            r = subprocess.run(['git', '-C', wt, 'apply', os.path.join(outdir, name)], capture_output=True)
            if r.returncode != 0:
                return name, 'noapply'
            env = dict(os.environ, CARGO_TARGET_DIR='/tmp/sweep_target%d' % k, CARGO_NET_OFFLINE='true')
            r = subprocess.run(['cargo', 'test', '--offline', '--workspace', '--no-fail-fast'], cwd=wt, env=env, stdout=subprocess.PIPE, stderr=subprocess.STDOUT, text=True, timeout=1800)
            res = re.findall(r'test result: (\w+)\. (\d+) passed; (\d+) failed', r.stdout)
            if not res:
                return name, 'nobuild'
            return name, 'pass' if r.returncode == 0 and all(x[0] == 'ok' for x in res) else 'fail:%d' % sum(int(x[2]) for x in res)
        except subprocess.TimeoutExpired:
            return name, 'timeout'
        finally:
            subprocess.run(['git', '-C', REPO, 'worktree', 'remove', '--force', wt], capture_output=True)
            slots.put(k)
    with ThreadPoolExecutor(max_workers=slots.qsize()) as ex:
        for name, verdict in ex.map(one, todo):
            results[name]['tests'] = verdict
            print(name, verdict, index[name]['file'], index[name]['line'], index[name]['old'][:70], '=>', index[name]['new'][:70], flush=True)
            json.dump(results, open(respath, 'w'), indent=1)


if __name__ == '__main__':
    cmd = sys.argv[1]
    if cmd == 'gen':
        gen(sys.argv[2], int(sys.argv[3]) if len(sys.argv) > 3 else 400, int(sys.argv[4]) if len(sys.argv) > 4 else 1)
    elif cmd == 'gen4':
        gen4(sys.argv[2], int(sys.argv[3]) if len(sys.argv) > 3 else 400, int(sys.argv[4]) if len(sys.argv) > 4 else 5)
    elif cmd == 'gen3':
        gen3(sys.argv[2], int(sys.argv[3]) if len(sys.argv) > 3 else 400, int(sys.argv[4]) if len(sys.argv) > 4 else 3)
    elif cmd == 'gen2':
        gen(sys.argv[2], int(sys.argv[3]) if len(sys.argv) > 3 else 400, int(sys.argv[4]) if len(sys.argv) > 4 else 1, OPS2)
    elif cmd == 'run':
        run(sys.argv[2])
    elif cmd == 'tests':
        tests(sys.argv[2])

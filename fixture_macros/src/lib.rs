//! One function per arm of the macros the analysed crate exports (`aff!`, `poly!`).  The crate is never run: its MIR is dumped by the fact
//! driver so that the rules can read what each arm expands to *on the current source of /repo* (an exported `macro_rules!` arm that no
//! library code uses leaves no trace in the MIR of the library itself).  Parameters, not literals, so that every entry keeps its identity.
use affinitree::linalg::affine::{AffFunc, Polytope};

pub fn aff_matrix_plus_vector(a: i32, b: i32, c: i32, d: i32, p: i32, q: i32) -> AffFunc {
    affinitree::aff!([[a, b], [c, d]] + [p, q])
}

pub fn aff_row_plus_scalar(a: i32, b: i32, p: i32) -> AffFunc {
    affinitree::aff!([a, b] + p)
}

pub fn poly_less(a: i32, b: i32, c: i32, d: i32, p: i32, q: i32) -> Polytope {
    affinitree::poly!([[a, b], [c, d]] < [p, q])
}

pub fn poly_plus_less_zero(a: i32, b: i32, c: i32, d: i32, p: i32, q: i32) -> Polytope {
    affinitree::poly!([[a, b], [c, d]] + [p, q] < 0)
}

pub fn poly_greater(a: i32, b: i32, c: i32, d: i32, p: i32, q: i32) -> Polytope {
    affinitree::poly!([[a, b], [c, d]] > [p, q])
}

pub fn poly_plus_greater_zero(a: i32, b: i32, c: i32, d: i32, p: i32, q: i32) -> Polytope {
    affinitree::poly!([[a, b], [c, d]] + [p, q] > 0)
}

#!/usr/bin/env python3
"""Confirm a candidate seeded change and keep it under /verif/seeded/<name>/.

  ingest_mutant.py <candidate dir with patch.diff, demo.rs, README.md> <name> <property> "<needs to manifest>"

Confirms in a scratch worktree of /repo HEAD (removed afterwards): the patch applies and compiles, the existing
suite still passes with it, the demonstration fails with it and passes without it. Then records which checks fire.
"""
import json
import os
import re
import shutil
import subprocess
import sys
import tempfile

VERIF = os.path.dirname(os.path.abspath(__file__))
TARGET = os.environ.get('INGEST_TARGET', '/tmp/wt_target')


def sh(cmd, cwd=None, env=None, timeout=3600):
    e = dict(os.environ)
    e['CARGO_TARGET_DIR'] = TARGET
    e['CARGO_NET_OFFLINE'] = 'true'
    if env:
        e.update(env)
    r = subprocess.run(cmd, cwd=cwd, env=e, stdout=subprocess.PIPE, stderr=subprocess.STDOUT, text=True, timeout=timeout)
    return r.returncode, r.stdout


def main():
    cand, name, prop, needs = sys.argv[1:5]
    patch = os.path.join(cand, 'patch.diff')
    demo = os.path.join(cand, 'demo.rs')
    wt = tempfile.mkdtemp(prefix='ingest_')
    os.rmdir(wt)
    rc, out = sh(['git', '-C', '/repo', 'worktree', 'add', '-q', '--detach', wt, 'HEAD'])
    assert rc == 0, out
    ran = []
    try:
        shutil.copy('/repo/Cargo.lock', wt)
        rc, out = sh(['git', 'apply', patch], cwd=wt)
        if rc != 0:
            print('REJECT: patch does not apply', out)
            return 1
        touched = subprocess.check_output(['git', 'diff', '--name-only'], cwd=wt, text=True).split()
        if any(not f.startswith('src/') for f in touched):
            print('REJECT: patch touches', touched)
            return 1
        rc, out = sh(['cargo', 'test', '--offline', '--workspace', '--no-fail-fast'], cwd=wt)
        results = re.findall(r'test result: (\w+)\. (\d+) passed; (\d+) failed', out)
        ran.append('cargo test --offline --workspace --no-fail-fast (with change): %s' % results)
        if rc != 0 or not results or any(r[0] != 'ok' for r in results):
            print('REJECT: existing suite does not pass with the change', results, out[-1500:])
            return 1
        n_pass = sum(int(r[1]) for r in results)
        os.makedirs(os.path.join(wt, 'tests'), exist_ok=True)
        shutil.copy(demo, os.path.join(wt, 'tests', 'zz_demo.rs'))
        rc, out = sh(['cargo', 'test', '--offline', '--test', 'zz_demo'], cwd=wt)
        r1 = re.findall(r'test result: (\w+)\. (\d+) passed; (\d+) failed', out)
        ran.append('cargo test --offline --test zz_demo (with change): %s' % r1)
        if rc == 0:
            print('REJECT: demonstration passes with the change')
            return 1
        if not r1:
            print('REJECT: demonstration does not build with the change', out[-1500:])
            return 1
        sh(['git', 'checkout', '--', 'src'], cwd=wt)
        rc, out = sh(['cargo', 'test', '--offline', '--test', 'zz_demo'], cwd=wt)
        r2 = re.findall(r'test result: (\w+)\. (\d+) passed; (\d+) failed', out)
        ran.append('cargo test --offline --test zz_demo (without change): %s' % r2)
        if rc != 0:
            print('REJECT: demonstration fails without the change', out[-1500:])
            return 1
    finally:
        sh(['git', '-C', '/repo', 'worktree', 'remove', '--force', wt])
        shutil.rmtree(wt, ignore_errors=True)
    # which checks fire
    rc, out = sh([sys.executable, os.path.join(VERIF, 'selftest.py'), 'mutant', patch], cwd=VERIF)
    fired = [l.split() for l in out.strip().splitlines() if re.match(r'C\d\d ', l)]
    dest = os.path.join(VERIF, 'seeded', name)
    os.makedirs(dest, exist_ok=True)
    shutil.copy(patch, os.path.join(dest, 'patch.diff'))
    shutil.copy(demo, os.path.join(dest, 'demo.rs'))
    if os.path.exists(os.path.join(cand, 'README.md')):
        shutil.copy(os.path.join(cand, 'README.md'), os.path.join(dest, 'AUTHOR_NOTES.md'))
    meta = {
        'property': prop,
        'breaks': open(os.path.join(cand, 'README.md')).read()[:1200] if os.path.exists(os.path.join(cand, 'README.md')) else '',
        'needs_to_manifest': needs,
        'origin': 'written by an independent sub-agent that saw only the property text and a scratch worktree (nothing from /verif)',
        'confirmed_by': ran,
        'existing_tests_passing_with_change': n_pass,
        'checks_firing': [{'property': f[0], 'rule': f[1], 'site': f[2]} for f in fired if len(f) >= 3],
    }
    with open(os.path.join(dest, 'meta.json'), 'w') as f:
        json.dump(meta, f, indent=1)
    print('KEPT', name, 'caught by', sorted({f[0] for f in fired}) or 'NOTHING')
    return 0


if __name__ == '__main__':
    sys.exit(main())

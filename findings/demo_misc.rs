use affinitree::distill::arch::{Architecture, TensorShape};
use affinitree::distill::builder::{afftree_from_layers, Layer};
use affinitree::distill::schema::partial_hard_shrink;
use affinitree::linalg::affine::AffFunc;
use affinitree::aff;
use ndarray::arr1;

#[test]
fn argmax_updates_tracked_shape() {
    let mut arch = Architecture::new(TensorShape::Flat { in_dim: 3 });
    arch.argmax().unwrap();
    assert_eq!(arch.current_shape.max_dim(), 1);
    // a layer consuming the 1-dimensional argmax output is dimension-compatible
    arch.linear(aff!([[2.0], [3.0]] + [0.0, 1.0])).unwrap();
}

#[test]
fn distill_layer_after_argmax() {
    let layers = vec![Layer::Argmax, Layer::Linear(aff!([[2.0], [3.0]] + [0.0, 1.0]))];
    let t = afftree_from_layers(3, &layers, None);
    assert_eq!(t.evaluate(&arr1(&[0.0, 5.0, 1.0])).unwrap(), arr1(&[2.0, 4.0]));
}

#[test]
fn distill_layer_after_class_char() {
    let layers = vec![Layer::ClassChar(1), Layer::Linear(aff!([[2.0], [3.0]] + [0.0, 1.0]))];
    let t = afftree_from_layers(3, &layers, None);
    assert_eq!(t.evaluate(&arr1(&[0.0, 5.0, 1.0])).unwrap(), arr1(&[2.0, 4.0]));
}

#[test]
fn hard_shrink_breakpoints() {
    let t = partial_hard_shrink(2, 0, 0.5);
    // hardshrink(x) = x if x > lambda or x < -lambda, else 0
    assert_eq!(t.evaluate(&arr1(&[0.5, 7.0])).unwrap(), arr1(&[0.0, 7.0]));
    assert_eq!(t.evaluate(&arr1(&[-0.5, 7.0])).unwrap(), arr1(&[0.0, 7.0]));
    assert_eq!(t.evaluate(&arr1(&[0.75, 7.0])).unwrap(), arr1(&[0.75, 7.0]));
    assert_eq!(t.evaluate(&arr1(&[-0.75, 7.0])).unwrap(), arr1(&[-0.75, 7.0]));
    assert_eq!(t.evaluate(&arr1(&[0.25, 7.0])).unwrap(), arr1(&[0.0, 7.0]));
}

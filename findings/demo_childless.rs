use affinitree::linalg::affine::{AffFunc, Polytope};
use affinitree::pwl::afftree::AffTree;
use affinitree::poly;
use ndarray::arr1;

#[test]
fn compose_pruned_leaves_childless_decision() {
    // f: defined for x >= 0 (identity), g: defined for x <= -5 (identity)
    let f = AffTree::<2>::from_poly(poly!([[-1]] < [0]), AffFunc::identity(1), None).unwrap();
    let g = AffTree::<2>::from_poly(poly!([[1]] < [-5]), AffFunc::identity(1), None).unwrap();
    let mut unpruned = f.clone();
    unpruned.compose::<false, false>(&g);
    let mut pruned = f.clone();
    pruned.compose::<true, false>(&g);
    let x = arr1(&[1.0]);
    println!("unpruned = {:?}, pruned = {:?}", unpruned.evaluate(&x), pruned.evaluate(&x));
    assert_eq!(unpruned.evaluate(&x), None);
    assert_eq!(pruned.evaluate(&x), unpruned.evaluate(&x), "pruning changed the represented partial function");
}

#[test]
fn elimination_leaves_childless_decision() {
    let f = AffTree::<2>::from_poly(poly!([[-1]] < [0]), AffFunc::identity(1), None).unwrap();
    let g = AffTree::<2>::from_poly(poly!([[1]] < [-5]), AffFunc::identity(1), None).unwrap();
    let mut t = f.clone();
    t.compose::<false, false>(&g);
    let x = arr1(&[1.0]);
    let before = t.evaluate(&x);
    t.infeasible_elimination();
    println!("before = {:?}, after = {:?}", before, t.evaluate(&x));
    assert_eq!(t.evaluate(&x), before, "infeasible_elimination changed the represented partial function");
}

use affinitree::tree::graph::Tree;
use affinitree::tree::iter::{Bfs, DfsEdge, DfsPre, TraversalMut};
use affinitree::pwl::afftree::AffTree;
use affinitree::linalg::affine::AffFunc;

fn sample() -> (Tree<usize, 2>, Vec<usize>) {
    let mut tree = Tree::<usize, 2>::new();
    let z = tree.add_root(10);
    let c0 = tree.add_child_node(z, 0, 11).unwrap();
    let c1 = tree.add_child_node(z, 1, 12).unwrap();
    let l0 = tree.add_child_node(c0, 0, 13).unwrap();
    let l1 = tree.add_child_node(c0, 1, 14).unwrap();
    (tree, vec![z, c0, c1, l0, l1])
}

#[test]
fn dfs_edge_starts_at_given_root() {
    let (tree, n) = sample();
    let edges: Vec<_> = DfsEdge::iter(&tree, n[1]).map(|e| (e.src, e.label, e.dest)).collect();
    assert_eq!(edges, vec![(n[1], 0, n[3]), (n[1], 1, n[4])]);
}

#[test]
fn bfs_remaining_siblings() {
    let (tree, n) = sample();
    let rem: Vec<_> = Bfs::iter(&tree, n[0]).map(|d| (d.index, d.n_remaining)).collect();
    // z, c0, c1, l0, l1
    assert_eq!(rem, vec![(n[0], 0), (n[1], 1), (n[2], 0), (n[3], 1), (n[4], 0)]);
}

#[test]
fn repeated_skip_is_noop() {
    let (tree, n) = sample();
    let mut it = DfsPre::iter(&tree, n[0]);
    it.next(); // z
    it.next(); // c0
    it.skip_subtree();
    it.skip_subtree();
    let rest: Vec<_> = it.map(|d| d.index).collect();
    assert_eq!(rest, vec![n[2]]);
}

#[test]
fn size_hint_brackets_after_skip() {
    let (tree, n) = sample();
    let mut it = DfsPre::iter(&tree, n[0]);
    it.next(); // z
    it.next(); // c0
    it.skip_subtree();
    let (lb, ub) = it.size_hint();
    let remaining = it.count();
    assert!(lb <= remaining && remaining <= ub.unwrap(), "lb={} remaining={} ub={:?}", lb, remaining, ub);
}

#[test]
fn edge_size_hint_brackets() {
    let (tree, n) = sample();
    let it = DfsEdge::iter(&tree, n[0]);
    let (lb, ub) = it.size_hint();
    let remaining = it.count();
    assert!(lb <= remaining && remaining <= ub.unwrap(), "lb={} remaining={} ub={:?}", lb, remaining, ub);
}

#[test]
fn polyhedra_iter_size_hint_brackets() {
    let mut t = AffTree::<2>::from_aff(AffFunc::unit(2, 0));
    t.add_child_node(0, 0, AffFunc::identity(2)).unwrap();
    t.add_child_node(0, 1, AffFunc::identity(2)).unwrap();
    let mut it = t.polyhedra_iter();
    it.next();
    it.next();
    let (lb, ub) = it.size_hint();
    let remaining = it.count();
    assert!(lb <= remaining && remaining <= ub.unwrap(), "lb={} remaining={} ub={:?}", lb, remaining, ub);
}

#[test]
fn translation_translates() {
    let f = AffFunc::translation(2, ndarray::arr1(&[1.0, 2.0]));
    assert_eq!(f.apply(&ndarray::arr1(&[10.0, 20.0])), ndarray::arr1(&[11.0, 22.0]));
}

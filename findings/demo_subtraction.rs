// Demonstration for C16 (named constructors compute what their documentation states):
// `AffFunc::subtraction(dim, left, right)` is documented as x[left] - x[right].
// With left == right the second point write overwrote the first, giving -x[left] instead of 0.
use affinitree::linalg::affine::AffFunc;
use ndarray::arr1;

#[test]
fn subtraction_of_a_component_from_itself_is_zero() {
    let f = AffFunc::subtraction(3, 1, 1);
    let x = arr1(&[4.0, 7.0, -2.0]);
    assert_eq!(f.apply(&x), arr1(&[x[1] - x[1]]));
}

#[test]
fn subtraction_of_distinct_components() {
    let f = AffFunc::subtraction(3, 2, 0);
    let x = arr1(&[4.0, 7.0, -2.0]);
    assert_eq!(f.apply(&x), arr1(&[x[2] - x[0]]));
}

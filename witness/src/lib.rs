//! E3 — type-level witnesses (family F7): programs that would violate a property must not build.
//! Every `compile_fail,E0xxx` witness is paired with a compiling twin (`no_run`: compiled, never executed)
//! that differs only in the offending line, so a witness cannot pass because of a wrong path or typo.
//! Run with `cargo +nightly test --doc --offline` (stable ignores the error code).

/// C12.R1 — the arena of a `Tree` cannot be reached from outside the crate (E0616).
/// ```compile_fail,E0616
/// use affinitree::tree::graph::Tree;
/// let mut t: Tree<usize, 2> = Tree::new();
/// t.add_root(1);
/// let _n = t.arena.len(); // private field
/// ```
/// twin:
/// ```no_run
/// use affinitree::tree::graph::Tree;
/// let mut t: Tree<usize, 2> = Tree::new();
/// t.add_root(1);
/// let _n = t.len();
/// ```
pub struct C12ArenaIsPrivate;

/// C12.R1 — the root index of a `Tree` cannot be overwritten from outside the crate (E0616).
/// ```compile_fail,E0616
/// use affinitree::tree::graph::Tree;
/// let mut t: Tree<usize, 2> = Tree::new();
/// t.add_root(1);
/// t.root = None; // private field
/// ```
/// twin:
/// ```no_run
/// use affinitree::tree::graph::Tree;
/// let mut t: Tree<usize, 2> = Tree::new();
/// t.add_root(1);
/// let _r = t.get_root_idx();
/// ```
pub struct C12RootIsPrivate;

/// C02.R5 — the right operand of a composition is only borrowed shared: it cannot be mutated through
/// the reference the composition receives (E0596).
/// ```compile_fail,E0596
/// use affinitree::pwl::afftree::AffTree;
/// use affinitree::linalg::affine::AffFunc;
/// fn touch(operand: &AffTree<2>) {
///     operand.tree.add_root(affinitree::pwl::node::AffContent::new(AffFunc::identity(1))); // needs &mut
/// }
/// ```
/// twin:
/// ```no_run
/// use affinitree::pwl::afftree::AffTree;
/// use affinitree::linalg::affine::AffFunc;
/// fn touch(operand: &mut AffTree<2>) {
///     operand.tree.add_root(affinitree::pwl::node::AffContent::new(AffFunc::identity(1)));
/// }
/// ```
pub struct C02OperandBehindSharedRef;

/// C02.R5 — `compose` leaves its argument usable and unchanged in type: it is taken by `&`, so the caller keeps
/// ownership (moving it afterwards type-checks; moving it *into* compose does not, E0308).
/// ```compile_fail,E0308
/// use affinitree::pwl::afftree::AffTree;
/// let mut f = AffTree::<2>::new(2);
/// let g = AffTree::<2>::new(2);
/// f.compose::<false, false>(g); // expects &AffTree
/// ```
/// twin:
/// ```no_run
/// use affinitree::pwl::afftree::AffTree;
/// let mut f = AffTree::<2>::new(2);
/// let g = AffTree::<2>::new(2);
/// f.compose::<false, false>(&g);
/// let _still_mine = g;
/// ```
pub struct C02ComposeBorrowsOperand;

/// C05.R2 / C02.R5 — the scratch cache of an `AffTree` is not reachable from outside the crate (E0616).
/// ```compile_fail,E0616
/// use affinitree::pwl::afftree::AffTree;
/// let t = AffTree::<2>::new(2);
/// t.polytope_cache.borrow_mut().clear(); // private field
/// ```
/// twin:
/// ```no_run
/// use affinitree::pwl::afftree::AffTree;
/// let t = AffTree::<2>::new(2);
/// let _d = t.in_dim();
/// ```
pub struct C02ScratchCacheIsPrivate;

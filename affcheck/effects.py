"""F1: effect extraction — every MIR statement/call of a body that can write memory reachable
from its parameters, expressed over resolved expressions."""
from .mir import Callee, Resolver, fmt, walk, ref_kind, base_type

# container mutators (receiver is the first argument, taken by &mut)
MUTATING_METHODS = {
    'Slab': {'insert', 'remove', 'try_remove', 'clear', 'retain', 'drain', 'compact', 'shrink_to_fit',
             'vacant_entry', 'vacant_key', 'insert_entry'},
    'Vec': {'push', 'pop', 'clear', 'insert', 'remove', 'truncate', 'retain', 'drain', 'append', 'swap_remove',
            'extend', 'reverse', 'sort', 'sort_unstable', 'sort_unstable_by_key', 'resize', 'dedup'},
    'VecDeque': {'push_back', 'push_front', 'pop_back', 'pop_front', 'clear', 'truncate', 'retain', 'drain'},
    'RefCell': {'borrow_mut', 'replace', 'swap', 'take', 'set'},
}
# callees returning a &mut into their &mut receiver (accessors: the write is found where it happens)
ACCESSORS = {'index_mut', 'get_mut', 'get2_mut', 'iter_mut', 'deref_mut', 'as_mut', 'unwrap', 'expect', 'borrow_mut',
             'as_mut_slice', 'last_mut', 'first_mut', 'row_mut', 'outer_iter_mut', 'axis_iter_mut', 'view_mut',
             'into_iter', 'next', 'zip', 'enumerate', 'rev', 'map', 'filter', 'flatten'}


class Write:
    __slots__ = ('bb', 'idx', 'kind', 'target', 'value', 'callee', 'args', 'span', 'exp', 'owned')

    def __init__(self, bb, idx, kind, target, value=None, callee=None, args=None, span='', exp=False, owned=False):
        self.owned = owned  # the written memory is a local owned by this body (not reachable from a parameter)
        self.bb = bb
        self.idx = idx
        self.kind = kind  # 'assign' | 'call' | 'mutborrow'
        self.target = target
        self.value = value
        self.callee = callee
        self.args = args
        self.span = span
        self.exp = exp

    def __repr__(self):
        if self.kind == 'assign':
            return 'bb%s: %s := %s' % (self.bb, fmt(self.target), fmt(self.value))
        if self.kind == 'call':
            return 'bb%s: %s(%s)' % (self.bb, self.callee.short, ', '.join(fmt(a) for a in self.args))
        return 'bb%s: &mut %s' % (self.bb, fmt(self.target))


def rooted_in_param(e):
    """Does the expression denote memory reachable from a parameter / upvar (not a fresh local)?"""
    for x in walk(e):
        if isinstance(x, tuple) and x and x[0] in ('param', 'upvar', 'closure_env'):
            return True
    return False


def assigns(body, R=None):
    """All assignments through a projection (field / deref / index) with resolved target."""
    R = R or Resolver(body)
    out = []
    for bb, j, s in body.stmts():
        if s['k'] != 'assign':
            continue
        pl = s['place']
        if not pl['proj']:
            continue
        tgt = R.place(pl, bb, j)
        val = R.rvalue(s['rv'], bb, j)
        out.append(Write(bb, j, 'assign', tgt, val, span=s['span'], exp=s['exp'], owned=place_is_owned(body, pl, bb, j)))
    return out


def mut_calls(body, R=None):
    """Calls whose first argument is a &mut place; returns Write(kind='call')."""
    R = R or Resolver(body)
    out = []
    for bb, t in body.calls():
        c = Callee(t['func'])
        if not t['args']:
            continue
        args = R.call_args(bb)
        a0 = t['args'][0]
        is_mut = False
        if a0['k'] in ('move', 'copy') and not a0['place']['proj']:
            ty = body.local_ty(a0['place']['local'])
            is_mut = ref_kind(ty) == 'mut'
        if is_mut:
            owned = operand_borrows_owned(body, a0, bb)
            out.append(Write(bb, 'term', 'call', args[0], callee=c, args=args, span=t['span'], exp=t['exp'], owned=owned))
    return out


BORROW_THROUGH = {'next', 'next_back', 'into_iter', 'iter_mut', 'iter', 'enumerate', 'rev', 'by_ref', 'deref_mut', 'deref', 'as_mut',
                  'as_mut_slice', 'index_mut', 'get_mut', 'first_mut', 'last_mut', 'borrow_mut', 'skip', 'take', 'peekable', 'zip'}


def _is_ref_ty(ty):
    ty = ty.strip()
    return ty.startswith('&') or ty.startswith('*')


def place_is_owned(body, pl, bb, idx, depth=0, through=False):
    """The place denotes memory owned by a local of this body (no deref of a reference on the way,
    following single-definition reborrow temporaries)."""
    l = pl['local']
    if 1 <= l <= body.arg_count:
        # by-value parameters are owned by the body, reference parameters are not
        if any(p['k'] == 'deref' for p in pl['proj']):
            return False
        return not _is_ref_ty(body.local_ty(l))
    if not any(p['k'] == 'deref' for p in pl['proj']):
        if _is_ref_ty(body.local_ty(l)):
            return False
        # the local's own storage -- unless the local is an iterator / guard built from a borrow (`IterMut`, `Enumerate<IterMut>`, ..):
        # then what it hands out lives where that borrow points
        defs = body.defs().get(l, []) if through else []   # `&mut it` as the receiver of a call is the local `it` itself
        if len(defs) == 1 and defs[0][1] == 'term' and depth <= 10:
            t = body.blocks[defs[0][0]]['term']
            if t['k'] == 'call' and Callee(t['func']).name in BORROW_THROUGH and t['args'] and \
                    t['args'][0]['k'] in ('copy', 'move') and not t['args'][0]['place']['proj']:
                a0 = t['args'][0]['place']['local']
                if _is_ref_ty(body.local_ty(a0)):
                    return place_is_owned(body, {'local': a0, 'proj': [{'k': 'deref'}]}, defs[0][0], 'term', depth + 1, True)
                return place_is_owned(body, {'local': a0, 'proj': []}, defs[0][0], 'term', depth + 1, True)
        if len(defs) == 1 and defs[0][1] != 'term' and depth <= 10:
            rv = body.blocks[defs[0][0]]['stmts'][defs[0][1]].get('rv', {})
            if rv.get('k') in ('use', 'cast') and rv['op']['k'] in ('copy', 'move') and not rv['op']['place']['proj'] and not pl['proj']:
                # the iterator moved into the loop variable / an unsizing cast of a reference: same borrow
                return place_is_owned(body, {'local': rv['op']['place']['local'], 'proj': []}, defs[0][0], defs[0][1], depth + 1, True)
            if rv.get('k') == 'ref' and not pl['proj']:
                # a synthetic local (introduced by a normalisation pass, no declared type) that holds a reference
                return place_is_owned(body, rv['place'], defs[0][0], defs[0][1], depth + 1, True)
        return True
    # deref of a local reference: look at what the reference points to
    defs = body.defs().get(l, [])
    if len(defs) != 1 or depth > 10:
        return False
    dbb, didx = defs[0]
    if didx == 'term':
        # a reference handed out by an iterator / accessor of a borrowed container (`iter.next()`, `slice.iter_mut()`, `x.as_mut()`):
        # it points into whatever the first argument borrows
        t = body.blocks[dbb]['term']
        if t['k'] == 'call' and Callee(t['func']).name in BORROW_THROUGH and t['args'] and \
                t['args'][0]['k'] in ('copy', 'move') and not t['args'][0]['place']['proj']:
            a0 = t['args'][0]['place']['local']
            if _is_ref_ty(body.local_ty(a0)):
                return place_is_owned(body, {'local': a0, 'proj': [{'k': 'deref'}]}, dbb, 'term', depth + 1, True)
            return place_is_owned(body, {'local': a0, 'proj': []}, dbb, 'term', depth + 1, True)
        return False
    rv = body.blocks[dbb]['stmts'][didx]['rv']
    if rv['k'] == 'ref':
        return place_is_owned(body, rv['place'], dbb, didx, depth + 1, through)
    if rv['k'] in ('use', 'cast') and rv['op']['k'] in ('copy', 'move'):
        inner = dict(rv['op']['place'])
        inner = {'local': inner['local'], 'proj': list(inner['proj']) + [{'k': 'deref'}]}
        return place_is_owned(body, inner, dbb, didx, depth + 1, through)
    return False


def operand_borrows_owned(body, op, bb):
    if op['k'] not in ('move', 'copy') or op['place']['proj']:
        return False
    pl = {'local': op['place']['local'], 'proj': [{'k': 'deref'}]}
    return place_is_owned(body, pl, bb, 'term')


def field_of(e, names):
    """Innermost-to-outermost: does the access path of e go through a field named in `names`?"""
    for x in walk(e):
        if isinstance(x, tuple) and x and x[0] == 'field' and x[2] in names:
            return x
    return None

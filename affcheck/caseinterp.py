"""Case interpreter: decides small accessor functions by walking their MIR over an exhaustive finite partition of their inputs.

The accessors of the arena tree (`is_root`, `is_leaf`, `contains`, `tree_node`, `child`, ..) look at their arguments only through
 * the variant of an `Option` / `Result`,
 * equality of indices,
 * one look-up in the slab.
Their behaviour is therefore fixed by a handful of cases ("root absent / root is the asked index / root is another index"), and a contract
states the result expected in each case.  `run_case` walks the MIR of the function under one such case with symbolic values (nothing of
/repo is executed, no concrete number is involved: an index is an *atom* and two atoms are equal exactly when they are the same atom) and
returns the returned value, `PANIC`, or raises Unknown when the body leaves the fragment (loops, arithmetic on atoms, unknown callees):
the rule then reports "undecided", never "holds".

Values:  bool | int | ('atom', name) | ('some', v) | ('none',) | ('ok', v) | ('err', v) | ('cf', 'Continue'|'Break', v) | ('tuple', [..]) |
         ('struct', path, {field: v}) | ('enum', path, variant, {field: v}) | ('array', {key: v}, default) | ('clo', path, [captures]) |
         ('fn', path) | ('unit',)
"""
from .mir import Callee

import os
TRACE = bool(os.environ.get('CASE_TRACE'))
PANIC = ('panic',)
UNIT = ('tuple', [])


class Unknown(Exception):
    pass


class Effect(Unknown):
    """a write the model cannot follow (through a projection, or inside an unmodelled callee that received a `&mut`): never ignored"""


class Panic(Exception):
    pass


def atom(n):
    return ('atom', n)


def some(v):
    return ('some', v)


NONE = ('none',)


def ok(v):
    return ('ok', v)


def err(v):
    return ('err', v)


def struct(path, **fields):
    return ('struct', path, dict(fields))


def is_opt(v):
    return isinstance(v, tuple) and v and v[0] in ('some', 'none')


def is_res(v):
    return isinstance(v, tuple) and v and v[0] in ('ok', 'err')


def equal(a, b):
    """structural equality of two model values; Unknown when it is not determined by the case"""
    if isinstance(a, tuple) and isinstance(b, tuple) and a and b:
        if a[0] == 'atom' and b[0] == 'atom':
            return a[1] == b[1]
        if a[0] != b[0]:
            if {a[0], b[0]} <= {'some', 'none'} or {a[0], b[0]} <= {'ok', 'err'}:
                return False
            raise Unknown('equality of %r and %r' % (a[0], b[0]))
        if a[0] in ('some', 'ok', 'err'):
            return equal(a[1], b[1])
        if a[0] == 'none':
            return True
        if a[0] == 'tuple':
            if len(a[1]) != len(b[1]):
                raise Unknown('tuple arity')
            return all(equal(x, y) for x, y in zip(a[1], b[1]))
        if a[0] == 'enum':
            if a[2] != b[2]:
                return False
            return all(equal(a[3][k], b[3][k]) for k in a[3])
        if a[0] == 'struct':
            return all(equal(a[2][k], b[2][k]) for k in a[2])
        raise Unknown('equality of %r values' % (a[0],))
    if isinstance(a, (bool, int)) and isinstance(b, (bool, int)):
        return a == b
    for x, y in ((a, b), (b, a)):
        # an atom whose name ends in `!0` stands for any value that is not zero
        if isinstance(x, tuple) and x[:1] == ('atom',) and x[1].endswith('!0') and isinstance(y, int) and not isinstance(y, bool) and y == 0:
            return False
        if isinstance(x, tuple) and x[:1] == ('len',):
            raise Unknown('a length compared with something that is not a constant')
    raise Unknown('equality of %r and %r' % (a, b))


TRANSPARENT = {'view', 'view_mut', 'clone', 'copied', 'cloned', 'deref', 'deref_mut', 'borrow', 'borrow_mut', 'as_ref', 'as_mut', 'to_owned', 'as_deref', 'into', 'by_ref'}


class CaseInterp:
    def __init__(self, facts, body, args, externals=None, depth=0, caps=None):
        """args: list of model values for the parameters (in order); externals: {callee short name: fn(list of values) -> value}"""
        self.F = facts
        self.b = body
        self.ext = externals or {}
        self.depth = depth
        self.caps = caps
        self.vals = {}
        first = 1
        if body.kind == 'Closure':
            first = 2  # _1 is the closure environment
        for i, v in enumerate(args):
            self.vals[first + i] = v

    @classmethod
    def bare(cls, facts, externals=None):
        """an interpreter without a body: only `apply` (closure / function values on model arguments) is usable"""
        o = cls.__new__(cls)
        o.F, o.b, o.ext, o.depth, o.caps, o.vals = facts, None, externals or {}, 0, None, {}
        return o

    # ---- places and operands
    def place(self, pl):
        proj = list(pl['proj'])
        if self.caps is not None and pl['local'] == 1 and self.b.kind == 'Closure':
            while proj and proj[0]['k'] == 'deref':
                proj.pop(0)
            if not proj or proj[0]['k'] != 'field':
                raise Unknown('closure environment used as a whole')
            i = proj.pop(0)['i']
            if i >= len(self.caps):
                raise Unknown('capture %d' % i)
            v = self.caps[i]
        else:
            if pl['local'] not in self.vals:
                raise Unknown('uninitialised local _%d' % pl['local'])
            v = self.vals[pl['local']]
        for p in proj:
            k = p['k']
            if k == 'deref':
                continue
            if k == 'downcast':
                want = p.get('variant')
                have = None
                if isinstance(v, tuple) and v:
                    have = {'some': 'Some', 'none': 'None', 'ok': 'Ok', 'err': 'Err'}.get(v[0])
                    if v[0] == 'cf':
                        have = v[1]
                    if v[0] == 'enum':
                        have = v[2]
                if have is None or (want is not None and have != want):
                    raise Unknown('downcast of %r to %s' % (v[:1] if isinstance(v, tuple) else v, want))
                continue
            if k == 'field':
                if not (isinstance(v, tuple) and v):
                    raise Unknown('field of %r' % (v,))
                if v[0] in ('some', 'ok', 'err'):
                    v = v[1]
                elif v[0] == 'cf':
                    v = v[2]
                elif v[0] == 'tuple':
                    if p['i'] >= len(v[1]):
                        raise Unknown('tuple field')
                    v = v[1][p['i']]
                elif v[0] == 'struct':
                    if p['name'] not in v[2]:
                        raise Unknown('field %s not in the model of %s' % (p['name'], v[1]))
                    v = v[2][p['name']]
                elif v[0] == 'enum':
                    if p['name'] not in v[3]:
                        raise Unknown('field %s of variant %s' % (p['name'], v[2]))
                    v = v[3][p['name']]
                else:
                    raise Unknown('field of %s' % v[0])
                continue
            if k == 'index':
                if pl_local_missing(self.vals, p['local']):
                    raise Unknown('index local')
                key = self.vals[p['local']]
                v = self.index(v, key)
                continue
            raise Unknown('projection ' + k)
        return v

    def index(self, arr, key):
        if not (isinstance(arr, tuple) and arr and arr[0] == 'array'):
            raise Unknown('indexing %r' % (arr[:1] if isinstance(arr, tuple) else arr,))
        if isinstance(key, int) and not isinstance(key, bool):
            if key in arr[1]:
                return arr[1][key]
            if arr[2] is PANIC:
                raise Panic()
        if isinstance(key, tuple) and key and key[0] == 'atom':
            if key[1] in arr[1]:
                return arr[1][key[1]]
            if arr[2] is PANIC:
                raise Panic()
            if arr[2] is not None:
                return arr[2]
        raise Unknown('array index %r' % (key,))

    def operand(self, op):
        if op['k'] in ('copy', 'move'):
            return self.place(op['place'])
        if op['k'] == 'const':
            if 'val' in op:
                return op['val']
            if 'fn' in op:
                return ('fn', op['fn'])
            if op.get('ty') == '()':
                return UNIT
            named = self.ext.get('#consts', {})
            if op.get('dbg') in named:
                return named[op.get('dbg')]
            return ('opaque', op.get('const_def') or op.get('dbg') or op.get('ty'))  # a string, a float, a named constant: never looked into
        raise Unknown('operand')

    # ---- rvalues
    def rvalue(self, rv):
        k = rv['k']
        if k == 'use':
            return self.operand(rv['op'])
        if k in ('ref', 'copy_for_deref', 'rawptr'):
            return self.place(rv['place'])
        if k == 'cast':
            return self.operand(rv['op'])
        if k == 'unop':
            v = self.operand(rv['x'])
            if rv['op'] == 'Not' and isinstance(v, bool):
                return not v
            raise Unknown('unary %s' % rv['op'])
        if k == 'binop':
            l, r = self.operand(rv['l']), self.operand(rv['r'])
            op = rv['op']
            if op in ('Eq', 'Ne') and not any(isinstance(x, tuple) and x[:1] == ('len',) for x in (l, r)):
                return equal(l, r) if op == 'Eq' else not equal(l, r)
            if isinstance(l, bool) and isinstance(r, bool) and op in ('BitAnd', 'BitOr', 'BitXor'):
                return {'BitAnd': l and r, 'BitOr': l or r, 'BitXor': l != r}[op]
            if isinstance(l, int) and isinstance(r, int) and not isinstance(l, bool) and op in ('Lt', 'Le', 'Gt', 'Ge'):
                return {'Lt': l < r, 'Le': l <= r, 'Gt': l > r, 'Ge': l >= r}[op]
            if isinstance(l, int) and isinstance(r, int) and not isinstance(l, bool) and not isinstance(r, bool):
                if op in ('Add', 'AddUnchecked'):
                    return l + r
                if op == 'AddWithOverflow':
                    return ('tuple', [l + r, False])
            order = self.ext.get('#order')
            if order and op in ('Lt', 'Le', 'Gt', 'Ge') and all(isinstance(x, tuple) and x[:1] == ('atom',) and x[1] in order for x in (l, r)):
                i, j = order.index(l[1]), order.index(r[1])   # the case says how these atoms are ordered
                return {'Lt': i < j, 'Le': i <= j, 'Gt': i > j, 'Ge': i >= j}[op]
            # the length of a modelled container is only known to be zero or not zero
            for x, y, o in ((l, r, op), (r, l, {'Lt': 'Gt', 'Gt': 'Lt', 'Le': 'Ge', 'Ge': 'Le'}.get(op, op))):
                if isinstance(x, tuple) and x[:1] == ('len',) and isinstance(x[1], tuple) and x[1][:1] == ('array',) and isinstance(y, int) and not isinstance(y, bool):
                    empty = not x[1][1]
                    table = {('Eq', 0): empty, ('Ne', 0): not empty, ('Gt', 0): not empty, ('Ge', 1): not empty, ('Lt', 1): empty, ('Le', 0): empty}
                    if (o, y) in table:
                        return table[(o, y)]
            raise Unknown('binary %s' % op)
        if k == 'discr':
            v = self.place(rv['place'])
            if isinstance(v, tuple) and v:
                if v[0] == 'some':
                    return 1
                if v[0] == 'none':
                    return 0
                if v[0] == 'ok':
                    return 0
                if v[0] == 'err':
                    return 1
                if v[0] == 'cf':
                    return 0 if v[1] == 'Continue' else 1
                if v[0] == 'enum':
                    for d, name in rv.get('variants', []):
                        if name == v[2]:
                            return d
            raise Unknown('discriminant')
        if k == 'agg':
            a = rv['agg']
            ops = []
            for o in rv['ops']:
                try:
                    ops.append(self.operand(o))
                except Effect:
                    raise
                except Unknown as e:
                    ops.append(('opaque', 'component outside the fragment: %s' % e))   # equal to nothing a contract expects
            if a['k'] == 'tuple':
                return ('tuple', ops)
            if a['k'] == 'closure':
                return ('clo', a['path'], ops)
            if a['k'] == 'array':
                return ('list', ops)     # a literal array: its elements are known one by one
            if a['k'] == 'adt':
                p, var = a['path'], a['variant']
                if p.endswith('option::Option'):
                    return NONE if var == 'None' else some(ops[0])
                if p.endswith('result::Result'):
                    return ok(ops[0]) if var == 'Ok' else err(ops[0])
                if p.endswith('ControlFlow'):
                    return ('cf', var, ops[0])
                fields = dict(zip(a.get('fields', []), ops))
                adt = self.F.adts.get(p)
                if adt is not None and adt.get('kind') == 'Enum':
                    return ('enum', p, var, fields)
                return ('struct', p, fields)
            raise Unknown('aggregate ' + a['k'])
        if k == 'repeat':
            return ('array', {}, self.operand(rv['op']))
        raise Unknown('rvalue ' + k)

    # ---- calls
    def apply(self, f, args):
        """call a closure / function value on a list of arguments"""
        if isinstance(f, tuple) and f and f[0] == 'clo':
            cb = self.F.closure(f[1])
            if cb is None:
                raise Unknown('closure body %s' % f[1])
            if self.depth > 6:
                raise Unknown('nesting')
            return CaseInterp(self.F, cb, args, self.ext, self.depth + 1, caps=f[2]).run()
        if isinstance(f, tuple) and f and f[0] == 'fn':
            name = f[1].split('::')[-1]
            if f[1].endswith('Option::Some') or name == 'Some':
                return some(args[0])
            if name == 'Ok':
                return ok(args[0])
            if name == 'Err':
                return err(args[0])
            cands = [b for b in self.F.all_bodies if b.path == f[1]]
            if len(cands) == 1 and self.depth <= 6:
                return CaseInterp(self.F, cands[0], args, self.ext, self.depth + 1).run()
            return self.named_call(name, '::'.join(f[1].split('::')[-2:]), args, None)
        raise Unknown('call of %r' % (f[:1] if isinstance(f, tuple) else f,))

    def named_call(self, n, short, a, callee):
        for key in (short, callee.qname if callee else None):
            if key in self.ext:
                return self.ext[key](a)
        if n in TRANSPARENT and len(a) == 1:
            return a[0]
        if n == 'from' and len(a) == 1:
            return ('conv', a[0]) if not (isinstance(a[0], tuple) and a[0][:1] == ('conv',)) else a[0]
        if n in ('eq', 'ne') and len(a) == 2:
            r = equal(a[0], a[1])
            return r if n == 'eq' else not r
        if n in ('call', 'call_mut', 'call_once') and len(a) == 2 and isinstance(a[1], tuple) and a[1][0] == 'tuple':
            return self.apply(a[0], list(a[1][1]))
        if n == 'branch' and len(a) == 1:
            v = a[0]
            if is_res(v):
                return ('cf', 'Continue', v[1]) if v[0] == 'ok' else ('cf', 'Break', err(v[1]))
            if is_opt(v):
                return ('cf', 'Continue', v[1]) if v[0] == 'some' else ('cf', 'Break', NONE)
            raise Unknown('Try::branch of %r' % (v[:1],))
        if n == 'from_residual' and len(a) == 1:
            v = a[0]
            if is_res(v) and v[0] == 'err':
                return err(v[1])  # the error conversion is the identity or a `From` wrapper: compared loosely by the contracts
            if v == NONE:
                return NONE
            raise Unknown('from_residual')
        if n == 'from_output' and len(a) == 1:
            raise Unknown('from_output (result type not known)')
        if a and is_opt(a[0]):
            o = a[0]
            if n == 'is_some':
                return o[0] == 'some'
            if n == 'is_none':
                return o[0] == 'none'
            if n == 'ok_or':
                return ok(o[1]) if o[0] == 'some' else err(a[1])
            if n == 'ok_or_else':
                return ok(o[1]) if o[0] == 'some' else err(self.apply(a[1], []))
            if n == 'map':
                return some(self.apply(a[1], [o[1]])) if o[0] == 'some' else NONE
            if n == 'and_then':
                return self.apply(a[1], [o[1]]) if o[0] == 'some' else NONE
            if n == 'filter':
                return o if o[0] == 'some' and self.apply(a[1], [o[1]]) is True else NONE
            if n == 'map_or':
                return self.apply(a[2], [o[1]]) if o[0] == 'some' else a[1]
            if n == 'map_or_else':
                return self.apply(a[2], [o[1]]) if o[0] == 'some' else self.apply(a[1], [])
            if n == 'is_some_and':
                return self.apply(a[1], [o[1]]) if o[0] == 'some' else False
            if n == 'is_none_or':
                return self.apply(a[1], [o[1]]) if o[0] == 'some' else True
            if n == 'unwrap_or':
                return o[1] if o[0] == 'some' else a[1]
            if n == 'unwrap_or_else':
                return o[1] if o[0] == 'some' else self.apply(a[1], [])
            if n == 'unwrap_or_default':
                if o[0] == 'some':
                    return o[1]
                raise Unknown('default value')
            if n in ('unwrap', 'expect'):
                if o[0] == 'some':
                    return o[1]
                raise Panic()
            if n == 'and':
                return a[1] if o[0] == 'some' else NONE
            if n == 'or':
                return o if o[0] == 'some' else a[1]
            if n == 'contains' and len(a) == 2:
                return o[0] == 'some' and equal(o[1], a[1])
        if a and is_res(a[0]):
            r = a[0]
            if n == 'is_ok':
                return r[0] == 'ok'
            if n == 'is_err':
                return r[0] == 'err'
            if n == 'ok':
                return some(r[1]) if r[0] == 'ok' else NONE
            if n == 'err':
                return some(r[1]) if r[0] == 'err' else NONE
            if n == 'map':
                return ok(self.apply(a[1], [r[1]])) if r[0] == 'ok' else r
            if n == 'map_err':
                return err(self.apply(a[1], [r[1]])) if r[0] == 'err' else r
            if n == 'and_then':
                return self.apply(a[1], [r[1]]) if r[0] == 'ok' else r
            if n == 'map_or':
                return self.apply(a[2], [r[1]]) if r[0] == 'ok' else a[1]
            if n == 'is_ok_and':
                return self.apply(a[1], [r[1]]) if r[0] == 'ok' else False
            if n == 'unwrap_or':
                return r[1] if r[0] == 'ok' else a[1]
            if n in ('unwrap', 'expect'):
                if r[0] == 'ok':
                    return r[1]
                raise Panic()
            if n == 'unwrap_or_else':
                return r[1] if r[0] == 'ok' else self.apply(a[1], [r[1]])
        if n in ('saturating_sub', 'checked_sub', 'wrapping_sub') and len(a) == 2 and isinstance(a[0], tuple) and a[0][:1] == ('len',) and a[1] == 1 and n == 'saturating_sub':
            return ('len-1', a[0][1])
        if n == 'saturating_sub' and len(a) == 2 and all(isinstance(x, int) and not isinstance(x, bool) for x in a):
            return max(a[0] - a[1], 0)
        if n == 'then' and len(a) == 2 and isinstance(a[0], bool):
            return some(self.apply(a[1], [])) if a[0] else NONE
        if n == 'then_some' and len(a) == 2 and isinstance(a[0], bool):
            return some(a[1]) if a[0] else NONE
        # iterators are symbolic pipelines: ('pipe', source, [stage, ..]); their meaning is decided element by element by the contract
        if a and isinstance(a[0], tuple) and a[0][:1] == ('list',) and n in ('iter', 'into_iter', 'iter_mut') and len(a) == 1:
            return ('pipe', a[0], [])
        if a and isinstance(a[0], tuple) and a[0][:1] == ('pipe',) and isinstance(a[0][1], tuple) and a[0][1][:1] == ('list',) and \
                n in ('find', 'any', 'all', 'position', 'count', 'find_map') and len(a) <= 2:
            # a pipeline over a literal array is walked element by element
            outs = []
            for i_, el_ in enumerate(a[0][1][1]):
                o_, rev_ = pipe_outputs(self.F, self.ext, a[0], el_, i_)
                if rev_:
                    raise Unknown('reversed literal array')
                outs.extend(o_)
            if n == 'count':
                return len(outs)
            for i_, o_ in enumerate(outs):
                r_ = self.apply(a[1], [o_])
                if n == 'find_map':
                    if not is_opt(r_):
                        raise Unknown('find_map result')
                    if r_[0] == 'some':
                        return r_
                    continue
                if not isinstance(r_, bool):
                    raise Unknown('predicate over a literal array')
                if n == 'find' and r_:
                    return some(o_)
                if n == 'position' and r_:
                    return some(i_)
                if n == 'any' and r_:
                    return True
                if n == 'all' and not r_:
                    return False
            return {'find': NONE, 'find_map': NONE, 'position': NONE, 'any': False, 'all': True}[n]
        if a and isinstance(a[0], tuple) and a[0][:1] == ('array',) and short.startswith('Slab::') and n in ('iter', 'iter_mut'):
            return ('pipe', ('slab', a[0]), [])
        if a and isinstance(a[0], tuple) and a[0][:1] == ('array',) and n in ('iter', 'into_iter', 'iter_mut', 'enumerate'):
            p = ('pipe', a[0], [])
            return p if n != 'enumerate' else ('pipe', a[0], [('enumerate',)])
        if a and isinstance(a[0], tuple) and a[0][:1] == ('pipe',):
            src, stages = a[0][1], list(a[0][2])
            if n in ('iter', 'into_iter', 'by_ref', 'copied', 'cloned', 'peekable', 'fuse') and len(a) == 1:
                return a[0]
            if n in ('enumerate', 'rev', 'flatten') and len(a) == 1:
                return ('pipe', src, stages + [(n,)])
            if n in ('map', 'filter', 'filter_map', 'flat_map') and len(a) == 2:
                return ('pipe', src, stages + [(n, a[1])])
            if n == 'count' and len(a) == 1:
                return ('count', a[0])
            if n in ('any', 'all') and len(a) == 2 and isinstance(src, tuple) and src[:1] == ('array',) and '#classes' in src[1]:
                # the source is known by the classes of elements present in it (not by its length): `any` / `all` of a predicate that only
                # depends on the class of an element is determined by that
                verdicts = []
                for cname, elem in src[1]['#classes'].items():
                    outs, _ = pipe_outputs(self.F, self.ext, a[0], elem, ('atom', 'POSITION_OF_' + cname))
                    for o in outs:
                        r = self.apply(a[1], [o])
                        if not isinstance(r, bool):
                            raise Unknown('predicate of %s' % n)
                        verdicts.append(r)
                return any(verdicts) if n == 'any' else all(verdicts)
            if n == 'next' and len(a) == 1 and '#next' in self.ext:
                return self.ext['#next'](a[0])
            if n in ('position', 'find', 'find_map', 'any') and len(a) == 2 and '#search' in self.ext:
                return self.ext['#search'](self, n, a[0], a[1])
            raise Unknown('iterator operation ' + n)
        if n == 'index' and len(a) == 2:
            return self.index(a[0], a[1])
        if n == 'get' and len(a) == 2 and isinstance(a[0], tuple) and a[0][:1] == ('array',):
            try:
                return some(self.index((a[0][0], a[0][1], None), a[1]))
            except Unknown:
                if isinstance(a[1], tuple) and a[1][:1] == ('atom',) and a[0][2] is PANIC:
                    return NONE
                raise
        raise Unknown('call ' + short)

    def call(self, t):
        c = Callee(t['func'])
        if c.indirect:
            raise Unknown('indirect call')
        args = []
        for x in t['args']:
            try:
                args.append(self.operand(x))
            except Unknown as e:
                args.append(('opaque', 'argument outside the fragment: %s' % e))  # never equal to anything a contract expects
        short = c.short
        if short in self.ext or c.qname in self.ext:
            return self.named_call(c.name, short, args, c)
        if c.name in ('next', 'count', 'map', 'filter', 'enumerate', 'rev', 'into_iter', 'iter', 'by_ref', 'filter_map') and args and isinstance(args[0], tuple) and args[0][:1] == ('pipe',):
            # a modelled iterator, whatever concrete type the callee belongs to
            return self.named_call(c.name, short, args, c)
        # a crate-local callee is interpreted in turn (its own externals are the same table)
        if c.local and c.name not in ('call', 'call_mut', 'call_once'):
            tgt = c.resolved or c.def_path
            cands = [b for b in self.F.all_bodies if b.path == tgt] if tgt else []
            if len(cands) == 1 and self.depth <= 4:
                try:
                    return CaseInterp(self.F, cands[0], args, self.ext, self.depth + 1).run()
                except Effect:
                    raise
                except Unknown:
                    if c.name not in TRANSPARENT:
                        if self.passes_mut(t):
                            owned = self.owned_mut_targets(t)
                            wf = self.written_fields(cands[0])
                            if owned is not None and len(owned) == 1 and wf is not None and isinstance(self.vals.get(owned[0]), tuple) and \
                                    self.vals[owned[0]][:1] == ('struct',) and t['args'][0]['k'] in ('copy', 'move'):
                                # a `&mut self` helper on a struct value this body owns: only the fields it may write become unknown
                                cur_ = self.vals[owned[0]]
                                nd_ = dict(cur_[2])
                                for f_ in wf:
                                    nd_[f_] = ('opaque', 'written by %s' % short)
                                self.vals[owned[0]] = ('struct', cur_[1], nd_)
                                raise Unknown('result of %s' % short)
                            if owned is None:
                                raise Effect('crate-local callee %s outside the fragment received a `&mut`' % short)
                            for l_ in owned:
                                self.vals.pop(l_, None)
                        raise
        try:
            return self.named_call(c.name, short, args, c)
        except Effect:
            raise
        except Unknown as e:
            if self.passes_mut(t):
                owned = self.owned_mut_targets(t)
                if owned is None:
                    raise Effect('unmodelled callee %s received a `&mut` (%s)' % (short, e))
                for l_ in owned:      # the callee may have changed a container this body owns: its value is no longer known
                    if l_ not in getattr(self, '_keep', set()):
                        self.vals.pop(l_, None)
                self._keep = set()
            raise

    def written_fields(self, body):
        """first-level fields of `*self` (parameter 1) a `&mut self` helper may write: assigned through `(*_1).f..` or mutably borrowed;
        None when it may write anything else of `*self`"""
        out = set()
        for bb, j, st in body.stmts():
            if st['k'] != 'assign':
                continue
            for pl, is_write in ((st['place'], True), (st['rv'].get('place') if st['rv'].get('k') == 'ref' and st['rv'].get('mut') else None, True)):
                if pl is None or pl['local'] != 1 or not pl['proj']:
                    continue
                pr = pl['proj']
                if pr[0]['k'] == 'deref' and len(pr) >= 2 and pr[1]['k'] == 'field':
                    out.add(pr[1]['name'])
                elif pl is st['place'] or (pl is not st['place']):
                    return None
        for bb, t in body.calls():
            for x in t['args']:
                if x['k'] in ('copy', 'move') and x['place']['local'] == 1 and not x['place']['proj']:
                    return None      # `self` handed on as a whole
        return out

    def fresh_allocation(self, l, depth=0):
        """the local is (a pointer derived by casts / field reads from) a box this body has just allocated: `vec![..]`, `Box::new(..)`"""
        d = self.b.defs().get(l, [])
        if len(d) != 1 or depth > 8:
            return False
        bb, j = d[0]
        if j == 'term':
            t = self.b.blocks[bb]['term']
            return t['k'] == 'call' and Callee(t['func']).name in ('new_uninit', 'new_uninit_slice', 'exchange_malloc', 'box_new') and not t['args']
        rv = self.b.blocks[bb]['stmts'][j].get('rv', {})
        if rv.get('k') in ('cast', 'use') and rv['op']['k'] in ('copy', 'move') and not any(p['k'] == 'deref' for p in rv['op']['place']['proj']):
            return self.fresh_allocation(rv['op']['place']['local'], depth + 1)
        return False

    def owned_mut_targets(self, t):
        """the locals behind the `&mut` arguments of a call, if every one of them is storage owned by this body (not reachable from a parameter);
        None otherwise"""
        out = []
        defs = self.b.defs()
        for x in t['args']:
            if x['k'] in ('copy', 'move') and not x['place']['proj']:
                l = x['place']['local']
                ty = self.b.locals[l].get('ty', '') if l < len(self.b.locals) else ''
                if not (ty.startswith('&mut') or ty.startswith('*mut')):
                    continue
                d = defs.get(l, [])
                if len(d) != 1 or d[0][1] == 'term':
                    return None
                rv = self.b.blocks[d[0][0]]['stmts'][d[0][1]].get('rv', {})
                if rv.get('k') != 'ref' or any(p['k'] == 'deref' for p in rv['place']['proj']):
                    return None
                tl = rv['place']['local']
                tty = self.b.locals[tl].get('ty', '') if tl < len(self.b.locals) else ''
                if tl <= self.b.arg_count or tty.startswith('&') or tty.startswith('*'):
                    return None
                pr = rv['place']['proj']
                cur = self.vals.get(tl)
                if pr and pr[0]['k'] == 'field' and isinstance(cur, tuple) and cur[:1] == ('struct',):
                    # only one field of a struct value this body owns is handed out: the other fields stay known
                    nd = dict(cur[2])
                    nd[pr[0]['name']] = ('opaque', 'changed by a callee')
                    self.vals[tl] = ('struct', cur[1], nd)
                    self._keep = getattr(self, '_keep', set()) | {tl}
                out.append(tl)
        return out

    def passes_mut(self, t):
        for x in t['args']:
            if x['k'] in ('copy', 'move') and not x['place']['proj']:
                l = x['place']['local']
                ty = self.b.locals[l].get('ty', '') if l < len(self.b.locals) else ''
                if ty.startswith('&mut') or ty.startswith('*mut'):
                    return True
        return False

    # ---- the walk
    def fork(self, t, why):
        """A branch inside macro-expanded code (`assert!`, `debug_assert!`, `log::debug!`, ..) on a value outside the fragment: both arms are
        walked.  An arm that only panics is the failing assertion -- a precondition the contract's cases satisfy -- and is dropped; the
        remaining arms must agree on the result (a logging arm rejoins the main path)."""
        import copy
        if getattr(self, 'forks', 0) >= 3:
            raise Unknown('branch on a value outside the fragment (%s)' % why)
        targets = []
        for _, tgt in t['targets']:
            if tgt not in targets:
                targets.append(tgt)
        if t['otherwise'] is not None and t['otherwise'] not in targets:
            targets.append(t['otherwise'])
        results = []
        for tgt in targets:
            sub = copy.copy(self)
            sub.vals = dict(self.vals)
            sub.forks = getattr(self, 'forks', 0) + 1
            try:
                results.append(sub.run(tgt))
            except Panic:
                continue
        if not results:
            raise Panic()
        if any(r != results[0] for r in results[1:]):
            raise Unknown('branch on a value outside the fragment (%s), and its arms disagree' % why)
        return results[0]

    def only_panics(self, bb):
        """the block (following gotos and calls that build the message) ends in a call that does not return: the failing arm of an assertion"""
        for _ in range(6):
            t = self.b.blocks[bb]['term']
            if t['k'] == 'call':
                if t['target'] is None:
                    return True
                c = Callee(t['func'])
                if c.self_base in ('Arguments', 'Argument') or c.name in ('new_display', 'new_debug', 'new_const', 'new_v1', 'from_str'):
                    bb = t['target']
                    continue
                return False
            if t['k'] == 'goto':
                bb = t['target']
                continue
            return False
        return False

    def run(self, start=0):
        b = self.b
        bb = start
        for _ in range(400):
            bl = b.blocks[bb]
            for st in bl['stmts']:
                if st['k'] == 'assign':
                    if st['place']['proj']:
                        from .effects import place_is_owned
                        l_ = st['place']['local']
                        pr_ = st['place']['proj']
                        cur_ = self.vals.get(l_)
                        if l_ > self.b.arg_count and len(pr_) == 1 and pr_[0]['k'] == 'field' and isinstance(cur_, tuple) and cur_[:1] == ('struct',):
                            # `local.field = v` on a struct value this body owns: a functional update of the model value
                            try:
                                v_ = self.rvalue(st['rv'])
                            except Effect:
                                raise
                            except Unknown as e:
                                v_ = ('opaque', 'component outside the fragment: %s' % e)
                            nd_ = dict(cur_[2])
                            nd_[pr_[0]['name']] = v_
                            self.vals[l_] = ('struct', cur_[1], nd_)
                            continue
                        if l_ > self.b.arg_count and (place_is_owned(self.b, st['place'], bb, bl['stmts'].index(st)) or self.fresh_allocation(l_)):
                            # a write into storage this body owns (a fresh box behind `vec![..]`, a local struct): the local is no longer
                            # known, nothing of the modelled inputs changes
                            self.vals.pop(l_, None)
                            continue
                        raise Effect('write through a projection')
                    try:
                        self.vals[st['place']['local']] = self.rvalue(st['rv'])
                    except Effect:
                        raise
                    except Unknown as e:
                        # a value that is never looked at does not matter; looking at it raises Unknown then
                        self.vals.pop(st['place']['local'], None)
                        self.last_unknown = str(e)
                        if TRACE:
                            print('  [case] %s bb%d _%d: %s' % (b.qname, bb, st['place']['local'], e))
                elif st['k'] == 'set_discr':
                    raise Effect('set_discriminant')
            t = bl['term']
            k = t['k']
            if k == 'return':
                if 0 not in self.vals:
                    raise Unknown('return value outside the fragment (%s)' % getattr(self, 'last_unknown', '?'))
                return self.vals[0]
            if k in ('goto', 'drop'):
                bb = t['target']
            elif k == 'assert':
                bb = t['target']
            elif k == 'call':
                if t['target'] is None:
                    raise Panic()  # a call that does not return: panic, abort, exit
                try:
                    v = self.call(t)
                except Effect:
                    raise
                except Unknown as e:
                    if t['target'] is None:
                        raise
                    v = None
                    self.last_unknown = str(e)
                    if TRACE:
                        print('  [case] %s bb%d call: %s' % (b.qname, bb, e))
                if t['target'] is None:
                    raise Panic()
                if t['dest']['proj']:
                    raise Effect('call result written through a projection')
                if v is None:
                    self.vals.pop(t['dest']['local'], None)
                else:
                    self.vals[t['dest']['local']] = v
                bb = t['target']
            elif k == 'switch':
                try:
                    v = self.operand(t['discr'])
                except Unknown as e:
                    if t.get('exp') or any(self.only_panics(tgt) for tgt in [x[1] for x in t['targets']] + [t['otherwise']] if tgt is not None):
                        return self.fork(t, '%s; %s' % (e, getattr(self, 'last_unknown', '?')))
                    raise Unknown('branch on a value outside the fragment (%s; %s)' % (e, getattr(self, 'last_unknown', '?')))
                if isinstance(v, bool):
                    v = int(v)
                if not isinstance(v, int):
                    raise Unknown('branch on %r' % (v,))
                nxt = t['otherwise']
                for val, tgt in t['targets']:
                    if val == v:
                        nxt = tgt
                bb = nxt
            elif k == 'unreachable':
                raise Unknown('unreachable reached')
            else:
                raise Unknown('terminator ' + k)
        raise Unknown('loop (or more than 400 steps)')


def pipe_outputs(F, ext, pipe, elem, idx):
    """what the pipeline yields for ONE source element `elem` at position `idx` -> (list of outputs, reversed?)"""
    ci = CaseInterp.bare(F, ext)
    vals, filtered, rev = [elem], False, False
    for st in pipe[2]:
        k = st[0]
        nv = []
        if k == 'rev':
            rev = not rev
            continue
        for v in vals:
            if k == 'enumerate':
                if filtered or rev:
                    raise Unknown('enumerate after a filtering or reversing stage: the position is not the position in the source')
                nv.append(('tuple', [idx, v]))
            elif k == 'map':
                nv.append(ci.apply(st[1], [v]))
            elif k == 'filter':
                r = ci.apply(st[1], [v])
                if not isinstance(r, bool):
                    raise Unknown('filter predicate')
                if r:
                    nv.append(v)
            elif k in ('filter_map', 'flat_map'):
                r = ci.apply(st[1], [v])
                if not is_opt(r):
                    raise Unknown(k + ' result')
                if r[0] == 'some':
                    nv.append(r[1])
            elif k == 'flatten':
                if not is_opt(v):
                    raise Unknown('flatten of a non-Option')
                if v[0] == 'some':
                    nv.append(v[1])
            else:
                raise Unknown('stage ' + k)
        if k in ('filter', 'filter_map', 'flat_map', 'flatten'):
            filtered = True
        vals = nv
    return vals, rev


def pl_local_missing(vals, l):
    return l not in vals


def run_case(facts, body, args, externals=None):
    """-> returned model value, or PANIC; raises Unknown"""
    try:
        return CaseInterp(facts, body, args, externals).run()
    except Panic:
        return PANIC


def loosely(v):
    """strip error conversions (`From` wrappers) for comparison"""
    if isinstance(v, tuple) and v[:1] == ('conv',):
        return loosely(v[1])
    if isinstance(v, tuple):
        return tuple(loosely(x) if isinstance(x, tuple) else ([loosely(y) for y in x] if isinstance(x, list) else
                     ({k: loosely(y) for k, y in x.items()} if isinstance(x, dict) else x)) for x in v)
    return v

"""Rule framework: instances, floors, known findings, evidence, exit codes."""
import importlib
import json
import os
import re
import sys
import time

from . import engine
from .mir import Facts

VERIF = engine.VERIF
KNOWN = os.path.join(VERIF, 'known_findings.txt')


class Inst:
    """One evaluated rule instance."""

    __slots__ = ('rule', 'site', 'ok', 'what', 'where', 'detail')

    def __init__(self, rule, site, ok, what='', where='', detail=None):
        self.rule = rule
        self.site = site
        self.ok = ok  # True = holds, False = violated, None = undecided (fail-closed)
        self.what = what
        self.where = where
        self.detail = detail

    def as_dict(self):
        d = {'rule': self.rule, 'site': self.site,
             'verdict': 'holds' if self.ok else ('UNDECIDED' if self.ok is None else 'VIOLATED'),
             'what': self.what, 'where': self.where}
        if self.detail is not None:
            d['detail'] = self.detail
        return d


class Ctx:
    def __init__(self, facts: Facts, tier, prop):
        self.facts = facts
        self.tier = tier
        self.prop = prop
        self.insts = []
        self.notes = []

    def add(self, rule, site, ok, what='', where='', detail=None):
        site = site.replace(' ', '_')  # site keys are single tokens (known_findings.txt format)
        self.insts.append(Inst(rule, site, ok, what, where, detail))
        return ok

    def ok(self, rule, site, what='', where=''):
        return self.add(rule, site, True, what, where)

    def bad(self, rule, site, what='', where='', detail=None):
        return self.add(rule, site, False, what, where, detail)

    def undecided(self, rule, site, what='', where=''):
        return self.add(rule, site, None, what, where)

    def lost(self, rule, anchor):
        """An anchor named by the property could not be located: fail closed."""
        return self.add(rule, 'anchor:' + anchor, None, 'anchor-lost: %s not found in the analysed crate' % anchor)

    def body(self, rule, qname, **kw):
        try:
            b = self.facts.q(qname, **kw)
        except KeyError as e:
            self.add(rule, 'anchor:' + qname, None, 'anchor ambiguous: %s' % e)
            return None
        if b is None:
            self.lost(rule, qname)
        return b


def load_known():
    findings = {}
    fixed = []
    if os.path.exists(KNOWN):
        for line in open(KNOWN):
            line = line.strip()
            if not line or line.startswith('#'):
                continue
            if line.startswith('finding:'):
                m = re.match(r'finding:\s+property=(\S+)\s+rule=(\S+)\s+site=(\S+)\s+::\s*(.*)', line)
                if m:
                    findings[(m.group(1), m.group(2), m.group(3))] = m.group(4)
            elif line.startswith('fixed:'):
                fixed.append(line)
    return findings, fixed


def run_property(prop, tier='quick', fresh=None):
    t0 = time.time()
    seed = int(os.environ.get('VERIF_SEED', '0') or 0)
    mod = importlib.import_module('affcheck.rules.' + prop.lower())
    if fresh is None:
        fresh = (tier == 'thorough')
    try:
        facts_path, h, info = engine.ensure_facts(fresh=fresh)
    except engine.BuildFailed as e:
        print('BUILD-FAILED: /repo does not compile under cargo +nightly check; nothing can be decided')
        print(str(e)[-3000:])
        return 2
    try:
        facts = Facts.load(facts_path)
    except FileNotFoundError:
        # the cache entry was pruned by a concurrent run between the look-up and the load: extract again
        facts_path, h, info = engine.ensure_facts(fresh=fresh)
        facts = Facts.load(facts_path)
    ctx = Ctx(facts, tier, prop)
    try:
        mod.run(ctx)
    except Exception as e:  # a crashing rule must never pass silently
        import traceback
        traceback.print_exc()
        print('CHECKER-BROKEN: rule engine raised %r' % (e,))
        return 2

    if tier == 'thorough' and getattr(mod, 'WITNESSES', None):
        run_witnesses(ctx, mod)
    if tier == 'thorough' and getattr(mod, 'CONTROLS', None):
        rc = positive_controls(ctx, mod)
        if rc:
            return rc

    floors = getattr(mod, 'FLOORS', {})
    counts = {}
    for i in ctx.insts:
        counts[i.rule] = counts.get(i.rule, 0) + 1
    for rule, floor in floors.items():
        n = counts.get(rule, 0)
        if n < floor:
            ctx.add(rule, 'floor', None,
                    'instance floor: rule evaluated %d instance(s), %d were confirmed by hand on the pinned tree '
                    '(an anchor was lost or the rule matches vacuously)' % (n, floor))

    known, fixed = load_known()
    out_dir = os.path.join(VERIF, 'out', prop if os.path.realpath(engine.repo_dir()) == '/repo' else 'scratch%s-%s' % (os.environ.get('AFFCHECK_SLOT', ''), prop))
    os.makedirs(out_dir, exist_ok=True)
    for f in os.listdir(out_dir):
        if f.endswith('.json'):
            os.remove(os.path.join(out_dir, f))
    violations = []
    known_hits = []
    for i in ctx.insts:
        if i.ok is True:
            continue
        key = (prop, i.rule, i.site)
        if key in known:
            known_hits.append((i, known[key]))
            continue
        violations.append(i)

    for i, descr in known_hits:
        print('KNOWN-FINDING: property=%s rule=%s site=%s :: %s' % (prop, i.rule, i.site, descr))
    n = 0
    for i in violations:
        n += 1
        rp = os.path.join(out_dir, 'v%03d.json' % n)
        with open(rp, 'w') as f:
            json.dump({'property': prop, 'tree_hash': h, **i.as_dict()}, f, indent=1)
        print('VIOLATION property=%s replay=%s' % (prop, rp))
        print('  rule=%s site=%s %s' % (i.rule, i.site, ('at ' + i.where) if i.where else ''))
        print('  %s%s' % ('UNDECIDED (fail-closed): ' if i.ok is None else '', i.what))

    wall = time.time() - t0
    write_evidence(mod, ctx, prop, tier, seed, wall, info, violations, known_hits, counts)
    total = len(ctx.insts)
    good = sum(1 for i in ctx.insts if i.ok is True)
    print('%s: %d rule instances over %d bodies, %d hold, %d known finding(s), %d violation(s) [%s tier, %.1fs, facts %s]' % (
        prop, total, len(facts.bodies), good, len(known_hits), len(violations), tier, wall,
        'cached' if info.get('cached') else 'extracted'))
    return 1 if violations else 0


def positive_controls(ctx, mod):
    """Thorough tier: the rules of this property are re-run on the pinned original tree (commit CONTROL_REV of /repo, in a scratch
    worktree that is removed again) and must report every defect that was found and fixed there.  A rule that has gone blind makes
    the check exit 2 (CHECKER-BROKEN) instead of passing vacuously.  Nothing is executed."""
    import shutil
    import subprocess
    import tempfile
    rev = getattr(mod, 'CONTROL_REV', '078b142')
    if subprocess.run(['git', '-C', '/repo', 'cat-file', '-e', rev + '^{commit}'], stdout=subprocess.DEVNULL, stderr=subprocess.DEVNULL).returncode != 0:
        ctx.notes.append('positive controls skipped: commit %s is not available in /repo' % rev)
        return 0
    d = tempfile.mkdtemp(prefix='affctl-')
    os.rmdir(d)
    try:
        r = subprocess.run(['git', '-C', '/repo', 'worktree', 'add', '-q', '--detach', d, rev], stdout=subprocess.PIPE, stderr=subprocess.STDOUT, text=True)
        if r.returncode != 0:
            ctx.notes.append('positive controls skipped: cannot create a scratch worktree (%s)' % r.stdout.strip()[:200])
            return 0
        if os.path.exists('/repo/Cargo.lock'):
            shutil.copy('/repo/Cargo.lock', os.path.join(d, 'Cargo.lock'))
        facts_path, h, info = engine.ensure_facts(fresh=False, repo=d)
        sub = Ctx(Facts.load(facts_path), 'quick', ctx.prop)
        mod.run(sub)
        fired = {(i.rule, i.site) for i in sub.insts if i.ok is not True}
    except engine.BuildFailed as e:
        ctx.notes.append('positive controls skipped: the original tree does not build here')
        return 0
    finally:
        subprocess.run(['git', '-C', '/repo', 'worktree', 'remove', '--force', d], stdout=subprocess.DEVNULL, stderr=subprocess.DEVNULL)
        shutil.rmtree(d, ignore_errors=True)
    missing = [c for c in mod.CONTROLS if tuple(c) not in fired]
    ctx.notes.append('positive controls on %s: %d/%d historical defects re-detected' % (rev, len(mod.CONTROLS) - len(missing), len(mod.CONTROLS)))
    if missing:
        print('CHECKER-BROKEN: rules no longer report defects they found on the original tree: %s' % missing)
        return 2
    return 0


def run_witnesses(ctx, mod):
    """E3: compile_fail witnesses + compiling twins of the harness crate, built against the analysed tree.
    Nothing is executed (twins are `no_run`)."""
    import shutil
    import subprocess
    import tempfile
    repo = os.path.realpath(engine.repo_dir())
    src = os.path.join(VERIF, 'witness')
    d = tempfile.mkdtemp(prefix='affwit-')
    try:
        shutil.copytree(os.path.join(src, 'src'), os.path.join(d, 'src'))
        shutil.copytree(os.path.join(src, '.cargo'), os.path.join(d, '.cargo'))
        shutil.copy(os.path.join(src, 'rust-toolchain.toml'), d)
        toml = open(os.path.join(src, 'Cargo.toml')).read().replace('path = "/repo"', 'path = "%s"' % repo)
        open(os.path.join(d, 'Cargo.toml'), 'w').write(toml)
        if os.path.exists(os.path.join(repo, 'Cargo.lock')):
            shutil.copy(os.path.join(repo, 'Cargo.lock'), os.path.join(d, 'Cargo.lock'))
        env = dict(os.environ, CARGO_NET_OFFLINE='true', CARGO_TARGET_DIR=os.path.join(engine.CACHE, 'witness-tgt'))
        env.pop('RUSTC_WORKSPACE_WRAPPER', None)
        r = subprocess.run(['cargo', '+nightly', 'test', '--doc', '--offline'], cwd=d, env=env, stdout=subprocess.PIPE, stderr=subprocess.STDOUT, text=True)
        out = r.stdout
    finally:
        shutil.rmtree(d, ignore_errors=True)
    rule = ctx.prop + '.W'
    for name in mod.WITNESSES:
        fails = re.findall(r'test src/lib.rs - %s \(line \d+\) - compile fail \.\.\. (\w+)' % re.escape(name), out)
        twins = re.findall(r'test src/lib.rs - %s \(line \d+\) - compile \.\.\. (\w+)' % re.escape(name), out)
        if fails == ['ok'] and twins == ['ok']:
            ctx.ok(rule, 'witness:' + name, 'the violating program is rejected by rustc with the expected error code; its twin (differing only in the offending line) compiles')
        else:
            ctx.bad(rule, 'witness:' + name, 'type-level witness no longer holds: compile_fail=%s twin=%s (a program violating the property now builds, or the witness is stale)' % (fails, twins),
                    detail=out[-1500:])


def write_evidence(mod, ctx, prop, tier, seed, wall, info, violations, known_hits, counts):
    level = getattr(mod, 'LEVEL', 'other')
    insts = ctx.insts
    sites = {(i.rule, i.site) for i in insts}
    samples = [i.as_dict() for i in insts[:400]]
    rules = getattr(mod, 'RULES', {})
    cov = {
        'evaluations': len(insts),
        'distinct_nontrivial': len(sites),
        'rule': 'one evaluation = one rule instance (a call site, construction site, writer, table arm, trait impl '
                'or kernel obligation) located by a type-directed query over the MIR facts of the current tree; '
                'distinct = distinct (rule, site key); every instance is non-trivial in that it names a concrete '
                'construct of /repo whose shape was compared with the rule',
        'samples': samples,
        'per_rule_instances': counts,
        'rules': rules,
        'floors': getattr(mod, 'FLOORS', {}),
        'bodies_analysed': len(ctx.facts.bodies),
        'closures_analysed': ctx.facts.meta.get('n_closures'),
        'tree_hash': info.get('tree_hash'),
        'facts_from_cache': info.get('cached'),
        'known_findings_matched': [{'rule': i.rule, 'site': i.site, 'descr': d} for i, d in known_hits],
        'violations': [i.as_dict() for i in violations],
        'exhaustive': True,
        'explanation': getattr(mod, 'EXPLANATION', ''),
        'does_not_decide': getattr(mod, 'DOES_NOT_DECIDE', ''),
        'notes': ctx.notes,
    }
    if level == 'proof':
        cov['obligations'] = len(insts)
        cov['discharged'] = sum(1 for i in insts if i.ok is True)
        cov['checker_cmd'] = 'python3 -m affcheck run %s --tier %s' % (prop, tier)
        cov['trusted_base'] = getattr(mod, 'TRUSTED', []) + [
            'rustc nightly front end and MIR construction (-Zmir-opt-level=0)',
            '/verif/driver fact serialiser',
            '/verif/affcheck rule engine (CFG, dominators, reaching definitions, expression resolution)',
        ]
        if cov['discharged'] != cov['obligations']:
            level = 'other'  # never claim a proof with open obligations
    ev = {
        'property_id': prop,
        'tier': tier,
        'seed': seed,
        'level': level,
        'coverage': cov,
        'assumptions': getattr(mod, 'ASSUMPTIONS', []) + [
            'default-feature, non-test configuration only (cfg(feature="highs") code cannot be built offline)',
            'nothing of /repo is executed; verdicts are about the compiled MIR of the current working tree',
        ],
        'wall_s': round(wall, 3),
        'violations': len(violations),
    }
    # evidence is only ever written for /repo itself; runs against scratch copies (selftest) go elsewhere
    evdir = os.path.join(VERIF, 'evidence') if os.path.realpath(engine.repo_dir()) == '/repo' else os.path.join(VERIF, 'out', 'evidence-scratch' + os.environ.get('AFFCHECK_SLOT', ''))
    os.makedirs(evdir, exist_ok=True)
    with open(os.path.join(evdir, prop + '.json'), 'w') as f:
        json.dump(ev, f, indent=1, default=str)

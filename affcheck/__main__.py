import argparse
import json
import os
import sys

from . import core, engine


def main():
    ap = argparse.ArgumentParser(prog='affcheck')
    sub = ap.add_subparsers(dest='cmd', required=True)
    r = sub.add_parser('run', help='run the rules of one property')
    r.add_argument('prop')
    r.add_argument('--tier', default=os.environ.get('VERIF_TIER', 'quick'), choices=['quick', 'thorough'])
    sub.add_parser('setup', help='build the driver and warm the dependency cache')
    e = sub.add_parser('explain', help='render a replay file')
    e.add_argument('path')
    x = sub.add_parser('extract', help='extract facts and print the path')
    x.add_argument('--fresh', action='store_true')
    sub.add_parser('inventory', help='(re)write affcheck/inventory.txt: the functions known to the rule set; later private helpers are inlined')
    a = ap.parse_args()
    if a.cmd == 'run':
        sys.exit(core.run_property(a.prop.upper(), a.tier))
    if a.cmd == 'setup':
        engine.build_driver()
        p, h, info = engine.ensure_facts()
        print('facts', p, info)
        try:
            print('macro fixture facts', engine.ensure_fixture_facts())
        except engine.BuildFailed as e:
            print('macro fixture does not build against the tree (reported by C14.R6 / C16.R6):', str(e)[-300:])
        return
    if a.cmd == 'extract':
        p, h, info = engine.ensure_facts(fresh=a.fresh)
        print(p)
        return
    if a.cmd == 'inventory':
        from .mir import Facts, _qname_of_dict
        p, h, info = engine.ensure_facts()
        doc = json.load(open(p))
        names = sorted({_qname_of_dict(b) for b in doc['bodies'] if b['kind'] != 'Closure'})
        with open(os.path.join(os.path.dirname(os.path.abspath(__file__)), 'inventory.txt'), 'w') as f:
            f.write('# functions of the analysed crate known to the rule set (qnames). Non-public functions that are NOT listed here\n'
                    '# (helpers extracted later) are inlined into their callers before the rules run.\n')
            f.write('\n'.join(names) + '\n')
        print(len(names), 'names')
        with open(os.path.join(os.path.dirname(os.path.abspath(__file__)), 'types_inventory.txt'), 'w') as f:
            f.write('# types of the analysed crate known to the rule set. A struct that is NOT listed here (introduced later, e.g. a named work item replacing\n'
                    '# a tuple) is treated as a plain product: its aggregates resolve like tuples and its fields positionally.\n')
            f.write('\n'.join(sorted(a['path'] for a in doc['adts'])) + '\n')
        print(len(doc['adts']), 'types')
        from .mir import fingerprints
        with open(os.path.join(os.path.dirname(os.path.abspath(__file__)), 'fingerprints.json'), 'w') as f:
            json.dump(fingerprints(doc), f, indent=0, sort_keys=True)
        return
    if a.cmd == 'explain':
        d = json.load(open(a.path))
        for k, v in d.items():
            print('%-10s %s' % (k, json.dumps(v, indent=1) if isinstance(v, (dict, list)) else v))


if __name__ == '__main__':
    main()

import argparse
import json
import os
import sys

from . import core, engine


def main():
    ap = argparse.ArgumentParser(prog='affcheck')
    sub = ap.add_subparsers(dest='cmd', required=True)
    r = sub.add_parser('run', help='run the rules of one property')
    r.add_argument('prop')
    r.add_argument('--tier', default=os.environ.get('VERIF_TIER', 'quick'), choices=['quick', 'thorough'])
    sub.add_parser('setup', help='build the driver and warm the dependency cache')
    e = sub.add_parser('explain', help='render a replay file')
    e.add_argument('path')
    x = sub.add_parser('extract', help='extract facts and print the path')
    x.add_argument('--fresh', action='store_true')
    a = ap.parse_args()
    if a.cmd == 'run':
        sys.exit(core.run_property(a.prop.upper(), a.tier))
    if a.cmd == 'setup':
        engine.build_driver()
        p, h, info = engine.ensure_facts()
        print('facts', p, info)
        return
    if a.cmd == 'extract':
        p, h, info = engine.ensure_facts(fresh=a.fresh)
        print(p)
        return
    if a.cmd == 'explain':
        d = json.load(open(a.path))
        for k, v in d.items():
            print('%-10s %s' % (k, json.dumps(v, indent=1) if isinstance(v, (dict, list)) else v))


if __name__ == '__main__':
    main()

"""E0 front end: (re)extract MIR facts of /repo's current working tree through the driver.

The analysed crate is type-checked and lowered to MIR (`cargo +nightly check`), never run.
Facts are cached by the SHA-256 of the sources they were built from; a cache entry is used
only if its recorded hash equals the hash of the tree as it is now.
"""
import fcntl
import hashlib
import json
import os
import shutil
import subprocess
import sys
import tempfile
import time

VERIF = os.path.dirname(os.path.dirname(os.path.abspath(__file__)))
DRIVER_DIR = os.path.join(VERIF, 'driver')
DRIVER_BIN = os.path.join(DRIVER_DIR, 'target', 'debug', 'afffacts')
CACHE = os.path.join(VERIF, '.cache')


def repo_dir():
    return os.environ.get('AFFCHECK_REPO', '/repo')


def tree_hash(repo):
    h = hashlib.sha256()
    files = []
    for root, dirs, fs in os.walk(os.path.join(repo, 'src')):
        dirs.sort()
        for f in sorted(fs):
            files.append(os.path.join(root, f))
    for extra in ('Cargo.toml', 'Cargo.lock', 'build.rs'):
        p = os.path.join(repo, extra)
        if os.path.exists(p):
            files.append(p)
    for p in files:
        h.update(os.path.relpath(p, repo).encode())
        h.update(b'\0')
        with open(p, 'rb') as f:
            h.update(f.read())
        h.update(b'\0')
    # the driver is part of the function computing the facts
    for p in (os.path.join(DRIVER_DIR, 'src', 'main.rs'), os.path.join(DRIVER_DIR, 'src', 'json.rs')):
        with open(p, 'rb') as f:
            h.update(f.read())
    return h.hexdigest()


def nightly_sysroot():
    return subprocess.check_output(['rustc', '+nightly', '--print', 'sysroot'], text=True).strip()


def build_driver(quiet=True):
    env = dict(os.environ, CARGO_NET_OFFLINE='true')
    r = subprocess.run(['cargo', '+nightly', 'build', '--offline'], cwd=DRIVER_DIR, env=env,
                       stdout=subprocess.PIPE, stderr=subprocess.STDOUT, text=True)
    if r.returncode != 0:
        sys.stderr.write(r.stdout)
        raise SystemExit('CHECKER-BROKEN: cannot build the fact driver')
    return DRIVER_BIN


class BuildFailed(Exception):
    pass


def _run_extract(repo, target_dir, out_dir, crate='affinitree', extra_args=()):
    os.makedirs(out_dir, exist_ok=True)
    os.makedirs(target_dir, exist_ok=True)
    # force cargo to re-run the wrapper on the workspace member
    fp = os.path.join(target_dir, 'debug', '.fingerprint')
    if os.path.isdir(fp):
        for d in os.listdir(fp):
            if d.startswith(crate + '-'):
                shutil.rmtree(os.path.join(fp, d), ignore_errors=True)
    out_file = os.path.join(out_dir, crate + '.facts.json')
    if os.path.exists(out_file):
        os.remove(out_file)
    env = dict(os.environ)
    env.update({
        'LD_LIBRARY_PATH': os.path.join(nightly_sysroot(), 'lib') + ':' + env.get('LD_LIBRARY_PATH', ''),
        'CARGO_NET_OFFLINE': 'true',
        'RUSTFLAGS': '-Zmir-opt-level=0 -Awarnings',
        'RUSTC_WORKSPACE_WRAPPER': DRIVER_BIN,
        'AFFFACTS_OUT': out_dir,
        'AFFFACTS_CRATES': crate,
        'CARGO_TARGET_DIR': target_dir,
    })
    env.pop('RUSTC_WRAPPER', None)
    cmd = ['cargo', '+nightly', 'check', '--offline', '--lib']
    if os.path.exists(os.path.join(repo, 'Cargo.lock')):
        cmd.append('--locked')
    cmd += list(extra_args)
    r = subprocess.run(cmd, cwd=repo, env=env, stdout=subprocess.PIPE, stderr=subprocess.STDOUT, text=True)
    if r.returncode != 0 or not os.path.exists(out_file):
        raise BuildFailed(r.stdout[-6000:])
    return out_file


def ensure_facts(fresh=False, repo=None):
    """Return (path to facts json, hash, info dict). Extracts if the tree changed."""
    repo = repo or repo_dir()
    t0 = time.time()
    srcs = [os.path.join(DRIVER_DIR, 'src', f) for f in os.listdir(os.path.join(DRIVER_DIR, 'src'))] + [os.path.join(DRIVER_DIR, 'Cargo.toml')]
    if not os.path.exists(DRIVER_BIN) or any(os.path.getmtime(s) > os.path.getmtime(DRIVER_BIN) for s in srcs):
        build_driver()
    h = tree_hash(repo)
    facts_dir = os.path.join(CACHE, 'facts')
    os.makedirs(facts_dir, exist_ok=True)
    cached = os.path.join(facts_dir, h + '.json')
    info = {'tree_hash': h, 'repo': repo, 'cached': False}
    slot = os.environ.get('AFFCHECK_SLOT', '')   # development aid: parallel self-tests use one build directory (and lock) per slot
    lock = open(os.path.join(CACHE, 'extract%s.lock' % slot), 'w')
    fcntl.flock(lock, fcntl.LOCK_EX)
    try:
        if os.path.exists(cached) and not fresh:
            info['cached'] = True
            try:
                os.utime(cached)      # most recently used: not the next one to be pruned
            except OSError:
                pass
        else:
            if fresh:
                tgt = tempfile.mkdtemp(prefix='afftgt-')
            else:
                tgt = os.path.join(CACHE, 'tgt' + slot)
            out_dir = tempfile.mkdtemp(prefix='afffacts-')
            try:
                f = _run_extract(repo, tgt, out_dir)
                # the tree must not have changed while we were extracting
                h2 = tree_hash(repo)
                if h2 != h:
                    raise BuildFailed('source tree changed during extraction')
                shutil.move(f, cached)
            finally:
                shutil.rmtree(out_dir, ignore_errors=True)
                if fresh:
                    shutil.rmtree(tgt, ignore_errors=True)
            # keep the cache small
            def _mt(e):
                try:
                    return os.path.getmtime(os.path.join(facts_dir, e))
                except OSError:
                    return 0.0
            ents = sorted((_mt(e), e) for e in os.listdir(facts_dir) if e.endswith('.json') and not e.startswith('fixture-'))
            for _, e in ents[:-12]:
                try:
                    os.remove(os.path.join(facts_dir, e))   # another process (a parallel scratch run) may have pruned it already
                except OSError:
                    pass
    finally:
        fcntl.flock(lock, fcntl.LOCK_UN)
        lock.close()
    info['extract_s'] = round(time.time() - t0, 2)
    return cached, h, info


FIXTURE_DIR = os.path.join(VERIF, 'fixture_macros')
FIXTURE_CRATE = 'aff_macro_fixture'


def ensure_fixture_facts(repo=None):
    """MIR facts of the macro fixture crate (`fixture_macros/`: one function per arm of the macros /repo exports), built against the
    analysed tree.  Returns the path of the facts file; raises BuildFailed when the fixture no longer compiles against the tree (an arm
    changed its input syntax) -- the rules then report the arms as undecided."""
    repo = os.path.realpath(repo or repo_dir())
    if not os.path.exists(DRIVER_BIN):
        build_driver()
    h = hashlib.sha256()
    h.update(tree_hash(repo).encode())
    for root, dirs, fs in os.walk(FIXTURE_DIR):
        dirs.sort()
        for f in sorted(fs):
            with open(os.path.join(root, f), 'rb') as fh:
                h.update(f.encode() + b'\0' + fh.read())
    key = h.hexdigest()
    facts_dir = os.path.join(CACHE, 'facts')
    os.makedirs(facts_dir, exist_ok=True)
    cached = os.path.join(facts_dir, 'fixture-' + key + '.json')
    slot = os.environ.get('AFFCHECK_SLOT', '')
    lock = open(os.path.join(CACHE, 'fixture%s.lock' % slot), 'w')
    fcntl.flock(lock, fcntl.LOCK_EX)
    try:
        if os.path.exists(cached):
            try:
                os.utime(cached)
            except OSError:
                pass
            return cached
        d = tempfile.mkdtemp(prefix='afffix-')
        try:
            shutil.copytree(os.path.join(FIXTURE_DIR, 'src'), os.path.join(d, 'src'))
            shutil.copytree(os.path.join(FIXTURE_DIR, '.cargo'), os.path.join(d, '.cargo'))
            shutil.copy(os.path.join(FIXTURE_DIR, 'rust-toolchain.toml'), d)
            toml = open(os.path.join(FIXTURE_DIR, 'Cargo.toml')).read().replace('path = "/repo"', 'path = "%s"' % repo)
            open(os.path.join(d, 'Cargo.toml'), 'w').write(toml)
            if os.path.exists(os.path.join(repo, 'Cargo.lock')):
                shutil.copy(os.path.join(repo, 'Cargo.lock'), os.path.join(d, 'Cargo.lock'))
            out_dir = os.path.join(d, 'out')
            os.makedirs(out_dir)
            env = dict(os.environ)
            env.update({
                'LD_LIBRARY_PATH': os.path.join(nightly_sysroot(), 'lib') + ':' + env.get('LD_LIBRARY_PATH', ''),
                'CARGO_NET_OFFLINE': 'true',
                'RUSTFLAGS': '-Zmir-opt-level=0 -Awarnings',
                'RUSTC_WORKSPACE_WRAPPER': DRIVER_BIN,
                'AFFFACTS_OUT': out_dir,
                'AFFFACTS_CRATES': FIXTURE_CRATE,
                'CARGO_TARGET_DIR': os.path.join(CACHE, 'tgt-fixture' + slot),
            })
            env.pop('RUSTC_WRAPPER', None)
            # force cargo to re-run the wrapper on the fixture crate (its freshness cache would otherwise replay the last run)
            fp = os.path.join(env['CARGO_TARGET_DIR'], 'debug', '.fingerprint')
            if os.path.isdir(fp):
                for x in os.listdir(fp):
                    if x.startswith(FIXTURE_CRATE + '-'):
                        shutil.rmtree(os.path.join(fp, x), ignore_errors=True)
            r = subprocess.run(['cargo', '+nightly', 'check', '--offline', '--lib'], cwd=d, env=env, stdout=subprocess.PIPE, stderr=subprocess.STDOUT, text=True)
            f = os.path.join(out_dir, FIXTURE_CRATE + '.facts.json')
            if slot:
                # scratch runs analyse a different copy of the repository every time: cargo keys the library's artifacts by its path, so they
                # would pile up in the slot's target directory -- drop them (the external dependencies stay cached)
                tdir = os.path.join(env['CARGO_TARGET_DIR'], 'debug')
                for sub, pref in (('deps', ('libaffinitree-', 'affinitree-', 'libaff_macro_fixture-', 'aff_macro_fixture-')), ('.fingerprint', ('affinitree-', 'aff_macro_fixture-'))):
                    dd = os.path.join(tdir, sub)
                    if os.path.isdir(dd):
                        for x in os.listdir(dd):
                            if x.startswith(pref):
                                px = os.path.join(dd, x)
                                shutil.rmtree(px, ignore_errors=True) if os.path.isdir(px) else os.remove(px)
                shutil.rmtree(os.path.join(tdir, 'incremental'), ignore_errors=True)
            if r.returncode != 0 or not os.path.exists(f):
                raise BuildFailed(r.stdout[-3000:])
            shutil.move(f, cached)
        finally:
            shutil.rmtree(d, ignore_errors=True)
        def _mt(e):
            try:
                return os.path.getmtime(os.path.join(facts_dir, e))
            except OSError:
                return 0.0
        ents = sorted((_mt(e), e) for e in os.listdir(facts_dir) if e.startswith('fixture-'))
        for _, e in ents[:-8]:
            try:
                os.remove(os.path.join(facts_dir, e))
            except OSError:
                pass
        return cached
    finally:
        fcntl.flock(lock, fcntl.LOCK_UN)
        lock.close()

"""Tiny abstract interpreter for predicate closures over (row, bias) pairs.

The closures that decide which constraint rows are kept look at their argument only through
 * "is every coefficient zero" (`row.iter().all(|x| x == 0)` / `!row.iter().any(|x| x != 0)`), and
 * the sign of the bias relative to zero.
So their behaviour is determined on the finite domain {all-zero, not all-zero} x {bias < 0, bias == 0, bias > 0}.
`truth_table` walks the closure's MIR under each of the six abstract inputs (nothing of /repo is executed) and returns
the returned abstract value, or raises Unknown when the closure does something outside this domain.
"""
from .mir import Callee, Resolver, fmt, strip_sites

ROW, BIAS, ZERO = 'ROW', 'BIAS', 'ZERO'


class Unknown(Exception):
    pass


def _cmp(op, sign):
    # compare bias (with sign in {-1,0,1}) against zero
    return {'eq': sign == 0, 'ne': sign != 0, 'lt': sign < 0, 'le': sign <= 0, 'gt': sign > 0, 'ge': sign >= 0}[op]


class Interp:
    def __init__(self, facts, body, arg_values, allzero, sign):
        self.F = facts
        self.b = body
        self.allzero = allzero
        self.sign = sign
        self.vals = {}
        for i, v in arg_values.items():
            self.vals[i] = v

    def place(self, pl):
        # a captured constant of the closure being interpreted (`(*_1).k`)
        caps = getattr(self, 'env_caps', None)
        if caps and pl['local'] == 1 and self.b.kind == 'Closure':
            fld = [p for p in pl['proj'] if p['k'] == 'field']
            if len(fld) == 1 and fld[0].get('i') in caps and all(p['k'] in ('deref', 'field') for p in pl['proj']):
                return caps[fld[0]['i']]
        v = self.vals.get(pl['local'])
        for p in pl['proj']:
            if p['k'] in ('deref', 'downcast'):
                continue
            if p['k'] == 'field' and isinstance(v, tuple) and v and v[0] == 'tuple':
                v = v[1][p['i']]
                continue
            if p['k'] == 'field' and isinstance(v, tuple) and v and v[0] in ('some', 'tuple1'):
                v = v[1]
                continue
            raise Unknown('projection %s of %r' % (p['k'], v))
        if v is None:
            raise Unknown('uninitialised local _%s' % pl['local'])
        return v

    def operand(self, op):
        if op['k'] in ('copy', 'move'):
            return self.place(op['place'])
        if op['k'] == 'const':
            if 'val' in op:
                return op['val']
            if 'fn' in op:
                return ('fn', op['fn'])
            return ('const', op.get('dbg'))
        raise Unknown('operand')

    def rvalue(self, rv):
        k = rv['k']
        if k == 'use':
            return self.operand(rv['op'])
        if k in ('ref', 'copy_for_deref', 'rawptr'):
            return self.place(rv['place'])
        if k == 'unop' and rv['op'] == 'Not':
            v = self.operand(rv['x'])
            if isinstance(v, bool):
                return not v
            raise Unknown('Not of %r' % (v,))
        if k == 'binop':
            l, r = self.operand(rv['l']), self.operand(rv['r'])
            return self.compare(rv['op'].lower(), l, r)
        if k == 'agg':
            a = rv['agg']
            ops = [self.operand(o) for o in rv['ops']]
            if a['k'] == 'tuple':
                return ('tuple', ops)
            if a['k'] == 'closure':
                return ('clo', a['path'], ops)
            if a['k'] == 'adt':
                if a['variant'] == 'None':
                    return ('none',)
                if a['variant'] == 'Some':
                    return ('some', ops[0])
                # a value of some other enum / struct (a classification made by a helper): only its variant and operands matter
                return ('adt', a.get('variant_idx', 0), ops)
            raise Unknown('aggregate %s' % a.get('path', a['k']))
        if k == 'cast':
            return self.operand(rv['op'])
        if k == 'discr':
            v = self.place(rv['place'])
            if isinstance(v, tuple) and v and v[0] == 'adt':
                return v[1]
            if isinstance(v, tuple) and v and v[0] == 'some':
                return 1
            if v == ('none',):
                return 0
            raise Unknown('discriminant of %r' % (v,))
        raise Unknown('rvalue ' + k)

    def compare(self, op, l, r):
        if l == BIAS and r in (ZERO, 0, 0.0):
            return _cmp(op, self.sign)
        if r == BIAS and l in (ZERO, 0, 0.0):
            return _cmp({'lt': 'gt', 'gt': 'lt', 'le': 'ge', 'ge': 'le'}.get(op, op), self.sign)
        if isinstance(l, bool) and isinstance(r, bool) and op in ('eq', 'ne', 'bitand', 'bitor'):
            return {'eq': l == r, 'ne': l != r, 'bitand': l and r, 'bitor': l or r}[op]
        raise Unknown('comparison %s(%r, %r)' % (op, l, r))

    def call(self, t):
        c = Callee(t['func'])
        args = [self.operand(a) for a in t['args']]
        n = c.name
        if n in ('iter', 'into_iter', 'clone', 'to_owned', 'deref', 'borrow', 'view', 'copied', 'cloned', 'by_ref'):
            return args[0]
        if n in ('zero',):
            return ZERO
        if n in ('eq', 'ne', 'lt', 'le', 'gt', 'ge') and len(args) == 2:
            return self.compare(n, args[0], args[1])
        if n in ('any', 'all') and args[0] == ROW and isinstance(args[1], tuple) and args[1][0] == 'clo':
            cb = self.F.closure(args[1][1])
            kind = self.element_predicate(cb, args[1][2] if len(args[1]) > 2 else None)
            if kind == 'nonzero':
                return (not self.allzero) if n == 'any' else self._unknown('all(nonzero)')
            if kind == 'zero':
                return self.allzero if n == 'all' else self._unknown('any(zero)')
            raise Unknown('element predicate of %s' % args[1][1])
        if n == 'is_sign_positive' and args[0] == BIAS:
            if self.sign == 0:
                raise Unknown('sign bit of a zero bias (+0.0 and -0.0 differ)')
            return self.sign > 0
        if n == 'is_sign_negative' and args[0] == BIAS:
            if self.sign == 0:
                raise Unknown('sign bit of a zero bias (+0.0 and -0.0 differ)')
            return self.sign < 0
        raise Unknown('call ' + c.short)

    def _unknown(self, what):
        raise Unknown(what)

    def element_predicate(self, cb, caps=None):
        """closure |x| x != 0  -> 'nonzero';  |x| x == 0 -> 'zero'  (the zero may be a captured constant: caps = the captured values)"""
        if cb is None:
            return None
        R = Resolver(cb)
        rets = [e for _, e in R.return_expr()]
        if len(rets) != 1:
            return None
        e = rets[0]
        if caps:
            idx = cb.upvar_index()

            def bind(x):
                if isinstance(x, tuple) and x[:1] == ('upvar',):
                    i = idx.get(x[1])
                    if i is not None and i < len(caps) and caps[i] == ZERO:
                        return ('call', 'Zero::zero', ())
                    return x
                if isinstance(x, tuple):
                    return tuple(bind(y) for y in x)
                return x
            e = bind(e)
        neg = False
        while e[0] == 'un' and e[1] == 'Not':
            neg = not neg
            e = e[2]
        op = None
        if e[0] == 'call' and e[1] in ('PartialEq::ne', 'PartialEq::eq') and e[2][0][0] == 'param':
            z = e[2][1]
            if z[0] == 'call' and z[1] == 'Zero::zero' or z == ('const', 0.0):
                op = e[1].split('::')[-1]
        if e[0] == 'bin' and e[1] in ('Ne', 'Eq') and e[2][0] == 'param' and e[3] in (('const', 0.0), ('const', 0)):
            op = e[1].lower()
        if op is None:
            return None
        nz = (op == 'ne') != neg
        return 'nonzero' if nz else 'zero'

    def run(self):
        b = self.b
        bb = 0
        for _ in range(500):
            bl = b.blocks[bb]
            for st in bl['stmts']:
                if st['k'] == 'assign' and not st['place']['proj']:
                    try:
                        self.vals[st['place']['local']] = self.rvalue(st['rv'])
                    except Unknown:
                        self.vals.pop(st['place']['local'], None)
            t = bl['term']
            k = t['k']
            if k == 'return':
                if 0 not in self.vals:
                    raise Unknown('return value not computed in the abstract domain')
                return self.vals[0]
            if k == 'goto':
                bb = t['target']
            elif k == 'drop':
                bb = t['target']
            elif k == 'call':
                if t['target'] is None:
                    raise Unknown('diverges')
                if not t['dest']['proj']:
                    try:
                        self.vals[t['dest']['local']] = self.call(t)
                    except Unknown:
                        self.vals.pop(t['dest']['local'], None)
                bb = t['target']
            elif k == 'switch':
                op = t['discr']
                v = self.operand(op)
                if isinstance(v, bool):
                    v = int(v)
                if not isinstance(v, int):
                    raise Unknown('branch on %r' % (v,))
                nxt = t['otherwise']
                for val, tgt in t['targets']:
                    if val == v:
                        nxt = tgt
                bb = nxt
            elif k == 'assert':
                bb = t['target']
            else:
                raise Unknown('terminator ' + k)
        raise Unknown('no return reached')


class LoopInterp(Interp):
    """One iteration of a `for (row, bias) in rows { .. }` loop that pushes the rows it keeps: the outcome of an iteration under an abstract
    (row, bias) is 'keep' (the item, or its two components, is pushed onto `vec`), 'drop' (the loop goes on without a push) or
    ('return', what) (the function returns / a value is produced: e.g. the canonical empty polytope)."""

    def __init__(self, facts, body, item_local, allzero, sign, header, vec_expr, resolver):
        Interp.__init__(self, facts, body, {item_local: ('some', ('tuple', [ROW, BIAS]))}, allzero, sign)
        self.header = header
        self.vec = vec_expr
        self.R = resolver
        self.pushed = 0
        self.ret = None

    def call(self, t):
        c = Callee(t['func'])
        if c.name == 'push':
            args = [self.operand(a) for a in t['args'][1:]]
            v = args[0] if args else None
            if v == ('tuple', [ROW, BIAS]):
                self.pushed += 1
                return ('unit',)
            raise Unknown('push of something other than the loop item')
        if c.short in ('AffFuncBase::empty', 'AffFuncBase::unbounded'):
            return ('canonical', c.name)
        return Interp.call(self, t)

    def run_iteration(self, start):
        b = self.b
        bb = start
        for _ in range(400):
            if bb == self.header:
                return 'keep' if self.pushed == 1 else ('drop' if self.pushed == 0 else 'dup')
            bl = b.blocks[bb]
            for st in bl['stmts']:
                if st['k'] == 'assign' and not st['place']['proj']:
                    try:
                        self.vals[st['place']['local']] = self.rvalue(st['rv'])
                    except Unknown:
                        self.vals.pop(st['place']['local'], None)
            t = bl['term']
            k = t['k']
            if k == 'return':
                return ('return', self.vals.get(0))
            if k in ('goto', 'drop'):
                bb = t['target']
            elif k == 'call':
                if t['target'] is None:
                    raise Unknown('diverges')
                if not t['dest']['proj']:
                    try:
                        self.vals[t['dest']['local']] = self.call(t)
                    except Unknown:
                        if Callee(t['func']).name == 'push':
                            raise
                        self.vals.pop(t['dest']['local'], None)
                bb = t['target']
            elif k == 'switch':
                v = self.operand(t['discr'])
                if isinstance(v, bool):
                    v = int(v)
                if not isinstance(v, int):
                    raise Unknown('branch on %r' % (v,))
                nxt = t['otherwise']
                for val, tgt in t['targets']:
                    if val == v:
                        nxt = tgt
                bb = nxt
            elif k == 'assert':
                bb = t['target']
            else:
                raise Unknown('terminator ' + k)
        raise Unknown('iteration does not end')


def loop_truth_table(facts, body, resolver, vec_expr):
    """{(allzero, sign): 'keep' | 'drop' | ('return', value)} for the loop of `body` that pushes onto vec_expr the items of a zipped
    (row, bias) sweep; raises Unknown if there is no such single loop."""
    from .mir import literals
    pushes = [bb for bb, t in body.calls() if Callee(t['func']).name == 'push' and resolver.call_args(bb)[0] == vec_expr]
    if not pushes:
        raise Unknown('no push onto the row list')
    cfg = body.cfg()
    hdrs = [h for h in cfg.loop_headers() if isinstance(h, int) and all(p in cfg.loop_of(h) for p in pushes)]
    if len(hdrs) != 1:
        raise Unknown('the pushes are not in one loop')
    h = hdrs[0]
    # the loop item: destination of the `next` call in the header, and the block entered on Some
    t = body.blocks[h]['term']
    if t['k'] != 'call' or Callee(t['func']).name != 'next' or t['dest']['proj']:
        raise Unknown('loop header is not an iterator step')
    item_local = t['dest']['local']
    sw = t['target']
    for _ in range(4):
        tt = body.blocks[sw]['term']
        if tt['k'] == 'switch':
            break
        sw = tt.get('target')
        if sw is None:
            raise Unknown('no match on the loop item')
    some = [tgt for v, tgt in body.blocks[sw]['term']['targets'] if v == 1]
    if len(some) != 1:
        raise Unknown('no Some arm')
    out = {}
    for allzero in (True, False):
        for sign in (-1, 0, 1):
            it = LoopInterp(facts, body, item_local, allzero, sign, h, vec_expr, resolver)
            out[(allzero, sign)] = it.run_iteration(some[0])
    return out


def truth_table(facts, closure_body, pair_arg_index=None, pair_is_ref=True):
    """{(allzero, sign): abstract return value} for a closure (or a function used as one) whose last argument is the (row, bias) pair."""
    if pair_arg_index is None:
        pair_arg_index = closure_body.arg_count   # closures: (env, item) -> 2; plain functions: (item) -> 1
    out = {}
    # captured constants: `let zero = A::zero();` hoisted out of the closure is still the constant zero inside it
    env_caps = {}
    if closure_body.kind == 'Closure':
        parent = facts.by_path.get(closure_body.parent)
        if parent is not None:
            Rp = Resolver(parent)
            for i_, j_, st_ in parent.stmts():
                rv_ = st_.get('rv') or {}
                if st_['k'] == 'assign' and rv_.get('k') == 'agg' and rv_['agg'].get('k') == 'closure' and rv_['agg'].get('path') == closure_body.path:
                    for k_, op_ in enumerate(rv_['ops']):
                        try:
                            e_ = strip_sites(Rp.operand(op_, i_, j_))
                        except Exception:
                            continue
                        if e_ in (('call', 'Zero::zero', ()), ('const', 0.0), ('const', 0)):
                            env_caps[k_] = ZERO
    for allzero in (True, False):
        for sign in (-1, 0, 1):
            it = Interp(facts, closure_body, {pair_arg_index: ('tuple', [ROW, BIAS])}, allzero, sign)
            it.env_caps = env_caps
            out[(allzero, sign)] = it.run()
    return out

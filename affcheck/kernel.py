"""E2: kernel value numbering — fold the resolved return expression of branch-free linear-algebra
functions into a canonical sum of signed monomials over the free non-commutative algebra and compare
with the documented formula.  Exact arithmetic; nothing is executed, no input is chosen.
"""
from fractions import Fraction

from .mir import Resolver, fmt, strip_sites, walk


class OutOfFragment(Exception):
    pass


# ---------------------------------------------------------------------------------------
# polynomials over non-commuting atoms; an atom is (name, transposed)


class Poly:
    __slots__ = ('t',)

    def __init__(self, terms=None):
        self.t = {k: v for k, v in (terms or {}).items() if v != 0}

    @staticmethod
    def atom(name):
        return Poly({((name, False),): Fraction(1)})

    @staticmethod
    def const(c):
        return Poly({(): Fraction(c).limit_denominator(10 ** 12) if isinstance(c, float) else Fraction(c)})

    @staticmethod
    def zero():
        return Poly({})

    def __add__(self, o):
        r = dict(self.t)
        for k, v in o.t.items():
            r[k] = r.get(k, 0) + v
        return Poly(r)

    def __neg__(self):
        return Poly({k: -v for k, v in self.t.items()})

    def __sub__(self, o):
        return self + (-o)

    def __mul__(self, o):
        r = {}
        for k1, v1 in self.t.items():
            for k2, v2 in o.t.items():
                k = k1 + k2
                r[k] = r.get(k, 0) + v1 * v2
        return Poly(r)

    def T(self):
        return Poly({tuple((n, not tr) for (n, tr) in reversed(k)): v for k, v in self.t.items()})

    def scale(self, c):
        return Poly({k: v * c for k, v in self.t.items()})

    def __eq__(self, o):
        return isinstance(o, Poly) and self.t == o.t

    def __hash__(self):
        return hash(frozenset(self.t.items()))

    def is_zero(self):
        return not self.t

    def __repr__(self):
        if not self.t:
            return '0'
        parts = []
        for k, v in sorted(self.t.items(), key=lambda kv: str(kv[0])):
            word = '·'.join(n + ("ᵀ" if tr else '') for n, tr in k) or '1'
            if v == 1:
                parts.append('+' + word)
            elif v == -1:
                parts.append('-' + word)
            else:
                parts.append('%+g·%s' % (float(v), word))
        return ' '.join(parts)


class Block:
    """vertical concatenation of blocks (each a Poly / Block)"""

    def __init__(self, parts):
        flat = []
        for p in parts:
            if isinstance(p, Block):
                flat.extend(p.parts)
            else:
                flat.append(p)
        self.parts = flat

    def __eq__(self, o):
        return isinstance(o, Block) and self.parts == o.parts

    def __repr__(self):
        return 'vstack[' + ' ; '.join(repr(p) for p in self.parts) + ']'

    def map(self, f):
        return Block([f(p) for p in self.parts])


class Aff:
    """(matrix, bias) pair"""

    def __init__(self, mat, bias, tag=None):
        self.mat = mat
        self.bias = bias

    def __eq__(self, o):
        return isinstance(o, Aff) and self.mat == o.mat and self.bias == o.bias

    def __repr__(self):
        return 'Aff(mat=%r, bias=%r)' % (self.mat, self.bias)


class Seq:
    """a sequence of affine objects (slice of polytopes), lifted field-wise"""

    def __init__(self, name):
        self.name = name


def symaff(name):
    return Aff(Poly.atom(name + '.mat'), Poly.atom(name + '.bias'))


def lift2(f, a, b):
    if isinstance(a, Block) and isinstance(b, Block) and len(a.parts) == len(b.parts):
        return Block([lift2(f, x, y) for x, y in zip(a.parts, b.parts)])
    if isinstance(a, Block) or isinstance(b, Block):
        raise OutOfFragment('block/non-block mix')
    return f(a, b)


def mul(a, b):
    # (vstack A1 A2)·X = vstack(A1·X, A2·X)
    if isinstance(a, Block):
        return a.map(lambda p: mul(p, b))
    if isinstance(b, Block):
        raise OutOfFragment('product with a stacked right operand')
    return a * b


def neg(a):
    if isinstance(a, Block):
        return a.map(neg)
    return -a


class Kernel:
    """Symbolic evaluator of resolved expressions."""

    def __init__(self, facts, inline_depth=3):
        self.F = facts
        self.depth = inline_depth
        self.point_writes = []

    def opaque(self, e):
        return Poly.atom('⟨' + fmt(strip_sites(e))[:80] + '⟩')

    def ev(self, e, env, depth=0):
        k = e[0]
        if k == 'param':
            if e[1] in env:
                return env[e[1]]
            return Poly.atom(e[1])
        if k == 'upvar':
            if ('^' + e[1]) in env:
                return env['^' + e[1]]
            return Poly.atom('^' + e[1])
        if k == 'const':
            if isinstance(e[1], (int, float)) and not isinstance(e[1], bool):
                return Poly.const(e[1])
            return self.opaque(e)
        if k == 'field':
            base = self.ev(e[1], env, depth)
            if isinstance(base, Aff):
                if e[2] == 'mat':
                    return base.mat
                if e[2] == 'bias':
                    return base.bias
            if isinstance(base, Seq):
                return Poly.atom('%s[*].%s' % (base.name, e[2]))
            if isinstance(base, Poly) and len(base.t) == 1:
                (mono, c), = base.t.items()
                if c == 1 and len(mono) == 1 and not mono[0][1]:
                    return Poly.atom(mono[0][0] + '.' + e[2])
            return self.opaque(e)
        if k == 'agg':
            kind = e[1]
            if isinstance(kind, tuple) and kind[1] == 'AffFuncBase':
                return Aff(self.ev(e[2][0], env, depth), self.ev(e[2][1], env, depth))
            return self.opaque(e)
        if k == 'call':
            return self.call(e, env, depth)
        if k == 'phi':
            raise OutOfFragment('data-dependent value %s' % fmt(e)[:80])
        return self.opaque(e)

    def call(self, e, env, depth):
        name, args = e[1], e[2]
        ev = lambda x: self.ev(x, env, depth)
        short = name.split('::')[-1]
        if name == 'ArrayBase::dot':
            return mul(ev(args[0]), ev(args[1]))
        if name in ('Add::add',):
            return lift2(lambda a, b: a + b, ev(args[0]), ev(args[1]))
        if name in ('Sub::sub',):
            return lift2(lambda a, b: a - b, ev(args[0]), ev(args[1]))
        if name == 'Neg::neg':
            return neg(ev(args[0]))
        if name == 'Mul::mul':
            a, b = ev(args[0]), ev(args[1])
            # scalar multiplication only
            for x, y in ((a, b), (b, a)):
                if isinstance(y, Poly) and set(y.t) <= {()}:
                    c = y.t.get((), 0)
                    return x.scale(c) if isinstance(x, Poly) else x.map(lambda p: p.scale(c))
            return self.opaque(e)
        if name == 'ArrayBase::t':
            a = ev(args[0])
            if isinstance(a, Poly):
                return a.T()
            raise OutOfFragment('transpose of a block')
        if name in ('ArrayBase::zeros',):
            return Poly.zero()
        if name in ('ArrayBase::eye',):
            return Poly.const(1)  # multiplicative identity
        if name == 'ArrayBase::ones':
            return Poly.atom('𝟙')
        if name in ('concatenate', 'ndarray::concatenate') or short == 'concatenate':
            axis, arr = args[0], args[1]
            if axis != ('agg', ('adt', 'Axis', 'Axis', ('0',)), (('const', 0),)):
                return self.opaque(e)
            if arr[0] == 'agg' and arr[1] == 'array':
                return Block([ev(x) for x in arr[2]])
            # collect(map(seq, |p| p.field))
            lifted = self.lifted_field(arr, env)
            if lifted is not None:
                return lifted
            return self.opaque(e)
        if name in ('ArrayBase::mapv', 'ArrayBase::map', 'ArrayBase::mapv_into') and len(args) == 2 and args[1][0] == 'closure':
            # element-wise map with a linear closure: |c| -c  /  |c| c * k  /  |c| k * c  /  |c| c   (k a literal)
            cb = self.F.closure(args[1][1])
            rets = [strip_sites(r) for _, r in Resolver(cb).return_expr()] if cb is not None else []
            if len(rets) == 1:
                prm = ('param', cb.arg_names()[-1])
                r = rets[0]
                a = ev(args[0])
                scale = None
                if r == prm:
                    scale = 1
                elif (r[0] == 'un' and r[1] == 'Neg' and r[2] == prm) or (r[0] == 'call' and r[1] == 'Neg::neg' and r[2] == (prm,)):
                    scale = -1
                elif r[0] == 'bin' and r[1] == 'Mul' and ((r[2] == prm and r[3][0] == 'const') or (r[3] == prm and r[2][0] == 'const')):
                    kv = r[3][1] if r[2] == prm else r[2][1]
                    if isinstance(kv, (int, float)) and not isinstance(kv, bool):
                        scale = kv
                if scale is not None:
                    if scale == 1:
                        return a
                    if scale == -1:
                        return neg(a)
                    return a.scale(scale) if isinstance(a, Poly) else a.map(lambda p_: p_.scale(scale))
            return self.opaque(e)
        if name == 'AffFuncBase::from_mats':
            return Aff(ev(args[0]), ev(args[1]))
        if name in ('ArrayBase::insert_axis', 'ArrayBase::into_shape', 'ArrayBase::into_dyn', 'ArrayBase::into_dimensionality'):
            return ev(args[0])
        # crate-local kernels are inlined
        if depth < self.depth:
            cands = self.F.qs(name)
            if len(cands) == 1 and cands[0].kind != 'Closure':
                cb = cands[0]
                R = Resolver(cb)
                rets = [x for _, x in R.return_expr()]
                if len(rets) == 1 and rets[0][0] != 'phi' and not inplace_mutations(cb, R) and not cb.cfg().loop_headers():
                    names = cb.arg_names()
                    sub = {}
                    for n, a in zip(names, args):
                        sub[n] = ev(a)
                    return self.ev(rets[0], sub, depth + 1)
        return self.opaque(e)

    def lifted_field(self, arr, env):
        """collect(map(polys, |p| p.mat.view())) -> the field of every element in sequence order"""
        x = arr
        if x[0] == 'call' and x[1] in ('Iterator::collect', 'Itertools::collect_vec') and x[2]:
            x = x[2][0]
        if x[0] == 'call' and x[1] == 'Iterator::map' and x[2][1][0] == 'closure':
            src, clo = x[2]
            cb = self.F.closure(clo[1])
            if cb is None:
                return None
            rets = [r for _, r in Resolver(cb).return_expr()]
            # the accessors matrix_view() / bias_view() are the fields themselves (their bodies are instances of the C16 wrapper table)
            if len(rets) == 1 and rets[0][0] == 'call' and rets[0][1] in ('AffFuncBase::matrix_view', 'AffFuncBase::bias_view') and len(rets[0][2]) == 1 and rets[0][2][0][0] == 'param':
                rets = [('field', rets[0][2][0], 'mat' if rets[0][1].endswith('matrix_view') else 'bias')]
            if len(rets) == 1 and rets[0][0] == 'field' and rets[0][1][0] == 'param':
                srcv = self.ev(src, env)
                if isinstance(srcv, Poly) and len(srcv.t) == 1:
                    (mono, c), = srcv.t.items()
                    if c == 1 and len(mono) == 1:
                        return Poly.atom('%s[*].%s' % (mono[0][0], rets[0][2]))
        return None


BENIGN_MUT = {'index_mut', 'next', 'into_iter', 'iter_mut', 'deref_mut', 'as_mut', 'borrow_mut'}


def inplace_mutations(body, R=None):
    """&mut uses of intermediates that the value-numbering does not model (it treats locals as values): calls that take an owned local
    or a by-value parameter by &mut (`x *= 2.0`, `x.map_inplace(..)`, `x.fill(..)`), other than element access handled as point writes."""
    from .effects import mut_calls
    R = R or Resolver(body)
    out = []
    for w in mut_calls(body, R):
        if w.callee.name in BENIGN_MUT:
            continue
        if not w.owned:
            continue
        # only numeric containers matter (iterators and builders are consumed, not value-numbered)
        t = body.blocks[w.bb]['term']
        a0 = t['args'][0]
        ty = body.local_ty(a0['place']['local']) if a0['k'] in ('copy', 'move') else ''
        # the mutated object itself is an array / affine function (a Vec of views that is pushed to is a collection being built, handled by the rules)
        t0 = ty.lstrip('&').replace('mut ', '').strip()
        if t0.startswith('ndarray::ArrayBase') or t0.startswith('ArrayBase') or 'AffFuncBase' in t0.split('<')[0]:
            out.append(w)
    return out


def kernel_return(F, body):
    """The single resolved return expression of a branch-free kernel, or OutOfFragment."""
    R = Resolver(body)
    muts = inplace_mutations(body, R)
    if muts:
        raise OutOfFragment('intermediate mutated in place (%s): the value at its use is not its defining expression' % muts[0].callee.short)
    rets = [e for _, e in R.return_expr()]
    if len(rets) != 1:
        raise OutOfFragment('%d return sites' % len(rets))
    if rets[0][0] == 'phi':
        raise OutOfFragment('data-dependent result')
    return R, rets[0]


def kernel_return_soft(F, body):
    """kernel_return for shape-matching callers: outside the fragment the return expression is ('unknown', reason), which matches no shape."""
    try:
        return kernel_return(F, body)
    except OutOfFragment as e:
        return Resolver(body), ('unknown', str(e))


def index_writes(body, R, base_expr):
    """Point writes `base[idx] = v` (through IndexMut) onto the object denoted by base_expr: list of (idx exprs, value expr)."""
    from .effects import assigns
    out = []
    for w in assigns(body, R):
        t = w.target
        if t[0] == 'call' and t[1] in ('IndexMut::index_mut',) and len(t[2]) == 2 and t[2][0] == base_expr:
            idx = t[2][1]
            if idx[0] == 'agg' and idx[1] == 'array':
                idx = idx[2]
            else:
                idx = (idx,)
            out.append((idx, w.value, w.bb))
    return out

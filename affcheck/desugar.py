"""MIR-level normalisation: iterator consumers written as method calls are the loops they abbreviate.

    it.for_each(|x| body)                      for x in it { body }
    it.try_for_each(|x| body)  (Result<(),E>)  for x in it { body? }  Ok(())
    v.extend(it)                               for x in it { v.push(x) }
    it.fold(init, |acc, x| body)               let mut acc = init; for x in it { acc = body }  acc

and the adaptors `filter(pred)` / `map(f)` directly under such a consumer become a guard / a rebinding of the loop item:

    it.filter(|x| p).for_each(|x| body)        for x in it { if !p { continue }  body }
    v.extend(it.map(|x| e))                    for x in it { v.push(e) }

The closure bodies are grafted into the caller (locals and blocks renumbered); captured variables are replaced by the captured places of
the caller.  The rewritten body is what every rule sees, so a loop and its iterator spelling have the same shape.  Nothing is executed.
"""
import copy

from . import mir as M

ADAPTORS = {'std::iter::Iterator::filter': 'filter', 'std::iter::Iterator::map': 'map'}
CONSUMERS = {'std::iter::Iterator::for_each': 'for_each', 'std::iter::Iterator::try_for_each': 'try', 'std::iter::Extend::extend': 'extend',
             'std::iter::Iterator::fold': 'fold'}


def _pl(l, proj=()):
    return {'local': l, 'proj': list(proj)}


def _graft(b, c, env_op, arg_rvs, span):
    """Append the closure body c to body b. -> dict(entry, exit, ret, first, last, lbase)
    entry: block binding environment and parameters, exit: empty block every `return` of c jumps to (terminator to be set by the caller)."""
    lbase = len(b['locals'])
    lm = lambda l: l + lbase
    for l in c['locals']:
        b['locals'].append(dict(l, i=l['i'] + lbase))
    for d in c['debug']:
        v = d['value']
        if 'local' in v and not any(isinstance(p.get('owner'), dict) and 'closure' in p['owner'] for p in v['proj']):
            b['debug'].append({'name': d['name'], 'value': M._rename_place(v, lm), 'arg': None})
    ENTRY = len(b['blocks'])
    EXIT = ENTRY + 1
    bbase = ENTRY + 2
    bm = lambda x: x + bbase
    asg = lambda place, rv: {'k': 'assign', 'place': place, 'rv': rv, 'span': span, 'exp': True}
    stmts = []
    if env_op is not None:
        stmts.append(asg(_pl(lm(1)), {'k': 'use', 'op': ({'k': 'copy', 'place': env_op['place']} if 'place' in env_op else env_op)}))
    for k, rv in enumerate(arg_rvs):
        stmts.append(asg(_pl(lm(2 + k)), rv))
    b['blocks'].append({'cleanup': False, 'stmts': stmts, 'term': {'k': 'goto', 'target': bm(0), 'span': span, 'exp': True}})
    b['blocks'].append({'cleanup': False, 'stmts': [], 'term': {'k': 'unreachable', 'span': span, 'exp': True}})
    for blk in c['blocks']:
        nb = {'cleanup': blk['cleanup'], 'stmts': [], 'term': None}
        for st in blk['stmts']:
            s2 = dict(st)
            if 'place' in st:
                s2['place'] = M._rename_place(st['place'], lm)
            if 'rv' in st:
                s2['rv'] = M._rename_rv(st['rv'], lm)
            nb['stmts'].append(s2)
        tt = dict(blk['term'])
        k = tt['k']
        if k == 'return':
            tt = {'k': 'goto', 'target': EXIT, 'span': tt['span'], 'exp': True}
        else:
            for key in ('target', 'otherwise'):
                if tt.get(key) is not None and isinstance(tt.get(key), int):
                    tt[key] = bm(tt[key])
            if k == 'switch':
                tt['targets'] = [[v, bm(x)] for v, x in tt['targets']]
                tt['discr'] = M._rename_op(tt['discr'], lm)
            if k == 'call':
                tt['args'] = [M._rename_op(a, lm) for a in tt['args']]
                tt['dest'] = M._rename_place(tt['dest'], lm)
                if 'indirect' in tt['func']:
                    tt['func'] = dict(tt['func'], indirect=M._rename_op(tt['func']['indirect'], lm))
            if k == 'drop':
                tt['place'] = M._rename_place(tt['place'], lm)
            if k == 'assert':
                tt['cond'] = M._rename_op(tt['cond'], lm)
            if k == 'other':
                tt['succ'] = [bm(x) for x in tt.get('succ', [])]
        nb['term'] = tt
        b['blocks'].append(nb)
    last = len(b['blocks'])
    if c.get('promoted'):
        off = len(b.get('promoted', []))
        b.setdefault('promoted', []).extend(c['promoted'])
        for blk in b['blocks'][bbase:last]:
            for st in blk['stmts']:
                M._shift_promoted(st.get('rv'), off)
            for a in blk['term'].get('args', []) if blk['term']['k'] == 'call' else []:
                M._shift_promoted_op(a, off)
    if env_op is not None and 'place' in env_op:
        M._substitute_captures(b['blocks'][bbase:last], lm(1), M._capture_places(b, env_op['place']['local']))
    if c.get('path') is not None:
        b.setdefault('inlined', []).append(c['path'])
    return {'entry': ENTRY, 'exit': EXIT, 'ret': lm(0), 'first': bbase, 'last': last, 'lbase': lbase}


def _closure_of(b, op, pristine, nargs):
    """the closure body literally assigned to the operand's local, if it takes `nargs` parameters besides its environment"""
    if op['k'] not in ('move', 'copy') or op['place']['proj']:
        return None
    path = M._unique_closure_def(b, op['place']['local'])
    if path is None or path not in pristine or path == b['path']:
        return None
    c = pristine[path]
    return c if c['arg_count'] == 1 + nargs else None


def _peel(b, it_op, pristine):
    """strip `filter(closure)` / `map(closure)` adaptors off an iterator operand: (base operand, [(kind, closure, closure operand)] source-first)"""
    stages = []
    for _ in range(4):
        if it_op['k'] not in ('move', 'copy') or it_op['place']['proj']:
            break
        t = M._unique_call_def(b, it_op['place']['local'])
        if t is None or t['func'].get('def') not in ADAPTORS or len(t['args']) != 2:
            break
        c = _closure_of(b, t['args'][1], pristine, 1)
        if c is None:
            break
        stages.append((ADAPTORS[t['func']['def']], c, t['args'][1]))
        it_op = t['args'][0]
    stages.reverse()
    return it_op, stages


def build_loop(b, bb, kind, it_op, stages, c, clo_op, extra):
    t = b['blocks'][bb]['term']
    span = t['span']
    dest, cont = t['dest'], t['target']
    f = t['func']
    nl = len(b['locals'])
    l_ref, l_item, l_discr, l_cur, l_acc, l_tmp = range(nl, nl + 6)
    for k in range(6):
        b['locals'].append({'i': nl + k, 'ty': '<desugared>', 'mut': True})
    mk = lambda stmts, term: {'cleanup': False, 'stmts': stmts, 'term': term}
    asg = lambda place, rv: {'k': 'assign', 'place': place, 'rv': rv, 'span': span, 'exp': True}
    goto = lambda x: {'k': 'goto', 'target': x, 'span': span, 'exp': True}
    leave = goto(cont) if cont is not None else {'k': 'unreachable', 'span': span, 'exp': True}
    B = len(b['blocks'])
    H, S, U, E, BODY = B, B + 1, B + 2, B + 3, B + 4
    nextf = {'def': 'std::iter::Iterator::next', 'generic_args': f.get('generic_args', [])[:1], 'name': 'next', 'local': False,
             'trait': 'std::iter::Iterator', 'self_ty': f.get('self_ty')}
    if kind == 'fold':
        b['blocks'][bb]['stmts'].append(asg(_pl(l_acc), {'k': 'use', 'op': extra['init']}))
    b['blocks'][bb]['term'] = goto(H)
    b['blocks'].append(mk([asg(_pl(l_ref), {'k': 'ref', 'mut': True, 'place': it_op['place']})],
                          {'k': 'call', 'func': nextf, 'args': [{'k': 'move', 'place': _pl(l_ref)}], 'dest': _pl(l_item), 'target': S, 'span': span, 'exp': True}))
    b['blocks'].append(mk([asg(_pl(l_discr), {'k': 'discr', 'place': _pl(l_item), 'adt': 'std::option::Option', 'variants': [[0, 'None'], [1, 'Some']]})],
                          {'k': 'switch', 'discr': {'k': 'move', 'place': _pl(l_discr)}, 'discr_ty': 'isize', 'targets': [[0, E], [1, BODY]], 'otherwise': U, 'span': span, 'exp': True}))
    b['blocks'].append(mk([], {'k': 'unreachable', 'span': span, 'exp': True}))
    if kind == 'try':
        done = {'k': 'agg', 'agg': {'k': 'adt', 'path': 'std::result::Result', 'variant': 'Ok', 'variant_idx': 0, 'fields': ['0']}, 'ops': [{'k': 'const', 'ty': '()', 'dbg': '()'}]}
    elif kind == 'fold':
        done = {'k': 'use', 'op': {'k': 'move', 'place': _pl(l_acc)}}
    else:
        done = {'k': 'use', 'op': {'k': 'const', 'ty': '()', 'dbg': '()'}}
    b['blocks'].append(mk([asg(dest, done)], dict(leave)))
    some0 = [{'k': 'downcast', 'variant': 'Some', 'i': 1}, {'k': 'field', 'i': 0, 'name': '0', 'owner': {'adt': 'std::option::Option', 'variant': 'Some'}, 'ty': '<item>'}]
    b['blocks'].append(mk([asg(_pl(l_cur), {'k': 'use', 'op': {'k': 'move', 'place': _pl(l_item, some0)}})], goto(None)))
    tail = BODY   # block whose goto target is still open
    grafted = []

    def link(target):
        b['blocks'][tail]['term'] = goto(target)

    for skind, sc, sop in stages:
        if skind == 'filter':
            g = _graft(b, copy.deepcopy(sc), sop, [{'k': 'ref', 'mut': False, 'place': _pl(l_cur)}], span)
            link(g['entry'])
            nxt = len(b['blocks'])
            b['blocks'].append(mk([], goto(None)))
            b['blocks'][g['exit']]['term'] = {'k': 'switch', 'discr': {'k': 'move', 'place': _pl(g['ret'])}, 'discr_ty': 'bool', 'targets': [[0, H]], 'otherwise': nxt, 'span': span, 'exp': True}
            tail = nxt
        else:
            g = _graft(b, copy.deepcopy(sc), sop, [{'k': 'use', 'op': {'k': 'move', 'place': _pl(l_cur)}}], span)
            link(g['entry'])
            # the mapped item lives in a local of its own (single assignment: it is not a loop-carried variable)
            l_new = len(b['locals'])
            b['locals'].append({'i': l_new, 'ty': '<desugared>', 'mut': True})
            nxt = len(b['blocks'])
            b['blocks'].append(mk([asg(_pl(l_new), {'k': 'use', 'op': {'k': 'move', 'place': _pl(g['ret'])}})], goto(None)))
            b['blocks'][g['exit']]['term'] = goto(nxt)
            tail = nxt
            l_cur = l_new
        grafted.append(g)
        M._resolve_ref_aliases(b, g['lbase'])
    if kind == 'extend':
        push = len(b['blocks'])
        b['blocks'].append(mk([], {'k': 'call', 'func': extra['push'], 'args': [t['args'][0], {'k': 'move', 'place': _pl(l_cur)}], 'dest': _pl(l_tmp), 'target': H, 'span': span, 'exp': False}))
        link(push)
    elif kind == 'fold':
        g = _graft(b, copy.deepcopy(c), clo_op, [{'k': 'use', 'op': {'k': 'move', 'place': _pl(l_acc)}}, {'k': 'use', 'op': {'k': 'move', 'place': _pl(l_cur)}}], span)
        link(g['entry'])
        b['blocks'][g['exit']] = mk([asg(_pl(l_acc), {'k': 'use', 'op': {'k': 'move', 'place': _pl(g['ret'])}})], goto(H))
        grafted.append(g)
        M._resolve_ref_aliases(b, g['lbase'])
    else:
        g = _graft(b, copy.deepcopy(c), clo_op, [{'k': 'use', 'op': {'k': 'move', 'place': _pl(l_cur)}}], span)
        link(g['entry'])
        grafted.append(g)
        if kind == 'try':
            EARLY = len(b['blocks'])
            b['blocks'].append(mk([asg(dest, {'k': 'use', 'op': {'k': 'move', 'place': _pl(g['ret'])}})], dict(leave)))
            b['blocks'][g['exit']] = mk([asg(_pl(l_tmp), {'k': 'discr', 'place': _pl(g['ret']), 'adt': 'std::result::Result', 'variants': [[0, 'Ok'], [1, 'Err']]})],
                                        {'k': 'switch', 'discr': {'k': 'move', 'place': _pl(l_tmp)}, 'discr_ty': 'isize', 'targets': [[0, H], [1, EARLY]], 'otherwise': U, 'span': span, 'exp': True})
            M._thread_known_returns(b, range(g['first'], g['last']), g['ret'], g['exit'], H, EARLY)
        else:
            b['blocks'][g['exit']]['term'] = goto(H)
        M._resolve_ref_aliases(b, g['lbase'])
    return [x for x in (c,) + tuple(s_[1] for s_ in stages) if x is not None]


CLOSURE_CALLS = ('std::ops::Fn::call', 'std::ops::FnMut::call_mut', 'std::ops::FnOnce::call_once')


def _unique_stmt_def(b, local):
    found = []
    for blk in b['blocks']:
        for st in blk['stmts']:
            if st['k'] == 'assign' and st['place']['local'] == local and not st['place']['proj']:
                found.append(st['rv'])
        t = blk['term']
        if t['k'] == 'call' and t['dest']['local'] == local and not t['dest']['proj']:
            found.append(None)
    return found[0] if len(found) == 1 else None


def inline_closure_call(b, bb, pristine):
    """`let f = |a, b| body; .. f(x, y) ..` — the direct call of a closure defined in the same function is its body with the parameters
    bound to the arguments and the captures to the captured places.  Returns the closure body grafted, or None."""
    t = b['blocks'][bb]['term']
    f = t['func']
    path = f.get('resolved')
    if f.get('def') not in CLOSURE_CALLS or path not in pristine or path == b['path'] or len(t['args']) != 2 or t['target'] is None:
        return None
    c = pristine[path]
    env, tup = t['args']
    if env['k'] not in ('move', 'copy') or env['place']['proj'] or tup['k'] not in ('move', 'copy') or tup['place']['proj']:
        return None
    # the closure value: the operand itself, or what it borrows
    clo_local = env['place']['local']
    if M._unique_closure_def(b, clo_local) != path:
        rv = _unique_stmt_def(b, clo_local)
        if rv is None or rv['k'] != 'ref' or rv['place']['proj'] or M._unique_closure_def(b, rv['place']['local']) != path:
            return None
        clo_local = rv['place']['local']
    # the argument tuple, built right before the call
    rv = _unique_stmt_def(b, tup['place']['local'])
    nargs = c['arg_count'] - 1
    if rv is None or rv['k'] != 'agg' or rv['agg']['k'] != 'tuple' or len(rv['ops']) != nargs:
        return None
    span = t['span']
    g = _graft(b, copy.deepcopy(c), {'k': 'copy', 'place': _pl(clo_local)}, [{'k': 'use', 'op': op} for op in rv['ops']], span)
    b['blocks'][bb]['term'] = {'k': 'goto', 'target': g['entry'], 'span': span, 'exp': True}
    b['blocks'][g['exit']] = {'cleanup': False, 'stmts': [{'k': 'assign', 'place': t['dest'], 'rv': {'k': 'use', 'op': {'k': 'move', 'place': _pl(g['ret'])}}, 'span': span, 'exp': True}],
                              'term': {'k': 'goto', 'target': t['target'], 'span': span, 'exp': True}}
    M._resolve_ref_aliases(b, g['lbase'])
    return c


def apply_desugaring(doc, rounds=3):
    """Rewrite every recognised consumer call of every body (see module doc). Returns [(body path, grafted closure path)]."""
    closures = {b['path']: b for b in doc['bodies'] if b['kind'] == 'Closure'}
    pristine = {p: copy.deepcopy(b) for p, b in closures.items()}
    done = []
    for _ in range(rounds):
        changed = False
        for b in doc['bodies']:
            n0 = len(b['blocks'])
            for i in range(n0):
                blk = b['blocks'][i]
                t = blk['term']
                if t['k'] != 'call' or blk['cleanup'] or t['target'] is None:
                    continue
                f = t['func']
                if f.get('def') in CLOSURE_CALLS:
                    u = inline_closure_call(b, i, pristine)
                    if u is not None:
                        done.append((b['path'], u['path']))
                        changed = True
                    continue
                kind = CONSUMERS.get(f.get('def'))
                if kind is None:
                    continue
                extra = {}
                c = clo_op = None
                if kind == 'extend':
                    if len(t['args']) != 2:
                        continue
                    sty = f.get('self_ty') or ''
                    if sty.startswith('std::vec::Vec<'):
                        extra['push'] = {'def': 'std::vec::Vec::<T, A>::push', 'generic_args': [], 'name': 'push', 'local': False, 'impl_self': 'std::vec::Vec<T, A>'}
                    elif sty.startswith('std::collections::VecDeque<'):
                        extra['push'] = {'def': 'std::collections::VecDeque::<T, A>::push_back', 'generic_args': [], 'name': 'push_back', 'local': False, 'impl_self': 'std::collections::VecDeque<T, A>'}
                    else:
                        continue
                    it_op = t['args'][1]
                elif kind == 'fold':
                    if len(t['args']) != 3:
                        continue
                    it_op, extra['init'], clo_op = t['args']
                    c = _closure_of(b, clo_op, pristine, 2)
                    if c is None:
                        continue
                else:
                    if len(t['args']) != 2:
                        continue
                    it_op, clo_op = t['args']
                    c = _closure_of(b, clo_op, pristine, 1)
                    if c is None:
                        continue
                    if kind == 'try' and not c['locals'][0]['ty'].startswith('std::result::Result<(), '):
                        continue
                if it_op['k'] not in ('move', 'copy') or it_op['place']['proj']:
                    continue
                base, stages = _peel(b, it_op, pristine)
                used = build_loop(b, i, kind, base, stages, c, clo_op, extra)
                for u in used:
                    done.append((b['path'], u['path']))
                changed = True
        if not changed:
            break
        pristine = {p: copy.deepcopy(b) for p, b in closures.items()}
    return done

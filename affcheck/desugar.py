"""MIR-level normalisation: iterator consumers written as method calls are the loops they abbreviate.

    it.for_each(|x| body)                      for x in it { body }
    it.try_for_each(|x| body)  (Result<(),E>)  for x in it { body? }  Ok(())
    v.extend(it)                               for x in it { v.push(x) }
    it.fold(init, |acc, x| body)               let mut acc = init; for x in it { acc = body }  acc

and the adaptors `filter(pred)` / `map(f)` directly under such a consumer become a guard / a rebinding of the loop item:

    it.filter(|x| p).for_each(|x| body)        for x in it { if !p { continue }  body }
    v.extend(it.map(|x| e))                    for x in it { v.push(e) }

The closure bodies are grafted into the caller (locals and blocks renumbered); captured variables are replaced by the captured places of
the caller.  The rewritten body is what every rule sees, so a loop and its iterator spelling have the same shape.  Nothing is executed.
"""
import copy

from . import mir as M

ADAPTORS = {'std::iter::Iterator::filter': 'filter', 'std::iter::Iterator::map': 'map'}
CONSUMERS = {'std::iter::Iterator::for_each': 'for_each', 'std::iter::Iterator::try_for_each': 'try', 'std::iter::Extend::extend': 'extend',
             'std::iter::Iterator::fold': 'fold'}


def _pl(l, proj=()):
    return {'local': l, 'proj': list(proj)}


def _graft(b, c, env_op, arg_rvs, span):
    """Append the closure body c to body b. -> dict(entry, exit, ret, first, last, lbase)
    entry: block binding environment and parameters, exit: empty block every `return` of c jumps to (terminator to be set by the caller)."""
    lbase = len(b['locals'])
    lm = lambda l: l + lbase
    for l in c['locals']:
        b['locals'].append(dict(l, i=l['i'] + lbase))
    for d in c['debug']:
        v = d['value']
        if 'local' in v and not any(isinstance(p.get('owner'), dict) and 'closure' in p['owner'] for p in v['proj']):
            b['debug'].append({'name': d['name'], 'value': M._rename_place(v, lm), 'arg': None})
    ENTRY = len(b['blocks'])
    EXIT = ENTRY + 1
    bbase = ENTRY + 2
    bm = lambda x: x + bbase
    asg = lambda place, rv: {'k': 'assign', 'place': place, 'rv': rv, 'span': span, 'exp': True}
    stmts = []
    if env_op is not None:
        stmts.append(asg(_pl(lm(1)), {'k': 'use', 'op': ({'k': 'copy', 'place': env_op['place']} if 'place' in env_op else env_op)}))
    for k, rv in enumerate(arg_rvs):
        stmts.append(asg(_pl(lm(2 + k)), rv))
    b['blocks'].append({'cleanup': False, 'stmts': stmts, 'term': {'k': 'goto', 'target': bm(0), 'span': span, 'exp': True}})
    b['blocks'].append({'cleanup': False, 'stmts': [], 'term': {'k': 'unreachable', 'span': span, 'exp': True}})
    for blk in c['blocks']:
        nb = {'cleanup': blk['cleanup'], 'stmts': [], 'term': None}
        for st in blk['stmts']:
            s2 = dict(st)
            if 'place' in st:
                s2['place'] = M._rename_place(st['place'], lm)
            if 'rv' in st:
                s2['rv'] = M._rename_rv(st['rv'], lm)
            nb['stmts'].append(s2)
        tt = dict(blk['term'])
        k = tt['k']
        if k == 'return':
            tt = {'k': 'goto', 'target': EXIT, 'span': tt['span'], 'exp': True}
        else:
            for key in ('target', 'otherwise'):
                if tt.get(key) is not None and isinstance(tt.get(key), int):
                    tt[key] = bm(tt[key])
            if k == 'switch':
                tt['targets'] = [[v, bm(x)] for v, x in tt['targets']]
                tt['discr'] = M._rename_op(tt['discr'], lm)
            if k == 'call':
                tt['args'] = [M._rename_op(a, lm) for a in tt['args']]
                tt['dest'] = M._rename_place(tt['dest'], lm)
                if 'indirect' in tt['func']:
                    tt['func'] = dict(tt['func'], indirect=M._rename_op(tt['func']['indirect'], lm))
            if k == 'drop':
                tt['place'] = M._rename_place(tt['place'], lm)
            if k == 'assert':
                tt['cond'] = M._rename_op(tt['cond'], lm)
            if k == 'other':
                tt['succ'] = [bm(x) for x in tt.get('succ', [])]
        nb['term'] = tt
        b['blocks'].append(nb)
    last = len(b['blocks'])
    if c.get('promoted'):
        off = len(b.get('promoted', []))
        b.setdefault('promoted', []).extend(c['promoted'])
        for blk in b['blocks'][bbase:last]:
            for st in blk['stmts']:
                M._shift_promoted(st.get('rv'), off)
            for a in blk['term'].get('args', []) if blk['term']['k'] == 'call' else []:
                M._shift_promoted_op(a, off)
    if env_op is not None and 'place' in env_op:
        M._substitute_captures(b['blocks'][bbase:last], lm(1), M._capture_places(b, env_op['place']['local']))
    if c.get('path') is not None:
        b.setdefault('inlined', []).append(c['path'])
    return {'entry': ENTRY, 'exit': EXIT, 'ret': lm(0), 'first': bbase, 'last': last, 'lbase': lbase}


def _closure_of(b, op, pristine, nargs):
    """the closure body literally assigned to the operand's local, if it takes `nargs` parameters besides its environment"""
    if op['k'] not in ('move', 'copy') or op['place']['proj']:
        return None
    path = M._unique_closure_def(b, op['place']['local'])
    if path is None or path not in pristine or path == b['path']:
        return None
    c = pristine[path]
    return c if c['arg_count'] == 1 + nargs else None


def _peel(b, it_op, pristine):
    """strip `filter(closure)` / `map(closure)` adaptors off an iterator operand: (base operand, [(kind, closure, closure operand)] source-first)"""
    stages = []
    for _ in range(4):
        if it_op['k'] not in ('move', 'copy') or it_op['place']['proj']:
            break
        t = M._unique_call_def(b, it_op['place']['local'])
        if t is None or t['func'].get('def') not in ADAPTORS or len(t['args']) != 2:
            break
        c = _closure_of(b, t['args'][1], pristine, 1)
        if c is None:
            break
        stages.append((ADAPTORS[t['func']['def']], c, t['args'][1]))
        it_op = t['args'][0]
    stages.reverse()
    return it_op, stages


def build_loop(b, bb, kind, it_op, stages, c, clo_op, extra):
    t = b['blocks'][bb]['term']
    span = t['span']
    dest, cont = t['dest'], t['target']
    f = t['func']
    nl = len(b['locals'])
    l_ref, l_item, l_discr, l_cur, l_acc, l_tmp = range(nl, nl + 6)
    for k in range(6):
        b['locals'].append({'i': nl + k, 'ty': '<desugared>', 'mut': True})
    mk = lambda stmts, term: {'cleanup': False, 'stmts': stmts, 'term': term}
    asg = lambda place, rv: {'k': 'assign', 'place': place, 'rv': rv, 'span': span, 'exp': True}
    goto = lambda x: {'k': 'goto', 'target': x, 'span': span, 'exp': True}
    leave = goto(cont) if cont is not None else {'k': 'unreachable', 'span': span, 'exp': True}
    B = len(b['blocks'])
    H, S, U, E, BODY = B, B + 1, B + 2, B + 3, B + 4
    nextf = {'def': 'std::iter::Iterator::next', 'generic_args': f.get('generic_args', [])[:1], 'name': 'next', 'local': False,
             'trait': 'std::iter::Iterator', 'self_ty': f.get('self_ty')}
    if kind == 'fold':
        b['blocks'][bb]['stmts'].append(asg(_pl(l_acc), {'k': 'use', 'op': extra['init']}))
    b['blocks'][bb]['term'] = goto(H)
    b['blocks'].append(mk([asg(_pl(l_ref), {'k': 'ref', 'mut': True, 'place': it_op['place']})],
                          {'k': 'call', 'func': nextf, 'args': [{'k': 'move', 'place': _pl(l_ref)}], 'dest': _pl(l_item), 'target': S, 'span': span, 'exp': True}))
    b['blocks'].append(mk([asg(_pl(l_discr), {'k': 'discr', 'place': _pl(l_item), 'adt': 'std::option::Option', 'variants': [[0, 'None'], [1, 'Some']]})],
                          {'k': 'switch', 'discr': {'k': 'move', 'place': _pl(l_discr)}, 'discr_ty': 'isize', 'targets': [[0, E], [1, BODY]], 'otherwise': U, 'span': span, 'exp': True}))
    b['blocks'].append(mk([], {'k': 'unreachable', 'span': span, 'exp': True}))
    if kind == 'try':
        done = {'k': 'agg', 'agg': {'k': 'adt', 'path': 'std::result::Result', 'variant': 'Ok', 'variant_idx': 0, 'fields': ['0']}, 'ops': [{'k': 'const', 'ty': '()', 'dbg': '()'}]}
    elif kind == 'fold':
        done = {'k': 'use', 'op': {'k': 'move', 'place': _pl(l_acc)}}
    else:
        done = {'k': 'use', 'op': {'k': 'const', 'ty': '()', 'dbg': '()'}}
    b['blocks'].append(mk([asg(dest, done)], dict(leave)))
    some0 = [{'k': 'downcast', 'variant': 'Some', 'i': 1}, {'k': 'field', 'i': 0, 'name': '0', 'owner': {'adt': 'std::option::Option', 'variant': 'Some'}, 'ty': '<item>'}]
    b['blocks'].append(mk([asg(_pl(l_cur), {'k': 'use', 'op': {'k': 'move', 'place': _pl(l_item, some0)}})], goto(None)))
    tail = BODY   # block whose goto target is still open
    grafted = []

    def link(target):
        b['blocks'][tail]['term'] = goto(target)

    for skind, sc, sop in stages:
        if skind == 'filter':
            g = _graft(b, copy.deepcopy(sc), sop, [{'k': 'ref', 'mut': False, 'place': _pl(l_cur)}], span)
            link(g['entry'])
            nxt = len(b['blocks'])
            b['blocks'].append(mk([], goto(None)))
            b['blocks'][g['exit']]['term'] = {'k': 'switch', 'discr': {'k': 'move', 'place': _pl(g['ret'])}, 'discr_ty': 'bool', 'targets': [[0, H]], 'otherwise': nxt, 'span': span, 'exp': True}
            tail = nxt
        else:
            g = _graft(b, copy.deepcopy(sc), sop, [{'k': 'use', 'op': {'k': 'move', 'place': _pl(l_cur)}}], span)
            link(g['entry'])
            # the mapped item lives in a local of its own (single assignment: it is not a loop-carried variable)
            l_new = len(b['locals'])
            b['locals'].append({'i': l_new, 'ty': '<desugared>', 'mut': True})
            nxt = len(b['blocks'])
            b['blocks'].append(mk([asg(_pl(l_new), {'k': 'use', 'op': {'k': 'move', 'place': _pl(g['ret'])}})], goto(None)))
            b['blocks'][g['exit']]['term'] = goto(nxt)
            tail = nxt
            l_cur = l_new
        grafted.append(g)
        M._resolve_ref_aliases(b, g['lbase'])
    if kind == 'extend':
        push = len(b['blocks'])
        b['blocks'].append(mk([], {'k': 'call', 'func': extra['push'], 'args': [t['args'][0], {'k': 'move', 'place': _pl(l_cur)}], 'dest': _pl(l_tmp), 'target': H, 'span': span, 'exp': False}))
        link(push)
    elif kind == 'fold':
        g = _graft(b, copy.deepcopy(c), clo_op, [{'k': 'use', 'op': {'k': 'move', 'place': _pl(l_acc)}}, {'k': 'use', 'op': {'k': 'move', 'place': _pl(l_cur)}}], span)
        link(g['entry'])
        b['blocks'][g['exit']] = mk([asg(_pl(l_acc), {'k': 'use', 'op': {'k': 'move', 'place': _pl(g['ret'])}})], goto(H))
        grafted.append(g)
        M._resolve_ref_aliases(b, g['lbase'])
    else:
        g = _graft(b, copy.deepcopy(c), clo_op, [{'k': 'use', 'op': {'k': 'move', 'place': _pl(l_cur)}}], span)
        link(g['entry'])
        grafted.append(g)
        if kind == 'try':
            EARLY = len(b['blocks'])
            b['blocks'].append(mk([asg(dest, {'k': 'use', 'op': {'k': 'move', 'place': _pl(g['ret'])}})], dict(leave)))
            b['blocks'][g['exit']] = mk([asg(_pl(l_tmp), {'k': 'discr', 'place': _pl(g['ret']), 'adt': 'std::result::Result', 'variants': [[0, 'Ok'], [1, 'Err']]})],
                                        {'k': 'switch', 'discr': {'k': 'move', 'place': _pl(l_tmp)}, 'discr_ty': 'isize', 'targets': [[0, H], [1, EARLY]], 'otherwise': U, 'span': span, 'exp': True})
            M._thread_known_returns(b, range(g['first'], g['last']), g['ret'], g['exit'], H, EARLY)
        else:
            b['blocks'][g['exit']]['term'] = goto(H)
        M._resolve_ref_aliases(b, g['lbase'])
    return [x for x in (c,) + tuple(s_[1] for s_ in stages) if x is not None]


CLOSURE_CALLS = ('std::ops::Fn::call', 'std::ops::FnMut::call_mut', 'std::ops::FnOnce::call_once')


def _unique_stmt_def(b, local):
    found = []
    for blk in b['blocks']:
        for st in blk['stmts']:
            if st['k'] == 'assign' and st['place']['local'] == local and not st['place']['proj']:
                found.append(st['rv'])
        t = blk['term']
        if t['k'] == 'call' and t['dest']['local'] == local and not t['dest']['proj']:
            found.append(None)
    return found[0] if len(found) == 1 else None


def _mentions_local(c, local):
    import json as _json
    txt = _json.dumps([[st for st in blk['stmts']] + [blk['term']] for blk in c['blocks']])
    return ('"local": %d,' % local) in txt or ('"local": %d}' % local) in txt


def _chase_closure(b, local, depth=0):
    """(local that holds the closure aggregate, closure path) reached from `local` through plain moves and borrows, or None"""
    if depth > 6:
        return None
    p = M._unique_closure_def(b, local)
    if p is not None:
        return local, p
    rv = _unique_stmt_def(b, local)
    if rv is None:
        return None
    if rv['k'] == 'ref' and not rv['place']['proj']:
        return _chase_closure(b, rv['place']['local'], depth + 1)
    if rv['k'] == 'use' and rv['op']['k'] in ('move', 'copy') and not rv['op']['place']['proj']:
        return _chase_closure(b, rv['op']['place']['local'], depth + 1)
    return None


def inline_closure_calls_again(doc):
    """second round after helpers were grafted into their callers: closure values that travelled through a helper's parameter"""
    closures = {b['path']: b for b in doc['bodies'] if b['kind'] == 'Closure'}
    pristine = {p: copy.deepcopy(b) for p, b in closures.items()}
    done = []
    for b in doc['bodies']:
        for _ in range(3):
            hit = False
            for i in range(len(b['blocks'])):
                blk = b['blocks'][i]
                t = blk['term']
                if t['k'] == 'call' and not blk['cleanup'] and t['func'].get('def') in CLOSURE_CALLS:
                    u = inline_closure_call(b, i, pristine)
                    if u is not None:
                        done.append((b['path'], u['path']))
                        hit = True
            if not hit:
                break
    return done


def inline_closure_call(b, bb, pristine):
    """`let f = |a, b| body; .. f(x, y) ..` — the direct call of a closure defined in the same function is its body with the parameters
    bound to the arguments and the captures to the captured places.  Returns the closure body grafted, or None."""
    t = b['blocks'][bb]['term']
    f = t['func']
    if f.get('def') not in CLOSURE_CALLS or len(t['args']) != 2 or t['target'] is None:
        return None
    env, tup = t['args']
    if env['k'] not in ('move', 'copy') or env['place']['proj'] or tup['k'] not in ('move', 'copy') or tup['place']['proj']:
        return None
    path = f.get('resolved')
    chased = None
    if path not in pristine:
        # a closure handed to a generic helper (`fn rows<W: FnMut(..)>(.., mut write_row: W)`) that was grafted into this function: the call
        # is generic in the helper's MIR; the value called is found by following the moves back to the closure expression
        chased = _chase_closure(b, env['place']['local'])
        if chased is None:
            return None
        path = chased[1]
    if path not in pristine or path == b['path']:
        return None
    c = pristine[path]
    # the closure value: the operand itself, or what it borrows; a closure that captures nothing can be called from anywhere (typically
    # from another closure that captured it: `let is_zero = |r| ..; rows.filter(|r| !is_zero(r))`), its body does not depend on the value
    clo_local = env['place']['local']
    env_free = not _mentions_local(c, 1)
    if env_free:
        clo_local = None
    elif chased is not None:
        clo_local = chased[0]
    elif M._unique_closure_def(b, clo_local) != path:
        rv = _unique_stmt_def(b, clo_local)
        if rv is None or rv['k'] != 'ref' or rv['place']['proj'] or M._unique_closure_def(b, rv['place']['local']) != path:
            return None
        clo_local = rv['place']['local']
    # the argument tuple, built right before the call
    rv = _unique_stmt_def(b, tup['place']['local'])
    nargs = c['arg_count'] - 1
    if rv is None or rv['k'] != 'agg' or rv['agg']['k'] != 'tuple' or len(rv['ops']) != nargs:
        return None
    span = t['span']
    # a capture by value holds what the variable was when the closure was made; reading the variable at the call instead is the same only
    # if it is never assigned again (parameters and single-assignment locals)
    for cap in (M._capture_places(b, clo_local) if clo_local is not None else []):
        if cap is not None and cap[0] == 'val':
            l = cap[1]['local']
            if l > b['arg_count'] and len(_defs_of(b, l)) != 1:
                return None
            if l <= b['arg_count'] and l != 0 and _defs_of(b, l):
                return None
    g = _graft(b, copy.deepcopy(c), ({'k': 'copy', 'place': _pl(clo_local)} if clo_local is not None else None), [{'k': 'use', 'op': op} for op in rv['ops']], span)
    b['blocks'][bb]['term'] = {'k': 'goto', 'target': g['entry'], 'span': span, 'exp': True}
    b['blocks'][g['exit']] = {'cleanup': False, 'stmts': [{'k': 'assign', 'place': t['dest'], 'rv': {'k': 'use', 'op': {'k': 'move', 'place': _pl(g['ret'])}}, 'span': span, 'exp': True}],
                              'term': {'k': 'goto', 'target': t['target'], 'span': span, 'exp': True}}
    M._resolve_ref_aliases(b, g['lbase'])
    return c


def apply_desugaring(doc, rounds=3):
    """Rewrite every recognised consumer call of every body (see module doc). Returns [(body path, grafted closure path)]."""
    closures = {b['path']: b for b in doc['bodies'] if b['kind'] == 'Closure'}
    pristine = {p: copy.deepcopy(b) for p, b in closures.items()}
    done = []
    for _ in range(rounds):
        changed = False
        for b in doc['bodies']:
            n0 = len(b['blocks'])
            for i in range(n0):
                blk = b['blocks'][i]
                t = blk['term']
                if t['k'] != 'call' or blk['cleanup'] or t['target'] is None:
                    continue
                f = t['func']
                if f.get('def') in CLOSURE_CALLS:
                    u = inline_closure_call(b, i, pristine)
                    if u is not None:
                        done.append((b['path'], u['path']))
                        changed = True
                    continue
                kind = CONSUMERS.get(f.get('def'))
                if kind is None:
                    continue
                extra = {}
                c = clo_op = None
                if kind == 'extend':
                    if len(t['args']) != 2:
                        continue
                    sty = f.get('self_ty') or ''
                    if sty.startswith('std::vec::Vec<'):
                        extra['push'] = {'def': 'std::vec::Vec::<T, A>::push', 'generic_args': [], 'name': 'push', 'local': False, 'impl_self': 'std::vec::Vec<T, A>'}
                    elif sty.startswith('std::collections::VecDeque<'):
                        extra['push'] = {'def': 'std::collections::VecDeque::<T, A>::push_back', 'generic_args': [], 'name': 'push_back', 'local': False, 'impl_self': 'std::collections::VecDeque<T, A>'}
                    else:
                        continue
                    it_op = t['args'][1]
                elif kind == 'fold':
                    if len(t['args']) != 3:
                        continue
                    it_op, extra['init'], clo_op = t['args']
                    c = _closure_of(b, clo_op, pristine, 2)
                    if c is None:
                        continue
                else:
                    if len(t['args']) != 2:
                        continue
                    it_op, clo_op = t['args']
                    c = _closure_of(b, clo_op, pristine, 1)
                    if c is None:
                        continue
                    if kind == 'try' and not c['locals'][0]['ty'].startswith('std::result::Result<(), '):
                        continue
                if it_op['k'] not in ('move', 'copy') or it_op['place']['proj']:
                    continue
                base, stages = _peel(b, it_op, pristine)
                used = build_loop(b, i, kind, base, stages, c, clo_op, extra)
                for u in used:
                    done.append((b['path'], u['path']))
                changed = True
        if not changed:
            break
        pristine = {p: copy.deepcopy(b) for p, b in closures.items()}
    return done


# ---------------------------------------------------------------------------------------------------------------------------------------
# loops over a literal array are the sequence of their iterations


def _succs(t):
    k = t['k']
    out = []
    if k in ('goto', 'drop', 'call', 'assert'):
        if t.get('target') is not None:
            out.append(t['target'])
    elif k == 'switch':
        out = [x for _, x in t['targets']] + [t['otherwise']]
    elif k == 'other':
        out = list(t.get('succ', []))
    return [x for x in out if isinstance(x, int)]


def _retarget(t, f):
    t = dict(t)
    for key in ('target', 'otherwise'):
        if isinstance(t.get(key), int):
            t[key] = f(t[key])
    if t['k'] == 'switch':
        t['targets'] = [[v, f(x)] for v, x in t['targets']]
    if t['k'] == 'other':
        t['succ'] = [f(x) for x in t.get('succ', [])]
    return t


def _defs_of(b, local):
    out = []
    for i, blk in enumerate(b['blocks']):
        for st in blk['stmts']:
            if st['k'] == 'assign' and st['place']['local'] == local and not st['place']['proj']:
                out.append((i, st['rv']))
        t = blk['term']
        if t['k'] == 'call' and t['dest']['local'] == local and not t['dest']['proj']:
            out.append((i, t))
    return out


def _literal_array(b, op, depth=0):
    """operands of the array literal an operand denotes (through plain moves and into_iter / iter), or None"""
    if depth > 5 or op['k'] not in ('move', 'copy') or op['place']['proj']:
        return None
    defs = _defs_of(b, op['place']['local'])
    if len(defs) != 1:
        return None
    _, d = defs[0]
    if d.get('k') == 'agg' and d['agg']['k'] == 'array':
        loc = op['place']['local']
        # the literal must still be what was written: no element of it is overwritten, its address is not handed out mutably, and
        # every element is a constant or a temporary assigned once
        for blk in b['blocks']:
            for st in blk['stmts']:
                if st['k'] == 'assign' and st['place']['local'] == loc and st['place']['proj']:
                    return None
                if st['k'] == 'assign' and st['rv'].get('k') == 'ref' and st['rv'].get('mut') and st['rv']['place']['local'] == loc:
                    return None
        for o in d['ops']:
            if o['k'] in ('move', 'copy') and (o['place']['proj'] or len(_defs_of(b, o['place']['local'])) != 1):
                return None
        return d['ops']
    if d.get('k') == 'use':
        return _literal_array(b, d['op'], depth + 1)
    if d.get('k') == 'ref' and not d['place']['proj']:
        return _literal_array(b, {'k': 'copy', 'place': d['place']}, depth + 1)
    if d.get('k') == 'call' and d['func'].get('name') in ('into_iter',) and len(d['args']) == 1 and '; ' in (d['func'].get('self_ty') or d['func'].get('impl_self') or ''):
        return _literal_array(b, d['args'][0], depth + 1)
    return None


def unroll_literal_loops(doc, max_len=4):
    """`for x in [a, b] { body }` (also after a for_each / helper was turned into a loop): body[x := a]; body[x := b].  Only loops whose
    header is `next()` on an iterator over an array literal of at most max_len elements, taken by value.  Returns [(body path, n)]."""
    done = []
    for b in doc['bodies']:
        for _round in range(4):
            hit = None
            for h, blk in enumerate(b['blocks']):
                t = blk['term']
                if t['k'] != 'call' or blk['cleanup'] or t['func'].get('name') != 'next' or len(t['args']) != 1 or t['target'] is None or t['dest']['proj']:
                    continue
                a0 = t['args'][0]
                if a0['k'] not in ('move', 'copy') or a0['place']['proj']:
                    continue
                # `_r = &mut ITER` in the header
                refs = [st['rv'] for st in blk['stmts'] if st['k'] == 'assign' and st['place']['local'] == a0['place']['local'] and not st['place']['proj']]
                if len(refs) != 1 or refs[0]['k'] != 'ref' or refs[0]['place']['proj']:
                    continue
                elems = _literal_array(b, {'k': 'copy', 'place': refs[0]['place']})
                if elems is None or not (1 <= len(elems) <= max_len):
                    continue
                sw = b['blocks'][t['target']]
                if sw['term']['k'] != 'switch' or len(sw['term']['targets']) != 2:
                    continue
                tg = dict((v, x) for v, x in sw['term']['targets'])
                if 0 not in tg or 1 not in tg:
                    continue
                hit = (h, t['target'], tg[1], tg[0], t['dest']['local'], elems, t['span'])
                break
            if hit is None:
                break
            H, S, B0, EXIT, ITEM, elems, span = hit
            # loop body: blocks reachable from B0 that can reach H again, plus blocks on the way that leave the loop are NOT copied
            fwd = set()
            st_ = [B0]
            while st_:
                n = st_.pop()
                if n in fwd or n in (H, S):
                    continue
                fwd.add(n)
                st_.extend(_succs(b['blocks'][n]['term']))
            preds = {}
            for i, blk in enumerate(b['blocks']):
                for x in _succs(blk['term']):
                    preds.setdefault(x, []).append(i)
            back = set()
            st_ = [p_ for p_ in preds.get(H, []) if p_ in fwd]
            while st_:
                n = st_.pop()
                if n in back or n not in fwd:
                    continue
                back.add(n)
                st_.extend(preds.get(n, []))
            L = back   # the natural loop without its header and the switch
            if not L or B0 not in L or any(b['blocks'][n]['cleanup'] for n in L):
                break
            # locals whose every definition lies inside the loop are private to an iteration
            private = set()
            inside = L | {H, S}
            defined = {}
            for i, blk in enumerate(b['blocks']):
                for st in blk['stmts']:
                    if st['k'] == 'assign' and not st['place']['proj']:
                        defined.setdefault(st['place']['local'], set()).add(i)
                t = blk['term']
                if t['k'] == 'call' and not t['dest']['proj']:
                    defined.setdefault(t['dest']['local'], set()).add(i)
            for l, where in defined.items():
                if where <= inside and l >= 1 + b['arg_count']:
                    private.add(l)
            entries = []
            order = sorted(L)
            for k, elem in enumerate(elems):
                base = len(b['blocks'])
                bmap = {n: base + 1 + j for j, n in enumerate(order)}
                lmap = {}
                for l in sorted(private):
                    lmap[l] = len(b['locals'])
                    b['locals'].append(dict(b['locals'][l], i=lmap[l]))
                lm = lambda l, lmap=lmap: lmap.get(l, l)
                item = lm(ITEM)
                entry = {'cleanup': False, 'stmts': [{'k': 'assign', 'place': _pl(item), 'span': span, 'exp': True,
                                                      'rv': {'k': 'agg', 'agg': {'k': 'adt', 'path': 'std::option::Option', 'variant': 'Some', 'variant_idx': 1, 'fields': ['0']}, 'ops': [elem]}}],
                         'term': {'k': 'goto', 'target': bmap[B0], 'span': span, 'exp': True}}
                b['blocks'].append(entry)
                entries.append(base)
                for n in order:
                    blk = b['blocks'][n]
                    nb = {'cleanup': False, 'stmts': [], 'term': None}
                    for st in blk['stmts']:
                        s2 = dict(st)
                        if 'place' in st:
                            s2['place'] = M._rename_place(st['place'], lm)
                        if 'rv' in st:
                            s2['rv'] = M._rename_rv(st['rv'], lm)
                        nb['stmts'].append(s2)
                    tt = dict(blk['term'])
                    if tt['k'] == 'switch':
                        tt['discr'] = M._rename_op(tt['discr'], lm)
                    if tt['k'] == 'call':
                        tt['args'] = [M._rename_op(a, lm) for a in tt['args']]
                        tt['dest'] = M._rename_place(tt['dest'], lm)
                        if 'indirect' in tt['func']:
                            tt['func'] = dict(tt['func'], indirect=M._rename_op(tt['func']['indirect'], lm))
                    if tt['k'] == 'drop':
                        tt['place'] = M._rename_place(tt['place'], lm)
                    if tt['k'] == 'assert':
                        tt['cond'] = M._rename_op(tt['cond'], lm)
                    nb['term'] = ('NEXT', tt, bmap)
                    b['blocks'].append(nb)
            entries.append(EXIT)
            # wire the copies: an edge back to the header goes on to the next iteration
            for k in range(len(elems)):
                base = entries[k]
                for j in range(len(order)):
                    nb = b['blocks'][base + 1 + j]
                    _, tt, bmap = nb['term']
                    nxt = entries[k + 1]
                    nb['term'] = _retarget(tt, lambda x, bmap=bmap, nxt=nxt: nxt if x == H else bmap.get(x, x))
            # enter the first copy instead of the header
            for i, blk in enumerate(b['blocks']):
                if i in L or i in (H, S) or isinstance(blk['term'], tuple):
                    continue
                if H in _succs(blk['term']) and i < entries[0]:
                    blk['term'] = _retarget(blk['term'], lambda x: entries[0] if x == H else x)
            done.append((b['path'], len(elems)))
    return done

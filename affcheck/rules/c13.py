"""C13 — traversals and tree metrics (structural clauses)."""
from ..mir import agg_field, Callee, Resolver, fmt, literals, walk, strip_sites as s
from ..effects import assigns, mut_calls
from . import prune
from . import helpers
from .prune import is_call

LEVEL = 'other'
RULES = {
    'C13.R11': 'the node count, the reachable set and the leaf flags the traversals and metrics read are what the arena mutators maintain, also on their failing paths (shared with C12.R2 / C12.R3)',
    'C13.R10': helpers.RULE_TEXT,
    'C13.R1': 'every TraversalMut::new builds its initial frontier from the `root` parameter',
    'C13.R2': 'frontier discipline vs child order: LIFO frontiers enqueue children in reverse label order, FIFO frontiers in forward order',
    'C13.R3': 'n_remaining is the number of siblings enqueued after the node in visiting order (enumerate index over the reversed sequence, or count-1-index over the forward one)',
    'C13.R4': 'skip bookkeeping: last_push reset before the child loop, incremented per enqueue; skip_subtree removes last_push entries from the enqueue end and resets last_push',
    'C13.R5': 'size bounds: lower bound after a skip is taken after the removals; an edge traversal does not start with the node count; size_hint of wrappers delegates to the traversal',
    'C13.R7': 'index validity = arena membership for every index-taking method of Tree (path_to_node, add_child_node, remove_all_descendants, node accessors)',
    'C13.R8': 'depth bookkeeping: children are enqueued with the depth of the popped entry + 1',
    'C13.R9': 'path_to_node: walk of parent edges from the node to the root recording (source, label), reversed once',
    'C13.R6': 'index-order iterators filter on isleaf with the right polarity; num_terminals / num_nodes count the matching iterator; node_indices / node_iter are the arena in index order, the AffTree accessors delegate to the arena tree',
}
CONTROL_REV = '078b142'  # thorough tier: the rules must still report the defects found (and since fixed) on the original tree
CONTROLS = [('C13.R1', 'DfsEdge::new#seed'), ('C13.R3', 'Bfs::next#n_remaining'), ('C13.R4', 'DfsPre::skip_subtree#reset'), ('C13.R4', 'DfsEdge::skip_subtree#reset'), ('C13.R4', 'Bfs::skip_subtree#reset'), ('C13.R5', 'DfsPre::skip_subtree#size_lb'), ('C13.R5', 'DfsEdge::new#size_lb'), ('C13.R5', '<PolyhedraIter_as_Iterator>::size_hint')]
WRAPPERS = {}  # the delegating accessors are decided by case interpretation (rules/helpers.py) since the exact-rendering table proved brittle
FLOORS = {'C13.R11': 25, 'C13.R10': 31, 'C13.R1': 3, 'C13.R2': 3, 'C13.R3': 2, 'C13.R4': 11, 'C13.R5': 15, 'C13.R6': 10, 'C13.R7': 6, 'C13.R8': 3, 'C13.R9': 1}
EXPLANATION = 'Sibling agreement between the three traversals and pairing/ordering rules on their bookkeeping.'
DOES_NOT_DECIDE = 'exact visiting sequences as a whole (decided through their local rules only), depth()/depth_stats aggregation, numeric tightness of size_hint'
LIFO_POP = {'Vec::pop'}
FIFO_POP = {'VecDeque::pop_front'}


def _end(op):
    """which end of the container an operation works on"""
    return {'Vec::push': 'back', 'Vec::pop': 'back', 'VecDeque::push_back': 'back', 'VecDeque::pop_back': 'back',
            'VecDeque::push_front': 'front', 'VecDeque::pop_front': 'front'}.get(op)


def discipline(pop_op, push_op):
    a, b_ = _end(pop_op), _end(push_op)
    if a is None or b_ is None:
        return None
    return 'lifo' if a == b_ else 'fifo'


def impls(F):
    out = {}
    for b in F.bodies:
        if b.impl_trait_base == 'TraversalMut' and b.kind != 'Closure':
            out.setdefault(b.self_base, {})[b.name] = b
    return out


def has_call(e, *names):
    return any(is_call(x, *names) for x in walk(e))


def run(ctx):
    helpers.run_for(ctx)
    prune.check_loop_exhaustive(ctx, 'C13.R6', 'Tree::depth_stats', '#all-nodes', 'nodes after that point do not enter the statistics')
    helpers.share_arena_contracts(ctx, 'C13.R11', failing_paths=True)
    prune.check_wrappers(ctx, 'C13.R6', WRAPPERS)
    F = ctx.facts
    imp = impls(F)
    if len(imp) < 3:
        ctx.lost('C13.R1', 'three impls of TraversalMut (found %s)' % sorted(imp))
    for ty, m in sorted(imp.items()):
        if not all(k in m for k in ('new', 'next', 'skip_subtree', 'size_hint')):
            ctx.lost('C13.R1', 'methods of TraversalMut for ' + ty)
            continue
        r1(ctx, ty, m['new'])
        disc = r2(ctx, ty, m)
        seed_order(ctx, ty, m['new'], disc)
        helpers.check_traversal_new(ctx, 'C13.R5', ty, site='%s::new#bounds' % ty)
        next_bounds(ctx, ty, m['next'])
        r4(ctx, ty, m, disc)
        r5_skip(ctx, ty, m)
    r5_wrappers(ctx)
    r6(ctx)
    r7(ctx)
    r9(ctx)


def next_bounds(ctx, ty, b):
    """Every returned item takes one off both size bounds, and never below zero: a traversal started below the root has lower bound 0
    from the start, so the decrement has to saturate (or be guarded) -- a wrapped bound no longer brackets anything."""
    R = Resolver(b)
    SELF = ('param', 'self')
    for fld in ('size_lb', 'size_ub'):
        site = '%s::next#%s' % (ty, fld)
        ws = [w for w in assigns(b, R) if w.target == ('field', SELF, fld)]
        if not ws:
            ctx.bad('C13.R5', site, 'next() does not update %s for the item it returns' % fld, b.span)
            continue
        problems = []
        for w in ws:
            v = s(w.value)
            cur = ('field', SELF, fld)
            if is_call(v, 'usize::saturating_sub') and len(v[2]) == 2 and s(v[2][0]) == cur and v[2][1] == ('const', 1):
                continue
            # `if x > 0 { x - 1 }` / `x - min(x, 1)`
            guarded = False
            if v[0] in ('bin', 'field'):
                e = v[1] if v[0] == 'field' else v
                if e[0] == 'bin' and e[1] in ('Sub', 'SubWithOverflow') and s(e[2]) == cur and e[3] == ('const', 1):
                    for op, x, y in prune.cmp_facts(literals(b, R, w.bb)):
                        x, y = s(x), s(y)
                        if (op == 'Gt' and x == cur and y == ('const', 0)) or (op == 'Ge' and x == cur and y == ('const', 1)) or (op == 'Ne' and x == cur and y == ('const', 0)):
                            guarded = True
            if not guarded:
                problems.append('%s := %s' % (fld, fmt(v)[:80]))
        if problems:
            ctx.bad('C13.R5', site, 'the bound is not decreased by one with saturation at zero: %s' % '; '.join(problems), b.where(ws[0].bb))
        else:
            ctx.ok('C13.R5', site, '%s := %s - 1, saturating at 0, for every returned item' % (fld, fld), b.where(ws[0].bb))


def seed_order(ctx, ty, b, disc):
    """A traversal whose start frontier holds the children of the start node (the edge traversal) must enqueue them in the same orientation
    as next() enqueues the children of a popped node: reversed for a LIFO frontier, forward for a FIFO one -- otherwise the first level is
    visited by descending label."""
    if disc is None:
        return
    R = Resolver(b)
    site = '%s::new#order' % ty
    found = False
    for bb, t in b.calls():
        c = Callee(t['func'])
        if c.name not in ('push', 'push_back', 'push_front', 'extend'):
            continue
        v = R.call_args(bb)[1]
        kids = [x for x in walk(v) if is_call(x, 'Tree::children', 'TreeNode::children_iter') or (isinstance(x, tuple) and x[:1] == ('field',) and x[2] == 'children')]
        if not kids:
            continue
        found = True
        reversed_ = has_call(v, 'Iterator::rev')
        front = c.name == 'push_front'
        if ((disc == 'lifo') == reversed_) != front:
            ctx.ok('C13.R2', site, 'start frontier: children of the start node enqueued in %s label order for a %s frontier' % ('reverse' if reversed_ else 'forward', disc.upper()), b.where(bb))
        else:
            ctx.bad('C13.R2', site, 'start frontier: children of the start node enqueued in %s label order for a %s frontier: the first level would be visited by descending label' %
                    ('reverse' if reversed_ else 'forward', disc.upper()), b.where(bb))
    return found


def _after_bb(cfg, a, b_):
    """block b_ lies after block a on every path that contains both (a dominates b_ or they are the same block, straight-line order aside)"""
    return a == b_ or cfg.dominates(a, b_)


def r1(ctx, ty, b):
    R = Resolver(b)
    site = '%s::new#seed' % ty
    bad = []
    n = 0
    for bb, t in b.calls():
        c = Callee(t['func'])
        if c.self_base == 'Tree' and c.name in ('children', 'tree_node', 'child', 'node_value', 'parent'):
            n += 1
            a = R.call_args(bb)
            if a[1] != ('param', 'root'):
                bad.append('reads %s(tree, %s)' % (c.name, fmt(a[1])))
    rets = [e for _, e in R.return_expr()]
    # initial frontier entries
    entries = []
    for e in rets:
        for x in walk(e):
            if isinstance(x, tuple) and x[:1] == ('agg',) and isinstance(x[1], tuple) and x[1][1] == 'DfsNodeData':
                entries.append(('node', agg_field(x, 'index')))
    for w in assigns(b, R):
        for x in walk(w.value):
            if isinstance(x, tuple) and x[:1] == ('agg',) and isinstance(x[1], tuple) and x[1][1] == 'DfsNodeData':
                entries.append(('node', agg_field(x, 'index')))
    for bb, t in b.calls():
        c = Callee(t['func'])
        if c.name in ('push', 'push_back'):
            v = R.call_args(bb)[1]
            for x in walk(v):
                # the start item pushed onto an empty frontier instead of written as `vec![..]`
                if isinstance(x, tuple) and x[:1] == ('agg',) and isinstance(x[1], tuple) and x[1][1] == 'DfsNodeData':
                    entries.append(('node', agg_field(x, 'index')))
            if v[0] == 'agg' and v[1] == 'tuple' and len(v[2]) == 4:
                entries.append(('edge-src', v[2][1]))
                lab, tgt = v[2][2], v[2][3]
                if not (lab[0] == 'field' and lab[2] == 'label' and tgt[0] == 'field' and tgt[2] == 'target_idx' and s(lab[1]) == s(tgt[1])):
                    bad.append('initial edge entry does not carry label and target of one edge')
    for kind, e in entries:
        if e != ('param', 'root'):
            bad.append('initial %s is %s, not the root parameter' % (kind, fmt(e)))
    if not entries:
        bad.append('no initial frontier entry found')
    if bad:
        for x in bad:
            ctx.bad('C13.R1', site, x, b.span)
    else:
        ctx.ok('C13.R1', site, 'initial frontier built from `root` (%d entries, %d tree reads)' % (len(entries), n), b.span)


def r2(ctx, ty, m):
    """returns 'lifo' | 'fifo' | None"""
    b = m['next']
    R = Resolver(b)
    pops = [(bb, Callee(t['func']).short) for bb, t in b.calls() if Callee(t['func']).name.startswith('pop')]
    pushes = [(bb, Callee(t['func']).short, R.call_args(bb)) for bb, t in b.calls() if Callee(t['func']).name in ('push', 'push_back', 'push_front')]
    site = '%s::next#order' % ty
    if len(pops) != 1 or len(pushes) != 1:
        ctx.undecided('C13.R2', site, 'expected one pop and one push in next()', b.span)
        return None
    disc = discipline(pops[0][1], pushes[0][1])
    if disc is None:
        ctx.undecided('C13.R2', site, 'unknown frontier discipline %s/%s' % (pops[0][1], pushes[0][1]), b.span)
        return None
    val = pushes[0][2][1]
    # the order of the *children* matters: a `rev()` elsewhere in the pushed value (a countdown zipped to the children) does not reverse them
    child_e = agg_field(val, 'index') if (val[0] == 'agg' and isinstance(val[1], tuple) and val[1][1] == 'DfsNodeData') else None
    reversed_ = has_call(child_e if child_e is not None else val, 'Iterator::rev')
    if child_e is not None:
        # rev() applied to the other partner of a zip is not a reversal of the children either
        for x in walk(child_e):
            if is_call(x, 'Iterator::zip', 'zip') and len(x[2]) == 2:
                def is_range(y):
                    y = y[2][0] if is_call(y, 'Iterator::rev') and y[2] else y
                    return y[0] == 'agg' and isinstance(y[1], tuple) and y[1][:2] == ('adt', 'Range')
                kids = [y for y in x[2] if not is_range(y) and (any(isinstance(z, tuple) and z[:1] == ('field',) and z[2] == 'children' for z in walk(y)) or has_call(y, 'TreeNode::children_iter'))]
                if len(kids) == 1:
                    reversed_ = has_call(kids[0], 'Iterator::rev')
    # the children sequence must be the children array of the popped node
    def popped_node(n):
        return is_call(n, 'Tree::tree_node') and any(is_call(y, pops[0][1]) for y in walk(n[2][1]))
    # the children of the popped node: its `children` array, or TreeNode::children_iter (verified below to yield (slot index, child) of the present children in slot order)
    src_ok = any(isinstance(x, tuple) and ((x[:1] == ('field',) and x[2] == 'children' and popped_node(x[1])) or
                                          (is_call(x, 'TreeNode::children_iter') and popped_node(x[2][0]))) for x in walk(val))
    if any(is_call(x, 'TreeNode::children_iter') for x in walk(val)) and not _children_iter_ok(ctx):
        src_ok = False
    if not src_ok:
        ctx.bad('C13.R2', site, 'enqueued entries are not the children of the node just popped', b.where(pushes[0][0]))
    elif (disc == 'lifo') == reversed_:
        ctx.ok('C13.R2', site, '%s frontier, children enqueued in %s label order: visited by ascending label' % (disc.upper(), 'reverse' if reversed_ else 'forward'), b.where(pushes[0][0]))
    else:
        ctx.bad('C13.R2', site, '%s frontier but children enqueued in %s label order: children would be visited by descending label' % (disc.upper(), 'reverse' if reversed_ else 'forward'), b.where(pushes[0][0]))
    # R8: depth of an enqueued child = depth of the popped entry + 1
    def plus_one(e, base):
        x = e[1] if (e[0] == 'field' and e[2] == '0' and e[1][0] == 'bin') else e
        return x[0] == 'bin' and x[1].startswith('Add') and s(x[2]) == s(base) and x[3] == ('const', 1)
    popped = ('call', pops[0][1], (pushes[0][2][0],), pops[0][0])
    if val[0] == 'agg' and isinstance(val[1], tuple) and val[1][1] == 'DfsNodeData':
        dexpr, dbase = agg_field(val, 'depth'), ('field', popped, 'depth')
    elif val[0] == 'agg' and val[1] == 'tuple' and len(val[2]) == 4:
        dexpr, dbase = val[2][0], ('field', popped, '0')
    else:
        dexpr = dbase = None
    if dexpr is not None:
        (ctx.ok if plus_one(dexpr, dbase) else ctx.bad)('C13.R8', '%s::next#depth' % ty, 'children are enqueued with depth(parent) + 1' if plus_one(dexpr, dbase) else
                                                       'child depth is not the popped entry\'s depth + 1: %s' % fmt(dexpr)[:80], b.where(pushes[0][0]))
    # R3: sibling counter for node traversals
    if val[0] == 'agg' and isinstance(val[1], tuple) and val[1][1] == 'DfsNodeData':
        idx, nrem = agg_field(val, 'index'), agg_field(val, 'n_remaining')
        site3 = '%s::next#n_remaining' % ty
        def enum_item(e, comp):
            return e[0] == 'field' and e[2] == comp and is_call(e[1], 'Iterator::next') and is_call(e[1][2][0], 'Iterator::enumerate') \
                and is_call(e[1][2][0][2][0], 'Iterator::flatten')
        ok = False
        why = ''
        if enum_item(idx, '1'):
            seq = idx[1][2][0][2][0]   # flatten(...)
            if enum_item(nrem, '0') and s(nrem[1]) == s(idx[1]):
                ok = reversed_
                why = 'enumerate index over the reversed child sequence' if ok else 'enumerate index over the FORWARD child sequence counts the siblings already visited, not the remaining ones'
            else:
                x = nrem
                if x[0] == 'field' and x[2] == '0':
                    x = x[1]
                if x[0] == 'bin' and x[1].startswith('Sub'):
                    inner, pos = x[2], x[3]
                    if inner[0] == 'field' and inner[2] == '0':
                        inner = inner[1]
                    cnt_ok = inner[0] == 'bin' and inner[1].startswith('Sub') and inner[3] == ('const', 1) and is_call(inner[2], 'Iterator::count') \
                        and s(inner[2][2][0]) == s(seq)
                    pos_ok = enum_item(pos, '0') and s(pos[1]) == s(idx[1])
                    ok = cnt_ok and pos_ok and not reversed_
                    why = 'count-1-index over the forward child sequence' if ok else 'n_remaining is not count(children)-1-position'
        if not ok:
            # countdown zipped to the forward child sequence: zip(children, (0..count(children)).rev()) gives count-1-position
            zi = idx[1] if idx[0] == 'field' else None
            if zi is not None and is_call(zi, 'Iterator::next') and is_call(zi[2][0], 'Iterator::zip', 'zip') and nrem[0] == 'field' and s(nrem[1]) == s(zi) and nrem[2] != idx[2]:
                parts = zi[2][0][2]
                cd = parts[int(nrem[2])]
                kidsq = parts[int(idx[2])]
                rng_ = cd[2][0] if is_call(cd, 'Iterator::rev') else None
                if rng_ is not None and rng_[0] == 'agg' and rng_[1][:2] == ('adt', 'Range') and rng_[2][0] == ('const', 0) and not has_call(kidsq, 'Iterator::rev'):
                    hi = rng_[2][1]
                    cnt_ok = (is_call(hi, 'Iterator::count') and s(hi[2][0]) == s(kidsq)) or is_call(hi, 'Tree::num_children', 'TreeNode::num_children')
                    ok = cnt_ok and not reversed_
                    why = 'countdown from count(children)-1 zipped to the forward child sequence' if ok else 'the countdown zipped to the children does not start at count(children)-1'
        if ok:
            ctx.ok('C13.R3', site3, why, b.where(pushes[0][0]))
        else:
            ctx.bad('C13.R3', site3, why or 'n_remaining is not derived from the position in the enqueued child sequence (%s)' % fmt(nrem)[:120], b.where(pushes[0][0]))
    elif val[0] == 'agg' and val[1] == 'tuple' and len(val[2]) == 4:
        # edge traversal: (depth+1, popped dest, label, child): label is the slot index (enumerate BEFORE skipping empty slots)
        src, lab, tgt = val[2][1], val[2][2], val[2][3]
        site3 = '%s::next#edge-entry' % ty
        pop_dest = src[0] == 'field' and src[2] == '3' and is_call(src[1], pops[0][1])
        lab_ok = lab[0] == 'field' and lab[2] == '0' and is_call(lab[1], 'Iterator::next') and not has_call(lab, 'Iterator::flatten')
        tgt_ok = any(s(x) == s(('field', lab[1], '1')) for x in walk(tgt)) if lab_ok else False
        if lab_ok and has_call(lab, 'TreeNode::children_iter'):
            lab_ok = _children_iter_ok(ctx)
        if pop_dest and lab_ok and tgt_ok:
            ctx.ok('C13.R3', site3, 'edge entries carry (dest of popped edge, slot index as label, slot content)', b.where(pushes[0][0]))
        else:
            ctx.bad('C13.R3', site3, 'edge entries do not pair the slot index with the slot content of the popped edge\'s destination', b.where(pushes[0][0]))
    return disc


def _children_iter_ok(ctx):
    """TreeNode::children_iter yields (slot index, child index) for the occupied slots, in slot order: filter_map(enumerate(self.children), |(l, c)| c.map(|i| (l, i)))"""
    F = ctx.facts
    b = F.q('TreeNode::children_iter')
    if b is None:
        return False
    rets = [e for _, e in Resolver(b).return_expr()]
    if len(rets) != 1:
        return False
    e = rets[0]
    if not (is_call(e, 'Iterator::filter_map') and is_call(e[2][0], 'Iterator::enumerate') and e[2][0][2][0] == ('field', ('param', 'self'), 'children') and e[2][1][0] == 'closure'):
        return False
    cb = F.closure(e[2][1][1])
    cr = [x for _, x in Resolver(cb).return_expr()] if cb is not None else []
    if len(cr) != 1 or not (is_call(cr[0], 'Option::map') and cr[0][2][1][0] == 'closure'):
        return False
    item = ('param', cb.arg_names()[-1])
    if cr[0][2][0] != ('field', item, '1') or list(cr[0][2][1][2]) != [('field', item, '0')]:
        return False
    ib = F.closure(cr[0][2][1][1])
    ir = [x for _, x in Resolver(ib).return_expr()] if ib is not None else []
    return len(ir) == 1 and ir[0][0] == 'agg' and ir[0][1] == 'tuple' and len(ir[0][2]) == 2 and ir[0][2][0][0] == 'upvar' and ir[0][2][1] == ('param', ib.arg_names()[-1])


def r4(ctx, ty, m, disc):
    # next(): reset before loop, increment per push
    b = m['next']
    R = Resolver(b)
    cfg = b.cfg()
    ws = [w for w in assigns(b, R) if w.target == ('field', ('param', 'self'), 'last_push')]
    pushes = [bb for bb, t in b.calls() if Callee(t['func']).name in ('push', 'push_back')]
    site = '%s::next#last_push' % ty
    resets = [w for w in ws if w.value == ('const', 0)]
    incs = [w for w in ws if w.value != ('const', 0)]
    ok = bool(resets) and bool(incs) and bool(pushes)
    how = 'last_push := 0 before the child loop; each enqueue is followed by last_push += 1'
    diffs = [w for w in ws if _unchecked(w.value)[0] == 'bin' and _unchecked(w.value)[1] == 'Sub' and is_call(_unchecked(w.value)[2], 'Vec::len', 'VecDeque::len')]
    if len(diffs) == 1 and pushes and all(w is diffs[0] or (w.value == ('const', 0) and cfg.dominates(w.bb, diffs[0].bb)) for w in ws):
        # second idiom: last_push := len(frontier) after the enqueues - len(frontier) taken after the pop and before the enqueues
        # (an earlier `last_push = 0` that this write always overwrites is a dead store)
        ok = _len_difference(b, R, cfg, diffs[0], pushes)
        how = 'last_push := frontier length after the enqueues - frontier length between the pop and the enqueues'
    elif len(ws) == 1 and len(pushes) == 1 and is_call(ws[0].value, 'Iterator::count', 'Tree::num_children', 'TreeNode::num_children'):
        # third idiom: last_push := number of children of the popped node, where every child is enqueued: the enqueue sits in a loop over
        # exactly the counted sequence and under no other condition; the write happens on every path that returns an item
        w = ws[0]
        pv = R.call_args(pushes[0])[1]
        counted = w.value[2][0] if is_call(w.value, 'Iterator::count') else None
        items = [x for x in walk(pv) if is_call(x, 'Iterator::next')]
        src_same = False
        for it in items:
            src = it[2][0]
            if is_call(src, 'Iterator::zip', 'zip'):
                src_same = src_same or any(counted is not None and s(part) == s(counted) for part in src[2])
            elif is_call(src, 'Iterator::enumerate') and counted is not None:
                src_same = src_same or s(src[2][0]) == s(counted)
            elif counted is not None:
                src_same = src_same or s(src) == s(counted)
        lits_p = [l for l in literals(b, R, pushes[0]) if not (l[0] == 'is' and is_call(l[1], 'Iterator::next', 'VecDeque::pop_front', 'Vec::pop', 'Tree::tree_node', 'Try::branch'))
                  and not (l[0] in ('true', 'false') and l[1][0] == 'bin' and l[1][1] in ('Lt', 'Ge'))
                  and not (l[0] == 'false' and l[1][0] == 'field' and l[1][2] == '1' and l[1][1][0] == 'bin' and l[1][1][1].endswith('WithOverflow'))]
        ok = src_same and not lits_p and not any(cfg.reaches(p_, -1, avoid=[w.bb]) and False for p_ in pushes)
        how = 'last_push := number of children of the popped node, each of which is enqueued'
    elif ok:
        inc_ok = all((w.value[0] == 'field' and w.value[1][0] == 'bin' and w.value[1][1].startswith('Add') and w.value[1][2] == ('field', ('param', 'self'), 'last_push') and w.value[1][3] == ('const', 1)) or
                     (w.value[0] == 'bin' and w.value[1].startswith('Add') and w.value[3] == ('const', 1)) for w in incs)
        reset_dom = all(cfg.dominates(resets[0].bb, p) for p in pushes)
        hdrs = [h for h in cfg.loop_headers() if pushes[0] in cfg.loop_of(h)]
        # one increment per enqueue, in either order within an iteration: no iteration path passes an enqueue without an increment, nor an
        # increment without an enqueue
        ib = [w.bb for w in incs]
        paired = bool(hdrs) and \
            all(not (cfg.reaches(hdrs[0], p, avoid=ib) and cfg.reaches(p, hdrs[0], avoid=ib)) for p in pushes) and \
            all(not (cfg.reaches(hdrs[0], w.bb, avoid=pushes) and cfg.reaches(w.bb, hdrs[0], avoid=pushes)) for w in incs)
        reset_outside = bool(hdrs) and resets[0].bb not in cfg.loop_of(hdrs[0])
        # every call that returns an item passes the reset (an early return before it would leave a stale count for skip_subtree)
        from ..mir import EXIT
        pop_bb = [bb for bb, t in b.calls() if Callee(t['func']).name.startswith('pop')]
        some_ret = True
        if pop_bb:
            sw = pop_bb[0]
            for _ in range(6):
                tt = b.blocks[sw]['term']
                if tt['k'] == 'switch':
                    break
                sw = tt.get('target', sw) if tt.get('target') is not None else sw
            for e in cfg.edge_nodes(sw):
                lab = cfg.edge_label[e]
                # the Continue/Some outcome of the pop
                if lab == ('sw', (0,)) or lab == ('sw', (1,)):
                    from ..mir import edge_literal
                    lit = edge_literal(b, R, sw, lab)
                    if lit and lit[0] == 'is' and set(lit[2]) & {'Continue', 'Some'}:
                        if cfg.reaches(e, EXIT, avoid=[resets[0].bb]):
                            some_ret = False
        ok = inc_ok and reset_dom and paired and reset_outside and some_ret
    if ok:
        ctx.ok('C13.R4', site, how, b.span)
    else:
        ctx.bad('C13.R4', site, 'last_push does not count exactly the entries enqueued by this call of next()', b.span)
    # skip_subtree
    b = m['skip_subtree']
    R = Resolver(b)
    cfg = b.cfg()
    site = '%s::skip_subtree#pops' % ty
    pops = [(bb, Callee(t['func']).short, R.call_args(bb)) for bb, t in b.calls() if Callee(t['func']).name.startswith('pop')]
    # the enqueue end is the end next() pushes to
    nb = m['next']
    push_ops = [Callee(t['func']).short for bb, t in nb.calls() if Callee(t['func']).name in ('push', 'push_back', 'push_front')]
    enq_end = _end(push_ops[0]) if push_ops else None
    want_set = {op for op in ('Vec::pop', 'VecDeque::pop_back', 'VecDeque::pop_front') if _end(op) == enq_end}
    want = '/'.join(sorted(want_set))
    rem = _removal(b, R, cfg, want_set, enq_end)
    if rem is not None:
        ctx.ok('C13.R4', site, 'removes exactly last_push entries from the enqueue end (%s)' % (want if rem[0] == 'pop-loop' else 'truncate to len - last_push'), b.span)
    else:
        ctx.bad('C13.R4', site, 'skip_subtree must remove exactly last_push entries from the end where next() enqueues (%s)' % want, b.span)
    ws = [w for w in assigns(b, R) if w.target == ('field', ('param', 'self'), 'last_push')]
    site = '%s::skip_subtree#reset' % ty
    if rem is not None and any(w.value == ('const', 0) and _after(cfg, rem, w.bb) and cfg.postdominates(w.bb, rem[1]) for w in ws):
        ctx.ok('C13.R4', site, 'last_push := 0 after the removals: a repeated skip is a no-op', b.span)
    else:
        ctx.bad('C13.R4', site, 'last_push is not reset after skipping: a second skip_subtree drops unrelated frontier entries', b.span)


def _after(cfg, rem, bb):
    """bb executes after the removal is complete"""
    kind, point, loop = rem
    if kind == 'pop-loop':
        return bb not in loop and cfg.dominates(point, bb)
    return bb != point and cfg.dominates(point, bb)


def _removal(b, R, cfg, want_set, enq_end):
    """How skip_subtree removes the last_push newest entries: ('pop-loop', loop header, loop blocks) for `for _ in 0..last_push { pop }`,
    ('truncate', call block, ()) for `truncate(len - last_push)` (only when entries are enqueued at the back); None if neither form is recognised."""
    LP = ('field', ('param', 'self'), 'last_push')
    pops = [(bb, Callee(t['func']).short, R.call_args(bb)) for bb, t in b.calls() if Callee(t['func']).name.startswith('pop')]
    truncs = [(bb, R.call_args(bb)) for bb, t in b.calls() if Callee(t['func']).name == 'truncate']
    hdrs = cfg.loop_headers()
    if len(pops) == 1 and not truncs:
        rng = [R.call_args(bb)[0] for bb, t in b.calls_to('Iterator::next')]
        rng_ok = any(x[0] == 'agg' and isinstance(x[1], tuple) and x[1][1] == 'Range' and x[2][0] == ('const', 0) and x[2][1] == LP for x in rng)
        if pops[0][1] in want_set and hdrs and pops[0][0] in cfg.loop_of(hdrs[0]) and rng_ok \
                and not cfg.reaches(_some_edge(b, cfg, R), hdrs[0], avoid=[pops[0][0]]):
            return ('pop-loop', hdrs[0], cfg.loop_of(hdrs[0]))
        return None
    if len(truncs) == 1 and not pops and not hdrs and enq_end == 'back':
        bb, a = truncs[0]
        n = _unchecked(a[1])
        cont = a[0]
        ln = None
        if is_call(n, 'usize::saturating_sub', 'usize::wrapping_sub') and len(n[2]) == 2 and n[2][1] == LP:
            ln = n[2][0]
        elif n[0] == 'bin' and n[1] == 'Sub' and n[3] == LP:
            ln = n[2]
        if ln is not None and is_call(ln, 'Vec::len', 'VecDeque::len') and s(ln[2][0]) == s(cont) and cfg.dominates(ln[3], bb) and cfg.postdominates(bb, 0):
            # last_push must not be rewritten between its read and the truncation (it is read in the same straight-line code)
            return ('truncate', bb, ())
    return None


def _unchecked(e):
    if e[0] == 'field' and e[2] == '0' and e[1][0] == 'bin' and e[1][1].endswith('WithOverflow'):
        return ('bin', e[1][1][:-len('WithOverflow')], e[1][2], e[1][3])
    return e


def _len_difference(b, R, cfg, w, pushes):
    from ..mir import EXIT, edge_literal
    v = _unchecked(w.value)
    if not (v[0] == 'bin' and v[1] == 'Sub' and is_call(v[2], 'Vec::len', 'VecDeque::len') and is_call(v[3], 'Vec::len', 'VecDeque::len')):
        return False
    after, before = v[2], v[3]
    cont = R.call_args(pushes[0])[0]
    if not (s(after[2][0]) == s(cont) and s(before[2][0]) == s(cont)):
        return False
    a_bb, b_bb = after[3], before[3]
    pop_bb = [bb for bb, t in b.calls() if Callee(t['func']).name.startswith('pop')]
    hdrs = [h for h in cfg.loop_headers() if isinstance(h, int) and pushes[0] in cfg.loop_of(h)]
    if len(pop_bb) != 1 or not hdrs:
        return False
    h = hdrs[0]
    loop = cfg.loop_of(h)
    # "before" is taken after the pop and before every enqueue, "after" after the enqueue loop; no other frontier operation in between
    if not (cfg.dominates(pop_bb[0], b_bb) and b_bb not in loop and all(cfg.dominates(b_bb, p) for p in pushes) and cfg.dominates(b_bb, h)):
        return False
    if not (a_bb not in loop and cfg.dominates(h, a_bb) and cfg.postdominates(a_bb, h)):
        return False
    other = [bb for bb, t in b.calls() if Callee(t['func']).name in ('push', 'push_back', 'push_front', 'pop', 'pop_back', 'pop_front', 'truncate', 'clear', 'extend', 'insert', 'remove', 'drain')
             and bb not in pushes and bb not in pop_bb and s(R.call_args(bb)[0]) == s(cont)]
    if other:
        return False
    # every path that returns an item passes the write
    sw = pop_bb[0]
    for _ in range(6):
        tt = b.blocks[sw]['term']
        if tt['k'] == 'switch':
            break
        sw = tt.get('target', sw) if tt.get('target') is not None else sw
    for e in cfg.edge_nodes(sw):
        lab = cfg.edge_label[e]
        if lab == ('sw', (0,)) or lab == ('sw', (1,)):
            lit = edge_literal(b, R, sw, lab)
            if lit and lit[0] == 'is' and set(lit[2]) & {'Continue', 'Some'}:
                if cfg.reaches(e, EXIT, avoid=[w.bb]):
                    return False
    return True


def _some_edge(b, cfg, R):
    for sb, bl in b.live_blocks():
        if bl['term']['k'] == 'switch':
            d = R.switch_discr(sb)
            if d and d[0] == 'discr' and is_call(d[1], 'Iterator::next'):
                for e in cfg.edge_nodes(sb):
                    if cfg.edge_label[e] == ('sw', (1,)):
                        return e
    return 0


def r5_skip(ctx, ty, m):
    b = m['skip_subtree']
    R = Resolver(b)
    cfg = b.cfg()
    nb = m['next']
    push_ops = [Callee(t['func']).short for bb, t in nb.calls() if Callee(t['func']).name in ('push', 'push_back', 'push_front')]
    enq_end = _end(push_ops[0]) if push_ops else None
    want_set = {op for op in ('Vec::pop', 'VecDeque::pop_back', 'VecDeque::pop_front') if _end(op) == enq_end}
    rem = _removal(b, R, cfg, want_set, enq_end)
    ws = [w for w in assigns(b, R) if w.target == ('field', ('param', 'self'), 'size_lb')]
    site = '%s::skip_subtree#size_lb' % ty
    if not ws:
        ctx.ok('C13.R5', site, 'lower bound untouched by skip (stays valid only if it is 0) — checked: no write', b.span) if False else ctx.bad('C13.R5', site, 'skip_subtree does not lower the lower size bound although it removes items', b.span)
    for w in ws:
        frontier_len = is_call(w.value, 'Vec::len', 'VecDeque::len') or w.value == ('const', 0)
        # the length itself (not only the store) must be taken after the removal
        after = rem is not None and _after(cfg, rem, w.bb) and (w.value == ('const', 0) or (frontier_len and _after(cfg, rem, w.value[3])))
        if rem is not None and rem[0] == 'truncate' and not frontier_len:
            # `truncate(n)` with n <= len leaves exactly n entries: the new length is the truncation target itself
            targ = R.call_args(rem[1])[1]
            if s(w.value) == s(targ) and _after(cfg, rem, w.bb):
                frontier_len = after = True
        if frontier_len and after:
            ctx.ok('C13.R5', site, 'size_lb := frontier length, computed after the skipped entries were removed', w.span)
        else:
            ctx.bad('C13.R5', site, 'the lower size bound is computed from the frontier before the skipped entries are removed (it can exceed the number of items left)', w.span)
    # initial bounds
    b = m['new']
    R = Resolver(b)
    rets = [e for _, e in R.return_expr()]
    site = '%s::new#size_lb' % ty
    edge = 'Edge' in ty
    # initial last_push: a node traversal starts with the start node itself on the frontier, which no call of next() enqueued: 0, so that
    # a skip before the first item is a no-op; an edge traversal starts with the edges below the start node, all of them enqueued by new()
    for e in rets:
        if e[0] == 'agg' and isinstance(e[1], tuple) and 'last_push' in e[1][3]:
            lp = e[2][e[1][3].index('last_push')]
            if edge:
                frontier = e[2][e[1][3].index('stack')] if 'stack' in e[1][3] else None
                ok_lp = lp[0] == 'var' or (is_call(lp, 'Vec::len') and frontier is not None and s(lp[2][0]) == s(frontier)) or lp == ('const', 0)
                if ok_lp and lp[0] == 'var':
                    # a counter kept next to the pushes: it goes up by exactly one per enqueued edge
                    for i_, j_, st_ in b.stmts():
                        rv_ = st_.get('rv') or {}
                        if st_['k'] == 'assign' and rv_.get('k') == 'binop' and rv_['op'].startswith('Add') and rv_['r'].get('k') == 'const' and \
                                isinstance(rv_['r'].get('val'), int) and rv_['r'].get('val') != 1 and 'usize' in (b.local_ty(st_['place']['local']) or ''):
                            ok_lp = False
            else:
                ok_lp = lp == ('const', 0)
            # the object may be completed after its construction (the start item pushed through a helper that also counts it): the value
            # that counts is the last one written on the way to the return
            later = []   # (block, statement index, value) of every write to a `.last_push` field in new()
            for i_, j_, st_ in b.stmts():
                if st_['k'] == 'assign' and st_['place']['proj'] and st_['place']['proj'][-1].get('k') == 'field' and st_['place']['proj'][-1].get('name') == 'last_push':
                    later.append((i_, j_, R.rvalue(st_['rv'], i_, j_)))
            if later:
                cfg_ = b.cfg()
                final = [w for w in later if all(w is x or (x[0] == w[0] and x[1] < w[1]) or (x[0] != w[0] and cfg_.dominates(x[0], w[0])) for x in later)]
                if len(final) == 1 and not edge:
                    lp = final[0][2]
                    ok_lp = s(lp) == ('const', 0) and cfg_.postdominates(final[0][0], 0)
                else:
                    ok_lp = False
                    lp = later[-1][2]
            (ctx.ok if ok_lp else ctx.bad)('C13.R4', '%s::new#last_push' % ty, 'initial last_push: %s' % ('the edges enqueued by new()' if edge else '0 (the start node was not enqueued by next())') if ok_lp else
                                            'a fresh traversal starts with last_push = %s: skip_subtree before the first item would drop the start node' % fmt(lp)[:60], b.span)
    for e in rets:
        if e[0] == 'agg' and isinstance(e[1], tuple):
            fields = e[1][3]
            if 'size_lb' in fields:
                lb = e[2][fields.index('size_lb')]
                alts = lb[2] if lb[0] == 'phi' else (lb,)
                bare = any(is_call(a, 'Tree::len') for a in alts)
                if edge and bare:
                    ctx.bad('C13.R5', site, 'an edge traversal starts with the node count as lower bound (a tree with n nodes has n-1 edges)', b.span)
                else:
                    ctx.ok('C13.R5', site, 'initial lower bound: %s' % fmt(lb), b.span)


def r5_wrappers(ctx):
    F = ctx.facts
    n = 0
    for b in F.bodies:
        if b.name == 'size_hint' and b.impl_trait_base == 'Iterator' and b.kind != 'Closure':
            n += 1
            site = '%s' % b.qname
            if b.qname in helpers.TABLES:
                # decided by case interpretation: the hint is the pair of bounds the wrapped traversal keeps, however the wrapper spells it
                helpers.check_table(ctx, 'C13.R5', b.qname, site=site)
                continue
            R = Resolver(b)
            rets = [e for _, e in R.return_expr()]
            if len(rets) == 1 and rets[0][0] == 'call' and rets[0][1].endswith('::size_hint') and any(x == ('param', 'self') for x in walk(rets[0])) \
                    and not has_call(rets[0], 'Tree::len'):
                ctx.ok('C13.R5', site, 'delegates to the progress-aware traversal: %s' % fmt(rets[0]), b.span)
            else:
                ctx.bad('C13.R5', site, 'size_hint of a stateful iterator does not read the iterator\'s progress: %s' % [fmt(r) for r in rets], b.span)
    if n < 2:
        ctx.lost('C13.R5', 'Iterator::size_hint wrappers (TraversalIter, PolyhedraIter)')


def r9(ctx):
    """path_to_node walks parent edges from the node to the root, records (source, label) of each edge and reverses the list."""
    b = ctx.body('C13.R9', 'Tree::path_to_node')
    if b is None:
        return
    R = Resolver(b)
    cfg = b.cfg()
    problems = []
    cur = [v for v in R.cyclic]
    pushes = [w for w in mut_calls(b, R) if w.callee.name == 'push']
    revs = [w for w in mut_calls(b, R) if w.callee.name == 'reverse']
    if len(cur) != 1 or len(pushes) != 1:
        ctx.undecided('C13.R9', 'Tree::path_to_node#walk', 'unexpected shape (loop variables %d, pushes %d)' % (len(cur), len(pushes)), b.span)
        return
    var = ('var', cur[0], b.local_name(cur[0]))
    defs = R.var_defs(cur[0])
    init = [d for d in defs if d[2] == ('param', 'node_idx')]
    step = [d for d in defs if d[2] != ('param', 'node_idx')]
    edge = ('call', 'Tree::parent', (('param', 'self'), var))
    def is_edge_field(e, f):
        # `.edge()` only copies source_idx / label / target_idx out of the edge reference (checked as a wrapper below)
        if e[0] == 'field' and e[2] == f and is_call(e[1], 'EdgeReference::edge') and len(e[1][2]) == 1:
            e = ('field', e[1][2][0], f)
        return e[0] == 'field' and e[2] == f and is_call(e[1], 'Tree::parent') and s(e[1]) == s(edge)
    if not (len(init) == 1 and len(step) == 1 and is_edge_field(step[0][2], 'source_idx')):
        problems.append('the walk does not start at node_idx and move to the source of the parent edge')
    v = pushes[0].args[1]
    if not (v[0] == 'agg' and v[1] == 'tuple' and len(v[2]) == 2 and is_edge_field(v[2][0], 'source_idx') and is_edge_field(v[2][1], 'label')):
        problems.append('the recorded pair is not (source, label) of the parent edge of the current node')
    lits = literals(b, R, pushes[0].bb)
    if not any(l[0] == 'is' and l[2] == frozenset(['Ok']) and is_call(l[1], 'Tree::parent') for l in lits):
        problems.append('the pair is recorded without a successful parent lookup')
    rets = [e for _, e in R.return_expr()]
    okret = False
    for e in (rets[0][2] if rets and rets[0][0] == 'phi' else rets):
        if e[0] == 'agg' and isinstance(e[1], tuple) and e[1][2] == 'Ok' and s(e[2][0]) == s(pushes[0].args[0]):
            okret = True
    hdrs = [h for h in cfg.loop_headers() if isinstance(h, int)]
    if not (okret and len(revs) == 1 and s(revs[0].args[0]) == s(pushes[0].args[0]) and hdrs and revs[0].bb not in cfg.loop_of(hdrs[0])):
        problems.append('the collected edges are not reversed exactly once after the walk and returned')
    # the loop ends on MissingParent only; other errors are propagated
    rlits = literals(b, R, revs[0].bb) if revs else []
    if not any(l[0] == 'is' and l[2] == frozenset(['MissingParent']) for l in rlits):
        problems.append('the walk does not end exactly at the parentless node (MissingParent)')
    if problems:
        for p_ in problems:
            ctx.bad('C13.R9', 'Tree::path_to_node#walk', p_, b.span)
    else:
        ctx.ok('C13.R9', 'Tree::path_to_node#walk', 'walks parent edges up to the parentless node, records (source, label) per edge, reverses once: root-to-node order', b.span)


def r7(ctx):
    """An index is rejected as invalid exactly on arena membership: every InvalidTreeIndexError{index: x} built in impl Tree is guarded
    by the false outcome of arena.contains(x) or is the `ok_or` alternative of arena.get(x) / get_mut(x)."""
    F = ctx.facts
    n = 0
    for b in F.bodies:
        if b.self_base != 'Tree' or b.kind == 'Closure':
            continue
        R = None
        for i, j, st in b.stmts():
            if st['k'] == 'assign' and st['rv']['k'] == 'agg' and st['rv']['agg']['k'] == 'adt' and st['rv']['agg']['path'].endswith('InvalidTreeIndexError'):
                R = R or Resolver(b)
                n += 1
                v = R.rvalue(st['rv'], i, j)
                x = v[2][0]
                lits = literals(b, R, i)
                guarded = any(l[0] == 'false' and is_call(l[1], 'Slab::contains') and l[1][2][0] == ('field', ('param', 'self'), 'arena') and s(l[1][2][1]) == s(x) for l in lits)
                # the None arm of a lookup of the same index (`match arena.get(x) { None => Err(..) }`, `let Some(..) = arena.get(x) else { .. }`)
                guarded = guarded or any(l[0] == 'is' and l[2] == frozenset(['None']) and is_call(l[1], 'Slab::get', 'Slab::get_mut') and
                                         l[1][2][0] == ('field', ('param', 'self'), 'arena') and s(l[1][2][1]) == s(x) for l in lits)
                # ok_or(arena.get(x), InvalidTreeIndexError{x}): the error value is an argument of ok_or on a lookup of the same index
                via_lookup = False
                for bb, t in b.calls():
                    c = Callee(t['func'])
                    if c.name == 'ok_or':
                        a = R.call_args(bb)
                        if s(a[1]) == s(v) and any(is_call(y, 'Slab::get', 'Slab::get_mut') and s(y[2][1]) == s(x) for y in walk(a[0])):
                            via_lookup = True
                # the index is what `find(|&i| !arena.contains(i))` picked out of a list of the indices to be checked: found exactly because
                # the arena does not contain it
                via_find = False
                if is_call(x, 'Iterator::find') and len(x[2]) == 2 and x[2][1][0] == 'closure' and \
                        any(l[0] == 'is' and l[2] == frozenset(['Some']) and s(l[1]) == s(x) for l in lits):
                    cb_, cr_ = prune.closure_ret(F, x[2][1])
                    if cb_ is not None and cr_ and len(cr_) == 1:
                        r_ = s(cr_[0])
                        prm_ = ('param', cb_.arg_names()[-1])
                        caps_ = x[2][1][2]
                        inner = r_[2] if (r_[0] == 'un' and r_[1] == 'Not') else None
                        if inner is not None and is_call(inner, 'Slab::contains') and inner[2][1] == prm_ and \
                                any(isinstance(z, tuple) and ((z[:1] == ('field',) and z[2] == 'arena') or (z[:1] == ('upvar',) and str(z[1]).endswith('arena'))) for z in walk(inner[2][0])):
                            via_find = True
                site = '%s#invalid-index' % b.qname
                if guarded or via_lookup or via_find:
                    ctx.ok('C13.R7', site, 'index rejected exactly when the arena does not contain it', st['span'])
                else:
                    ctx.bad('C13.R7', site, 'an index is reported invalid under a test other than arena membership (live nodes can be rejected after deletions / freed ones accepted)', st['span'])
    if n == 0:
        ctx.lost('C13.R7', 'constructions of InvalidTreeIndexError in impl Tree')


def r6(ctx):
    F = ctx.facts
    # which stored nodes the index-order iterators select, and what they hand out for each: decided per element (rules/helpers.py)
    for name in ('terminals', 'terminals_mut', 'terminal_indices', 'decisions', 'decision_indices'):
        helpers.check_pipe(ctx, 'C13.R6', 'Tree::' + name, site='Tree::%s#filter' % name)
    for name, inner in (('num_terminals', 'Tree::terminal_indices'), ('num_nodes', 'DfsPre::iter')):
        b = ctx.body('C13.R6', 'Tree::' + name)
        if b is None:
            continue
        R = Resolver(b)
        rets = [e for _, e in R.return_expr()]
        site = 'Tree::%s#count' % name
        ok = len(rets) == 1 and is_call(rets[0], 'Iterator::count') and is_call(rets[0][2][0], inner)
        if ok and name == 'num_nodes':
            ok = rets[0][2][0][2][1] == ('param', 'node')
        if not ok and name == 'num_terminals' and len(rets) == 1 and is_call(rets[0], 'Iterator::count'):
            # the filter of terminal_indices written out: arena entries whose leaf flag is set
            src, filters = prune.filter_chain(rets[0])
            pos = False
            for f in filters:
                cb, crets = prune.closure_ret(F, f)
                if crets and len(crets) == 1 and crets[0][0] == 'field' and crets[0][2] == 'isleaf':
                    pos = True
            ok = pos and src is not None and any(isinstance(x, tuple) and x[:1] == ('field',) and x[2] == 'arena' for x in walk(src))
        if not ok and name == 'num_nodes':
            helpers.check_num_nodes(ctx, 'C13.R6', site)      # another spelling (a loop with a counter): decided by case interpretation
            continue
        if ok:
            ctx.ok('C13.R6', site, 'counts %s' % fmt(rets[0][2][0]), b.span)
        else:
            ctx.bad('C13.R6', site, 'does not count %s' % inner, b.span)
    # depth metrics: every depth value that enters the result is the depth counter the depth-first traversal from the root delivers with a node
    def traversal_depth(e):
        """e is (a cast of) the `depth` component of an item of dfs_iter(self) / a DfsPre traversal from the root -> that item"""
        while e[0] == 'cast' or (is_call(e, 'From::from', 'Into::into') and len(e[2]) == 1):
            e = e[1] if e[0] == 'cast' else e[2][0]
        c = prune.dfs_component(e)
        if c and c[1] == 'depth' and is_call(c[0], 'Iterator::next') and (is_call(c[0][2][0], 'Tree::dfs_iter') and c[0][2][0][2][0] == ('param', 'self')):
            return c[0]
        return None
    b = ctx.body('C13.R6', 'Tree::depth')
    if b is not None:
        R = Resolver(b)
        rets = [prune.beta_map(F, e) for _, e in R.return_expr()]
        ok = False
        if len(rets) == 1:
            e = rets[0]
            mx = [x for x in walk(e) if is_call(x, 'Iterator::max')]
            if len(mx) == 1 and is_call(mx[0][2][0], 'Iterator::map') and mx[0][2][0][2][1][0] == 'closure':
                body = prune.apply_closure(F, mx[0][2][0][2][1], ('call', 'Iterator::next', (mx[0][2][0][2][0],)))
                ok = body is not None and traversal_depth(body) is not None
            if not ok and e[0] in ('var', 'phi') and len(e) >= 3 and isinstance(e[1], int):
                # running maximum: m = 0; for item in dfs_iter() { if item.depth > m { m = item.depth } }
                defs_ = R.var_defs(e[1])
                init = [d for d in defs_ if s(d[2]) == ('const', 0)]
                upd = [d for d in defs_ if s(d[2]) != ('const', 0)]
                good = len(init) == 1 and bool(upd)
                for dbb, didx, val in upd:
                    it = traversal_depth(val)
                    same = lambda z: s(z) == s(e) or (isinstance(z, tuple) and z[0] in ('var', 'phi') and len(z) >= 3 and z[1] == e[1])
                    grows = any(op_ in ('Gt', 'Ge') and s(x_) == s(val) and same(y_) or op_ in ('Lt', 'Le') and s(y_) == s(val) and same(x_)
                                for op_, x_, y_ in prune.cmp_facts(literals(b, R, dbb)))
                    good = good and it is not None and grows
                ok = good
        if not ok:
            # another spelling of the running maximum: decided by case interpretation over short traversals with ordered depths
            wr = helpers.check_depth_loop(ctx, 'C13.R6', 'Tree::depth#values')
            if wr == []:
                ok = True
            elif isinstance(wr, list) and wr:
                ctx.bad('C13.R6', 'Tree::depth#values', 'depth() is not the largest depth the traversal from the root delivers: %s' % '; '.join(wr)[:200], b.span)
                ok = None
        if ok is not None:
          (ctx.ok if ok else ctx.bad)('C13.R6', 'Tree::depth#values', 'maximum over the depth counters delivered by the depth-first traversal from the root' if ok else
                                    'depth() is not the maximum of the depths the traversal from the root reports (depths recomputed another way are not decided here)', b.span)
    b = ctx.body('C13.R6', 'Tree::depth_stats')
    if b is not None:
        R = Resolver(b)
        adds = [(bb, R.call_args(bb)) for bb, t in b.calls() if Callee(t['func']).name == 'add' and Callee(t['func']).trait == 'Estimate']
        ok = len(adds) >= 3
        for bb, a in adds:
            it = traversal_depth(a[1])
            if it is None:
                ok = False
                continue
            lits = literals(b, R, bb)
            leaf = any(l[0] == 'true' and any(is_call(x, 'Tree::is_leaf') and x[2][0] == ('param', 'self') and prune.dfs_component(x[2][1]) and prune.dfs_component(x[2][1])[1] == 'index'
                                              and s(prune.dfs_component(x[2][1])[0]) == s(it) for x in walk(l[1])) for l in lits)
            ok = ok and leaf
        if ok:
            # each of the three estimators (minimum, maximum, variance) is fed once per leaf, and the result is (min, mean, variance, max) read off
            # the estimator of that kind
            recv = sorted(fmt(s(a[0])) for bb, a in adds)
            rets_ = [s(e) for _, e in R.return_expr()]
            want_ret = ('agg', 'tuple', (('call', 'Min::min', (('call', 'Min::new', ()),)), ('call', 'Variance::mean', (('call', 'Variance::new', ()),)),
                                         ('call', 'Variance::sample_variance', (('call', 'Variance::new', ()),)), ('call', 'Max::max', (('call', 'Max::new', ()),))))
            if recv != ['Max::new()', 'Min::new()', 'Variance::new()'] or rets_ != [want_ret]:
                ctx.bad('C13.R6', 'Tree::depth_stats#estimators', 'the minimum / maximum / variance estimators are not each fed once per leaf and read back in the order (min, mean, variance, max): fed %s' % recv, b.span)
            else:
                ctx.ok('C13.R6', 'Tree::depth_stats#estimators', 'Min, Max and Variance each fed once per leaf; result = (min, mean, sample variance, max)', b.span)
        (ctx.ok if ok else ctx.bad)('C13.R6', 'Tree::depth_stats#values', 'statistics over the traversal depth of exactly the nodes whose leaf flag is set' if ok else
                                    'depth_stats does not aggregate the depths the traversal from the root reports for the terminal nodes', b.span)
    b = ctx.body('C13.R6', 'Tree::dfs_iter')
    if b is not None:
        R = Resolver(b)
        rets = [e for _, e in R.return_expr()]
        ok = len(rets) == 1 and is_call(rets[0], 'DfsPre::iter') and is_call(rets[0][2][1], 'Tree::get_root_idx')
        (ctx.ok if ok else ctx.bad)('C13.R6', 'Tree::dfs_iter#start', 'depth-first traversal from the root' if ok else 'dfs_iter does not start a DfsPre at the root', b.span)

"""C05 — cached feasibility verdicts and witnesses stay sound across histories."""
from ..mir import Callee, Resolver, fmt, literals, walk, strip_sites as s
from ..effects import place_is_owned
from . import prune
from . import helpers
from .prune import is_call

LEVEL = 'other'
RULES = {
    'C05.R7': 'witnesses are admitted by Polytope::contains: every row within the documented 1e-8 tolerance (shared with C14.R1)',
    'C05.R6': 'the path polytope witnesses are tested against is the conjunction of the path conditions (shared with C09.R1)',
    'C05.R5': helpers.RULE_TEXT,
    'C05.R1': 'every FeasibleWitness is built from points that passed a containment test on the node\'s polytope; mirror_points returns only columns that passed its distance filter (distances b - A·c of the normalised polytope, shifted only away from acceptance); cached points are columns of the array it returned; the phases are fed the path polytope of the node being classified',
    'C05.R2': 'who may write AffContent.state: AffContent::new (Indeterminate), infeasible_elimination (value of the phases, at the classified node), remove_axes (Indeterminate)',
    'C05.R3': 'node functions above a cached node never change silently: internal writers of .aff reach terminals only, or reset the state of every node they rewrite',
    'C05.R4': 'only a child with feasible state is forwarded past a skipped decision',
}
FLOORS = {'C05.R7': 1, 'C05.R6': 5, 'C05.R5': 9, 'C05.R1': 8, 'C05.R2': 3, 'C05.R3': 6, 'C05.R4': 1}
EXPLANATION = 'No unchecked point and no unsupported verdict can enter a cache, and no operation invalidates a cache without clearing it.'
DOES_NOT_DECIDE = 'the numeric margin of contains (1e-8) against accumulated rounding of later compositions'


def content_field_writes(F, field):
    """(body, bb, idx, kind, target expr, value expr, owned, span) for every write / &mut borrow of AffContent.<field>."""
    out = []
    for b in F.bodies:
        R = None
        for i, j, st in b.stmts():
            if st['k'] != 'assign':
                continue
            def hit(pl):
                return any(p['k'] == 'field' and p['name'] == field and isinstance(p.get('owner'), dict)
                           and p['owner'].get('adt', '').split('::')[-1] == 'AffContent' for p in pl['proj'])
            if hit(st['place']):
                R = R or Resolver(b)
                out.append((b, i, j, 'assign', R.place(st['place'], i, j), R.rvalue(st['rv'], i, j), place_is_owned(b, st['place'], i, j), st['span']))
            rv = st['rv']
            if rv['k'] == 'ref' and rv.get('mut') and hit(rv['place']):
                R = R or Resolver(b)
                out.append((b, i, j, 'mutborrow', R.place(rv['place'], i, j), None, place_is_owned(b, rv['place'], i, j), st['span']))
    return out


def owner_qname(F, b):
    """the function a write belongs to: a closure (`res.map(|val| mem::replace(&mut val.aff, aff))`) writes on behalf of the function it is in"""
    for _ in range(4):
        if b.kind != 'Closure':
            break
        p = F.by_path.get(b.parent)
        if p is None:
            break
        b = p
    return b.qname


def node_of(e):
    """index expression of the node whose content is accessed by e (…node_value_mut(tree, idx).field / tree_node_mut(tree, idx).value.field)."""
    for x in walk(e):
        if is_call(x, 'Tree::node_value_mut', 'Tree::node_value', 'Tree::tree_node_mut', 'Tree::tree_node') and len(x[2]) == 2:
            return x[2][0], x[2][1]
    return None, None


def r1_feed(ctx):
    """The phases are called for the node being visited with that node's path polytope, and the result is stored at that node."""
    b = ctx.body('C05.R1', 'AffTree::infeasible_elimination')
    if b is None:
        return
    R = Resolver(b)
    calls = {}
    for bb, t in b.calls():
        c = Callee(t['func'])
        if c.name in ('phase_inh', 'phase_one', 'phase_two') and c.self_base == 'AffTree':
            calls[c.name] = (bb, R.call_args(bb), t['span'])
    for ph in ('phase_inh', 'phase_one', 'phase_two'):
        if ph not in calls:
            ctx.lost('C05.R1', 'call of ' + ph + ' in infeasible_elimination')
            return
    # the traversal item
    def nxt(e):
        return [x for x in walk(e) if is_call(x, 'PolyhedraGen::next')]
    inh, one, two = calls['phase_inh'], calls['phase_one'], calls['phase_two']
    node = two[1][1]
    ok = True
    nx = nxt(node)
    if not nx:
        ctx.bad('C05.R1', 'AffTree::infeasible_elimination#phases:node', 'phase_two is not called for the node delivered by the traversal', two[2])
        return
    nx = nx[0]
    # node = extract(next.0).1  (the index component)
    par = lambda e: e[0] == 'field' and e[2] == 'source_idx' and is_call(e[1], 'Tree::parent') and s(e[1][2][1]) == s(node)
    site = 'AffTree::infeasible_elimination#phases'
    if not (par(inh[1][1]) and par(one[1][1])):
        ctx.bad('C05.R1', site + ':parent', 'phase_inh/phase_one must consult the witnesses of the parent of the visited node (tree.parent(node).source_idx)', inh[2])
        ok = False
    polys = ('field', nx, '1')
    poly_ok = lambda e: is_call(e, 'AffFuncBase::intersection_n') and s(e[2][1]) == s(polys) and is_call(e[2][0], 'AffTree::in_dim')
    if not (poly_ok(one[1][2]) and poly_ok(two[1][2])):
        ctx.bad('C05.R1', site + ':polytope', 'phase_one/phase_two must receive intersection_n(in_dim, path predicates delivered with the visited node)', two[2])
        ok = False
    hp = inh[1][2]
    if not (is_call(hp, '[T]::last') and s(hp[2][0]) == s(polys)):
        ctx.bad('C05.R1', site + ':hyperplane', 'phase_inh must test the last path predicate of the visited node', inh[2])
        ok = False
    if ok:
        ctx.ok('C05.R1', site, 'phases receive (parent of node, last predicate / full path polytope of node) from one traversal item', two[2])
    # phase bodies use their own parameters
    pi = ctx.body('C05.R1', 'AffTree::phase_inh')
    if pi is not None:
        Rp = Resolver(pi)
        okp = False
        for cb in pi.closure_bodies():
            for _, e in Resolver(cb).return_expr():
                ct = prune.containment_test(ctx.facts, e)
                if ct is not None and ct[0] in (('upvar', 'hyperplane'), ('param', 'hyperplane')) and ct[1][0] == 'param':
                    okp = True
        # the filtered points are the parent's witnesses
        src_ok = False
        for pb, i, j, st in prune.constructions(ctx.facts, 'NodeState', 'FeasibleWitness'):
            if pb is pi:
                v = Rp.rvalue(st['rv'], i, j)
                for x in walk(v):
                    if isinstance(x, tuple) and x[:1] == ('vfield',) and x[2] == 'FeasibleWitness':
                        st_e = x[1]
                        if st_e[0] == 'field' and st_e[2] == 'state' and is_call(st_e[1], 'Tree::node_value') and st_e[1][2][1] == ('param', 'parent_idx'):
                            src_ok = True
        if okp and src_ok:
            ctx.ok('C05.R1', 'AffTree::phase_inh#source', 'inherits only witnesses of node parent_idx that satisfy the new half-space', pi.span)
        else:
            ctx.bad('C05.R1', 'AffTree::phase_inh#source', 'inherited points must be the parent\'s witnesses filtered by hyperplane.contains', pi.span)


def r2(ctx):
    F = ctx.facts
    seen = 0
    for (b, i, j, kind, tgt, val, owned, span) in content_field_writes(F, 'state'):
        seen += 1
        site = '%s#write:AffContent.state' % b.qname
        if b.qname == 'AffTree::infeasible_elimination':
            tree, node = node_of(tgt)
            R = Resolver(b)
            def flat(v):
                # joins of joins (each phase tried through a helper that keeps a conclusive state) are one set of alternatives
                if v and v[0] == 'phi' and len(v) >= 3:
                    out = []
                    for a in v[2]:
                        out.extend(flat(a))
                    return out
                return [v]
            alts = tuple(flat(val)) if val else (val,)
            names = sorted({a[1] for a in alts if a and a[0] == 'call'})
            good = node is not None and names == ['AffTree::phase_inh', 'AffTree::phase_one', 'AffTree::phase_two']
            # stored at the node the phases were computed for
            two = [a for a in alts if is_call(a, 'AffTree::phase_two')]
            if good and two and s(two[0][2][1]) == s(node):
                ctx.ok('C05.R2', site, 'stores the verdict of phase_inh/phase_one/phase_two at the classified node', span)
            else:
                ctx.bad('C05.R2', site, 'state written in infeasible_elimination is not the phases\' verdict for that node (%s)' % fmt(val)[:120], span)
        elif val == ('agg', ('adt', 'NodeState', 'Indeterminate', ()), ()):
            ctx.ok('C05.R2', site, 'resets the cache to Indeterminate', span)
        else:
            ctx.bad('C05.R2', site, 'unexpected writer of the feasibility cache (value %s)' % (fmt(val) if val else '&mut borrow'), span)
    n = 0
    for pb, i, j, st in prune.constructions(F, 'AffContent', None, skip_derives=True):
        n += 1
        R = Resolver(pb)
        v = R.rvalue(st['rv'], i, j)
        from ..mir import agg_field
        stv = agg_field(v, 'state', v[2][1] if len(v[2]) > 1 else None)
        site = '%s#build:AffContent' % pb.qname
        if stv == ('agg', ('adt', 'NodeState', 'Indeterminate', ()), ()):
            ctx.ok('C05.R2', site, 'new nodes start Indeterminate', st['span'])
        else:
            ctx.bad('C05.R2', site, 'a node is created with a pre-set feasibility state (%s)' % fmt(stv), st['span'])
    if n == 0:
        ctx.lost('C05.R2', 'construction of AffContent')


def r3(ctx):
    """Writers of .aff: where do they write, and is the cache kept consistent?"""
    F = ctx.facts
    writers = content_field_writes(F, 'aff')
    bodies = {}
    for w in writers:
        bodies.setdefault(owner_qname(F, w[0]), []).append(w)
    for q, ws in sorted(bodies.items()):
        b = ws[0][0]
        site = '%s#write:AffContent.aff' % q
        span = ws[0][7]
        if all(w[6] for w in ws):
            ctx.ok('C05.R3', site, 'writes a tree it owns (fresh, no cache yet)', span)
            continue
        if q == 'AffTree::from_poly':
            # node_value_mut(fresh tree) – the tree is a local created in this function
            tgt = ws[0][4]
            if any(is_call(x, 'AffTree::with_capacity') for x in walk(tgt)):
                ctx.ok('C05.R3', site, 'writes the root of a tree created in the same function (no cache yet)', span)
            else:
                ctx.bad('C05.R3', site, 'from_poly writes a node of a tree it did not create', span)
            continue
        if q == 'AffTree::remove_axes':
            # every rewritten node has its state reset in the same loop iteration
            R = Resolver(b)
            cfg = b.cfg()
            sw = [w for w in content_field_writes(F, 'state') if w[0] is b]
            ok = False
            for w in ws:
                for x in sw:
                    if s(node_of(w[4])[1]) == s(node_of(x[4])[1]) and (cfg.postdominates(x[1], w[1]) or x[1] == w[1] or not cfg.reaches(w[1], -1, avoid=[x[1]]) and _same_iter_postdom(cfg, w[1], x[1])):
                        ok = True
            if ok:
                ctx.ok('C05.R3', site, 'rewrites every node and resets that node\'s state in the same iteration', span)
            else:
                ctx.bad('C05.R3', site, 'remove_axes rewrites node functions without resetting the cached state of the same node', span)
            continue
        if q in ('AffTree::apply_func_at_node', 'AffTree::update_node', 'AffTree::unary_op_inplace'):
            continue  # judged at their internal callers below
        if q == 'AffTree::apply_func':
            # terminals rewritten in place: a terminal has no descendants whose cached regions could go stale, and composing on the output
            # side leaves the terminal's own path region as it was
            if all(any(is_call(x, 'Tree::terminals_mut') for x in walk(w[4])) for w in ws):
                ctx.ok('C05.R3', site, 'rewrites nodes drawn from terminals_mut() only', span)
            else:
                ctx.bad('C05.R3', site, 'apply_func rewrites the function of a node that is not known to be a terminal', span)
            continue
        ctx.bad('C05.R3', site, 'unexpected writer of node functions', span)
    # internal callers reach terminals only
    for (cb, bb, t) in F.callers_of(lambda c: c.self_base == 'AffTree' and c.name in ('apply_func_at_node', 'update_node')):
        if cb.qname in ('AffTree::replace_node',):
            # caution API: only the root (whose region is the whole space whatever its function) is rewritten in place; every other node
            # is removed with its subtree and re-added as a fresh Indeterminate node
            Rr = Resolver(cb)
            node = Rr.call_args(bb)[1]
            rooted = any(l[0] == 'true' and is_call(l[1], 'Tree::is_root') and s(l[1][2][1]) == s(node) for l in literals(cb, Rr, bb))
            site = '%s#call:%s' % (cb.qname, Callee(t['func']).name)
            if rooted:
                ctx.ok('C05.R3', site, 'caution API: in-place rewrite only under tree.is_root(node) == true; documented', t['span'])
            else:
                ctx.bad('C05.R3', site, 'replace_node rewrites a node in place (keeping its cached state and its descendants\' witnesses) without having tested that it is the root', t['span'])
            continue
        R = Resolver(cb)
        args = R.call_args(bb)
        node = args[1]
        lits = literals(cb, R, bb)
        site = '%s#call:AffTree::%s' % (cb.qname, Callee(t['func']).name)
        ok = None
        for l in lits:
            if l[0] == 'true' and l[1][0] == 'field' and l[1][2] == 'isleaf' and s(node_of(l[1])[1]) == s(node):
                ok = 'dominated by assert!(node.isleaf)'
        if any(is_call(x, 'Tree::terminal_indices') for x in walk(node)):
            ok = 'node drawn from terminal_indices()'
        if ok is None and prune.leaf_guard(lits, node):
            ok = 'dominated by tree.is_leaf(node) == true'
        if ok:
            ctx.ok('C05.R3', site, 'rewrites a terminal only: ' + ok, t['span'])
        else:
            ctx.bad('C05.R3', site, 'rewrites the function of a node that is not known to be a terminal (a cached descendant would become stale)', t['span'])
    u = F.q('AffTree::unary_op_inplace')
    if u is not None:
        ws = bodies.get('AffTree::unary_op_inplace', [])
        if ws and all(any(is_call(x, 'Tree::terminals_mut') for x in walk(w[4])) for w in ws):
            ctx.ok('C05.R3', 'AffTree::unary_op_inplace#write:AffContent.aff', 'rewrites nodes drawn from terminals_mut() only', u.span)
        else:
            ctx.bad('C05.R3', 'AffTree::unary_op_inplace#write:AffContent.aff', 'unary_op_inplace must only touch terminals', u.span)


def _same_iter_postdom(cfg, a, b):
    """every path from a back to a loop header passes b"""
    for h in cfg.loop_headers():
        body = cfg.loop_of(h)
        if a in body:
            return not cfg.reaches(a, h, avoid=[b])
    return False


def r4(ctx):
    # decided inside the removal rule (J3 forward_if_redundant): re-run it and keep the forwarding instance
    from ..core import Ctx
    sub = Ctx(ctx.facts, ctx.tier, ctx.prop)
    prune.check_removals(sub, 'C05.R4')
    for i in sub.insts:
        if i.site == 'AffTree::forward_if_redundant#call:Tree::merge_child_with_parent':
            ctx.insts.append(i)
            return
    ctx.lost('C05.R4', 'forward_if_redundant merge site')


def run(ctx):
    helpers.run_for(ctx)
    helpers.share_from(ctx, 'c14', 'C05.R7', ['AffFuncBase::contains', 'AffFuncBase::distance'])
    helpers.share_from(ctx, 'c09', 'C05.R6', ['PolyhedraGen::next#sign-table', 'AffTree::polyhedral_path_characterization#sign-table', 'PolyhedraGen::skip_subtree', 'PolyhedraGen::new', 'PolyhedraGen::with_root', 'AffTree::polyhedra#'])
    prune.check_witness_guards(ctx, 'C05.R1')
    prune.check_mirror_contract(ctx, 'C05.R1')
    r1_feed(ctx)
    r2(ctx)
    r3(ctx)
    r4(ctx)

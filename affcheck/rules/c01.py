"""C01 — distillation is faithful: the layer -> generator dispatch and the running dimension (own clause of C01)."""
import re
from ..mir import Callee, Resolver, fmt, literals, walk, strip_sites as s
from . import prune
from . import helpers
from .prune import is_call

LEVEL = 'other'
RULES = {
    'C01.R7': 'the node estimate every distillation entry point starts with cannot underflow (shared with C18.R6)',
    'C01.R6': 'the links, leaf flags and node set this property reads are what the arena mutators maintain as their effect contracts say (shared with C12.R2)',
    'C01.R5': helpers.RULE_TEXT,
    'C01.R1': 'layer dispatch table: each Layer variant reaches its own generator with its own payload and the running dimension; constants by value; composed receiver is the tree being built',
    'C01.R2': 'running dimension = output dimension of the tree: arms whose generator changes the dimension assign it (Linear -> outdim(payload), heads with constant terminals -> 1), the others do not',
    'C01.R4': 'inherited necessary conditions (shared rules): the evaluator tests mat·x - bias <= 0 (closed) and follows the label it computes; the elimination run between layers removes only Infeasible paths and never the last child of a decision; every generator of the dispatch table is its activation / head (C17.R1-R3 instances of those generators)',
    'C01.R3': 'precondition: its input dimension is asserted equal to dim before use and the running dimension is taken from its terminals',
}
CONTROL_REV = '078b142'  # thorough tier: the rules must still report the defects found (and since fixed) on the original tree
CONTROLS = [('C01.R2', 'afftree_from_layers_generic#dim:Argmax'), ('C01.R2', 'afftree_from_layers_generic#dim:ClassChar')]
FLOORS = {'C01.R7': 1, 'C01.R6': 15, 'C01.R5': 16, 'C01.R1': 7, 'C01.R2': 7, 'C01.R3': 1, 'C01.R4': 30}
EXPLANATION = ('C01 is the composition of C02 (apply_func/compose), C03 (elimination), C17 (schema trees) and the clause decided here: the distiller feeds each layer to the right '
               'generator with the right arguments and keeps its running dimension equal to the tree\'s output dimension.')
DOES_NOT_DECIDE = 'numeric agreement (delegated to C02/C03/C17 and their limits)'

# variant -> (generator, constants after (dim, payload...)), PRUNE flag of compose
EXPECT = {
    'ReLU': ('partial_ReLU', [], 1),
    'LeakyReLU': ('partial_leaky_ReLU', [], 2),
    'HardTanh': ('partial_hard_tanh', [-1.0, 1.0], 1),
    'HardSigmoid': ('partial_hard_sigmoid', [], 1),
    'Argmax': ('argmax', [], 0),
    'ClassChar': ('class_characterization', [], 1),
}


def norm(n):
    return re.sub(r'[^a-z]', '', n.lower())


def generator_out_class(F, name):
    """'dim' if the generator's terminals keep the dimension (identity / zero_idx), '1' if they are constants."""
    b = F.q(name)
    if b is None:
        return None
    R = Resolver(b)
    kinds = set()
    for bb, t in b.calls():
        c = Callee(t['func'])
        if c.name in ('add_child_node', 'add_terminal'):
            v = R.call_args(bb)[3]
            for x in walk(v):
                if is_call(x, 'AffFuncBase::identity', 'AffFuncBase::zero_idx'):
                    kinds.add('dim')
                if is_call(x, 'AffFuncBase::constant'):
                    kinds.add('1')
    if len(kinds) == 1:
        return kinds.pop()
    return None


def running_dim_local(b, bb, argi):
    """follow copies from the call argument back to the multi-definition local"""
    t = b.blocks[bb]['term']
    op = t['args'][argi]
    if op['k'] not in ('copy', 'move') or op['place']['proj']:
        return None
    l = op['place']['local']
    for _ in range(5):
        defs = b.defs().get(l, [])
        if len(defs) == 1 and defs[0][1] != 'term':
            rv = b.blocks[defs[0][0]]['stmts'][defs[0][1]]['rv']
            if rv['k'] == 'use' and rv['op']['k'] in ('copy', 'move') and not rv['op']['place']['proj']:
                l = rv['op']['place']['local']
                continue
        break
    return l


def shared(ctx):
    """C01.R4: necessary conditions C01 inherits from C09 (evaluator convention) and C03 (pruning between layers is function-preserving)."""
    from ..core import Ctx
    from . import c09
    sub = Ctx(ctx.facts, ctx.tier, ctx.prop)
    prune.check_removals(sub, 'C01.R4')
    prune.check_childless(sub, 'C01.R4')
    prune.check_infeasible_provenance(sub, 'C01.R4')
    prune.check_edge_feasible_table(sub, 'C01.R4')   # the activation layers are composed with on-the-fly pruning
    c09.run(sub)
    from . import c04
    c04.r2(sub)                                       # affine layers: apply_func rewrites every terminal with the layer
    keep = ('AffTree::infeasible_elimination#', 'AffTree::forward_if_redundant#', 'AffTree::generic_composition_inplace#', 'AffTree::phase_two#',
            'AffTree::evaluate_decision#', 'AffTree::index_from_label#', 'AffTree::find_terminal#', 'AffTree::evaluate#', 'AffTree::is_edge_feasible#',
            'AffTree::apply_func#')
    for i in sub.insts:
        if i.site.startswith(keep):
            i.rule = 'C01.R4'
            ctx.insts.append(i)
    # the generators the dispatch table reaches: the tree is the network only if each of them is its activation / head (decided under C17)
    from . import c17
    sub = Ctx(ctx.facts, ctx.tier, ctx.prop)
    c17.run(sub)
    gens = tuple(sorted({e[0] for e in EXPECT.values()}))
    for i in sub.insts:
        if i.site.split('#')[0] in gens:
            i.rule = 'C01.R4'
            ctx.insts.append(i)


def run(ctx):
    helpers.run_for(ctx)
    prune.check_no_unsigned_underflow(ctx, 'C01.R7', '<SimpleNodeEstimator as NodeEstimator>::estimate_nodes')
    helpers.share_arena_contracts(ctx, 'C01.R6')
    F = ctx.facts
    b = ctx.body('C01.R1', 'afftree_from_layers_generic')
    if b is None:
        return
    R = Resolver(b)
    cfg = b.cfg()
    Q = b.qname
    adt = F.adt('Layer')
    variants = [v['name'] for v in adt['variants']] if adt else []
    gens = {}
    dim_locals = set()
    for bb, t in b.calls():
        c = Callee(t['func'])
        if c.indirect or c.self_base:
            continue
        if c.name in [e[0] for e in EXPECT.values()] or c.name.startswith('partial_'):
            lits = [l for l in literals(b, R, bb) if l[0] == 'is' and len(l[2]) == 1 and list(l[2])[0] in variants]
            arm = list(lits[0][2])[0] if lits else None
            gens.setdefault(arm, []).append((bb, t, c, lits[0][1] if lits else None))
            dim_locals.add(running_dim_local(b, bb, 0))
    tree_expr = None
    for v in variants:
        site = '%s#arm:%s' % (Q, v)
        if v == 'Linear':
            af = [(bb, R.call_args(bb), t) for bb, t in b.calls_to('AffTree::apply_func')]
            ok = False
            for bb, a, t in af:
                lits = literals(b, R, bb)
                arm = [l for l in lits if l[0] == 'is' and l[2] == frozenset(['Linear'])]
                if arm and a[1] == ('vfield', arm[0][1], 'Linear', '0'):
                    tree_expr = a[0]
                    # input dimension asserted first
                    chk = any(op == 'Eq' and is_call(x, 'AffFuncBase::indim') and x[2][0] == a[1] for op, x, y in prune.cmp_facts(lits))
                    ok = chk
                    ctx.ok('C01.R1', site, 'apply_func(payload) after asserting indim(payload) == dim', t['span']) if ok else \
                        ctx.bad('C01.R1', site, 'Linear arm applies the layer without checking its input dimension against the running dimension', t['span'])
            if not af:
                ctx.bad('C01.R1', site, 'Linear arm does not call apply_func', b.span)
            continue
        if v not in EXPECT:
            ctx.bad('C01.R1', site, 'Layer variant without a known dispatch rule', b.span)
            continue
        gname, consts, npay = EXPECT[v]
        calls_ = gens.get(v, [])
        if len(calls_) != 1:
            ctx.bad('C01.R1', site, 'expected exactly one generator call in this arm, found %s' % [c.name for _, _, c, _ in calls_], b.span)
            continue
        bb, t, c, layer = calls_[0]
        a = R.call_args(bb)
        problems = []
        if c.name != gname:
            problems.append('calls %s, expected %s' % (c.name, gname))
        if norm(v) not in norm(c.name) and not (v == 'ClassChar' and 'classchar' in norm(c.name)):
            problems.append('generator name does not match the variant name')
        pay = [('vfield', layer, v, str(i)) for i in range(npay)]
        if list(a[1:1 + npay]) != pay:
            problems.append('payload arguments are not the arm\'s own payload in order: %s' % [fmt(x)[:50] for x in a[1:]])
        got_consts = [x[1] for x in a[1 + npay:] if x[0] == 'const']
        if got_consts != consts or len(a) != 1 + npay + len(consts):
            problems.append('constants %s, expected %s' % (got_consts, consts))
        # composed into the tree being built, pruning flag irrelevant for the function (C03)
        comp = [(cb, R.call_args(cb), ct) for cb, ct in b.calls_to('AffTree::compose') if any(is_call(x, c.name) and x[3] == bb for x in walk(R.call_args(cb)[1]))]
        if len(comp) != 1:
            problems.append('the generated tree is not composed into the tree being built')
        elif tree_expr is not None and s(comp[0][1][0]) != s(tree_expr):
            problems.append('composed into a different tree than the one Linear layers are applied to')
        if problems:
            for p in problems:
                ctx.bad('C01.R1', site, p, t['span'])
        else:
            ctx.ok('C01.R1', site, 'compose(%s(dim, payload%s))' % (gname, ''.join(', %s' % x for x in consts)), t['span'])
    shared(ctx)
    # ---- R2
    dim_locals.discard(None)
    if len(dim_locals) != 1:
        ctx.bad('C01.R2', Q + '#running-dim', 'the generators do not all read one running dimension variable (%s)' % sorted(dim_locals), b.span)
        return
    D = dim_locals.pop()
    defs = []
    from ..mir import value_table
    # every value the running dimension is given, with its guards; `dim = step(.., dim)` where an arm hands the old value back is no change
    for e, lits, dbb in value_table(b, R, D):
        if e[0] == 'var' and e[1] == D:
            continue
        arm = [list(l[2])[0] for l in lits if l[0] == 'is' and len(l[2]) == 1 and list(l[2])[0] in variants]
        defs.append((dbb, e, arm[0] if arm else None, lits))
    for v in variants:
        site = '%s#dim:%s' % (Q, v)
        mine = [d for d in defs if d[2] == v]
        if v == 'Linear':
            ok = len(mine) == 1 and is_call(mine[0][1], 'AffFuncBase::outdim') and mine[0][1][2][0][0] == 'vfield' and mine[0][1][2][0][2] == 'Linear'
            (ctx.ok if ok else ctx.bad)('C01.R2', site, 'dim := outdim(payload)' if ok else 'after a Linear layer the running dimension is not set to the layer\'s output dimension (%s)' % [fmt(d[1]) for d in mine], b.span)
            continue
        if v not in EXPECT:
            continue
        cls = generator_out_class(F, EXPECT[v][0])
        if cls is None:
            ctx.undecided('C01.R2', site, 'cannot derive the output dimension class of %s from its terminal constructors' % EXPECT[v][0], b.span)
        elif cls == 'dim':
            (ctx.ok if not mine else ctx.bad)('C01.R2', site, 'generator keeps the dimension, dim untouched' if not mine else
                                              'dim is reassigned although %s keeps the dimension' % EXPECT[v][0], b.span)
        else:
            # generator maps to 1 dimension: dim := 1 after the composition
            comp = [cb for cb, ct in b.calls_to('AffTree::compose') if any(l[0] == 'is' and l[2] == frozenset([v]) for l in literals(b, R, cb))]
            ok = len(mine) == 1 and mine[0][1] == ('const', 1) and comp and cfg.dominates(comp[0], mine[0][0])
            (ctx.ok if ok else ctx.bad)('C01.R2', site, '%s has constant (1-row) terminals: dim := 1 after composing it' % EXPECT[v][0] if ok else
                                        'the output of %s is 1-dimensional but the running dimension is not set to 1: a following dimension-consistent layer is rejected or built for the wrong dimension' % EXPECT[v][0], b.span)
    # ---- R3 precondition
    pre = [d for d in defs if d[2] is None and any(l[0] == 'is' and l[1] == ('param', 'precondition') and l[2] == frozenset(['Some']) for l in d[3])]
    ok = False
    if len(pre) == 1:
        e = pre[0][1]
        from_terms = any(is_call(x, 'AffTree::terminals') for x in walk(e))
        clo = [x for x in walk(e) if isinstance(x, tuple) and x[:1] == ('closure',)]
        outdim = False
        for cexpr in clo:
            cb, rets = prune.closure_ret(F, cexpr)
            if rets and is_call(rets[0], 'AffFuncBase::outdim'):
                outdim = True
        chk = any(op == 'Eq' and is_call(x, 'AffTree::in_dim') and y == ('param', 'dim') for op, x, y in prune.cmp_facts(pre[0][3]))
        ok = from_terms and outdim and chk
    (ctx.ok if ok else ctx.bad)('C01.R3', Q + '#precondition', 'assert in_dim(pre) == dim, then dim := outdim of its terminals' if ok else
                                'precondition handling does not assert the input dimension and take the running dimension from its terminals', b.span)

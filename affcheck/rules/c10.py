"""C10 — the LP layer: only the repository's side of it (encoding, outcome tables, Chebyshev program).

Whether minilp's simplex answers correctly for every constraint system is NOT decided here (no static argument in reach bounds it).
What is decided are the clauses of C10 whose truth is in the shape of this crate's code and whose violation necessarily breaks the
property for some polytope: the program handed to the solver, the mapping of the solver's outcomes to PolytopeStatus, the consumers'
tables, and the program returned by chebyshev_center.
"""
from ..mir import Resolver, fmt, literals, phi_table, strip_sites as s, walk
from . import prune
from .prune import is_call

LEVEL = 'other'
RULES = {
    'C10.R1': 'the program solved is min c^T x s.t. A x <= b over free variables (one Le row per constraint row, coefficients paired with the variables in order, '
              'objective sense Minimize, cost coefficient of each variable at its own position); status() asks with the zero objective; solve_linprog solves the encoding of self with the given objective',
    'C10.R2': 'outcome table of solve_linprog: Infeasible only for the back-end\'s Err(Infeasible); Unbounded only for Err(Unbounded) or an Ok answer with a non-finite coordinate; '
              'Optimal only in the Ok arm, carrying the solver\'s value of every variable in variable order',
    'C10.R3': 'is_feasible: false exactly for status Infeasible, true for Optimal and Unbounded',
    'C10.R4': 'chebyshev_center returns the program [A | ‖a_i‖ ; 0 … 0 -1] (x, r) <= [b ; 0] with cost (0,…,0,-1): norms written for every row from that row\'s own coefficients, '
              'radius column last, r >= 0 row last, cost = the radius row',
}
FLOORS = {'C10.R1': 3, 'C10.R2': 4, 'C10.R3': 2, 'C10.R4': 5}
EXPLANATION = ('Structural clauses only: every change to this crate that makes the LP layer misclassify or mis-optimise has to change the program handed to the solver, '
               'the outcome mapping, or the Chebyshev encoding; those are compared with the documented forms for all polytopes at once.')
DOES_NOT_DECIDE = ('the correctness, tolerances and numerical behaviour of the minilp simplex itself (the "reports infeasible only if empty or thinner than the tolerance", '
                   '"objective value is the true minimum" and "witness belongs to the set" clauses depend on it); cfg(feature="highs") code')


def lit_str(lits):
    return '; '.join('%s %s %s' % (x[0], fmt(x[1])[:60], sorted(x[2]) if x[0] == 'is' else '') for x in lits[:6])


def float_class_table(F, cb):
    """{class: bool} for a closure |x| over one float, x in {finite, inf, nan}; None if it does anything besides is_infinite/is_nan/is_finite and boolean logic.
    The closure's MIR is walked under each abstract input (absint); nothing is executed."""
    from ..absint import Interp, Unknown
    from ..mir import Callee
    if cb is None:
        return None

    class FC(Interp):
        def __init__(self, cls):
            Interp.__init__(self, F, cb, {cb.arg_count: 'X'}, False, 0)
            self.cls = cls

        def call(self, t):
            c = Callee(t['func'])
            args = [self.operand(a) for a in t['args']]
            if args and args[0] == 'X' and c.name in ('is_infinite', 'is_nan', 'is_finite'):
                return {'is_infinite': self.cls == 'inf', 'is_nan': self.cls == 'nan', 'is_finite': self.cls == 'finite'}[c.name]
            return Interp.call(self, t)

    tab = {}
    for cls in ('finite', 'inf', 'nan'):
        try:
            v = FC(cls).run()
        except Unknown:
            return None
        if not isinstance(v, bool):
            return None
        tab[cls] = v
    return tab


def coordinate_guard(F, lits):
    """what the guard literals say about the coordinates of the answer: 'all-finite', 'some-nonfinite' or None (nothing of that kind / not decidable)"""
    for l in lits:
        if l[0] in ('true', 'false') and is_call(l[1], 'Iterator::any', 'Iterator::all') and l[1][2][1][0] == 'closure':
            tab = float_class_table(F, F.closure(l[1][2][1][1]))
            if tab is None:
                continue
            # the test has to look at every coordinate of the answer: no skip / take / filter / step_by between the vector and any / all
            if any(is_call(x, 'Iterator::skip', 'Iterator::take', 'Iterator::filter', 'Iterator::step_by', 'Iterator::skip_while', 'Iterator::take_while', 'Iterator::filter_map')
                   for x in walk(l[1][2][0])):
                continue
            q = l[1][1].split('::')[-1]
            holds = l[0] == 'true'
            # any(c) false  => every coordinate has c false;  all(c) true => every coordinate has c true
            if (q == 'any' and not holds and tab['inf'] and tab['nan']) or (q == 'all' and holds and not tab['inf'] and not tab['nan']):
                return 'all-finite'
            # any(c) true => some coordinate has c true;  all(c) false => some coordinate has c false
            if (q == 'any' and holds and not tab['finite']) or (q == 'all' and not holds and tab['finite']):
                return 'some-nonfinite'
    return None


def r2_outcomes(ctx, rule='C10.R2'):
    F = ctx.facts
    b = ctx.body(rule, 'AffFuncBase::solve_linprog')
    if b is None:
        return
    R = Resolver(b)
    solve = [(bb, R.call_args(bb)) for bb, t in b.calls_to('Problem::solve')]
    if len(solve) != 1:
        ctx.undecided(rule, 'AffFuncBase::solve_linprog#solve', 'expected exactly one call of the back-end (%d found)' % len(solve), b.span)
        return

    def is_solve(e):
        return is_call(e, 'Problem::solve')

    n_opt = n_unb = 0
    for bb_, i, j, st in prune.constructions(F, 'PolytopeStatus', 'Optimal'):
        if bb_ is not b and bb_.qname != b.qname:
            continue
        n_opt += 1
        lits = literals(b, R, i)
        ok_arm = any(l[0] == 'is' and l[2] == frozenset(['Ok']) and is_solve(l[1]) for l in lits)
        v = R.rvalue(st['rv'], i, j)
        payload = v[2][0] if v[0] == 'agg' and v[2] else None
        good = False
        why = 'payload is not the solver\'s value of every variable in order'
        if payload is not None:
            x = payload
            if is_call(x, 'ArrayBase::from_iter') or is_call(x, 'ArrayBase::from_vec') or is_call(x, 'Iterator::collect'):
                x = x[2][0]
            if is_call(x, 'Iterator::collect'):
                x = x[2][0]
            if is_call(x, 'Iterator::map') and x[2][1][0] == 'closure':
                src, clo = x[2]
                cb = F.closure(clo[1])
                src_ok = src[0] == 'field' and src[2] == 'vars' and is_call(src[1], 'AffFuncBase::as_linprog')
                caps_ok = len(clo[2]) >= 1 and any(is_solve(c) for c in clo[2])
                rets = [e for _, e in Resolver(cb).return_expr()] if cb is not None else []
                ret_ok = len(rets) == 1 and is_call(rets[0], 'Index::index') and rets[0][2][0][0] == 'upvar' and rets[0][2][1][0] == 'param'
                good = src_ok and caps_ok and ret_ok
                if not src_ok:
                    why = 'the witness does not range over the variables of the encoded program (%s)' % fmt(src)[:80]
                elif not ret_ok:
                    why = 'a coordinate is not the solver\'s value of its own variable (%s)' % (fmt(rets[0])[:80] if rets else '?')
        site = 'AffFuncBase::solve_linprog#build:Optimal'
        fin = coordinate_guard(F, lits) == 'all-finite'
        if ok_arm and good and fin:
            ctx.ok(rule, site, 'Optimal only in the Ok arm and only for an all-finite answer, witness = (sol[var] for var in vars)', st['span'])
        elif ok_arm and good:
            ctx.bad(rule, site, 'an Ok answer with an infinite or NaN coordinate can be returned as an Optimal witness (no all-finite guard: %s)' % lit_str(lits), st['span'])
        else:
            ctx.bad(rule, site, 'Optimal is produced outside the Ok arm of the back-end' if not ok_arm else why, st['span'])
    for bb_, i, j, st in prune.constructions(F, 'PolytopeStatus', 'Unbounded'):
        if bb_.qname != b.qname:
            continue
        n_unb += 1
        lits = literals(b, R, i)
        err_arm = any(l[0] == 'is' and l[2] == frozenset(['Err']) and is_solve(l[1]) for l in lits) and \
            any(l[0] == 'is' and l[2] == frozenset(['Unbounded']) for l in lits)
        ok_arm = any(l[0] == 'is' and l[2] == frozenset(['Ok']) and is_solve(l[1]) for l in lits)
        site = 'AffFuncBase::solve_linprog#build:Unbounded:%s' % ('Err' if err_arm else 'Ok' if ok_arm else 'other')
        if err_arm:
            ctx.ok(rule, site, 'the back-end\'s Err(Unbounded)', st['span'])
            continue
        good = ok_arm and coordinate_guard(F, lits) == 'some-nonfinite'
        why = ('an Ok answer is reported as Unbounded although no coordinate is known to be infinite or NaN (guards: %s)' if ok_arm else
               'Unbounded is produced for a solver outcome other than Err(Unbounded) / a non-finite answer (guards: %s)') % lit_str(lits)
        if good:
            ctx.ok(rule, site, 'Ok answer with a coordinate that is infinite or NaN', st['span'])
        else:
            ctx.bad(rule, site, why, st['span'])
    if n_opt == 0:
        ctx.lost(rule, 'construction of PolytopeStatus::Optimal in solve_linprog')
    if n_unb == 0:
        ctx.lost(rule, 'construction of PolytopeStatus::Unbounded in solve_linprog')
    # Optimal / Unbounded / Infeasible are produced nowhere else in the crate (no second, unchecked classifier)
    for var in ('Optimal', 'Unbounded', 'Infeasible'):
        for bb_, i, j, st in prune.constructions(F, 'PolytopeStatus', var):
            if bb_.qname != b.qname:
                ctx.bad(rule, '%s#build:PolytopeStatus::%s' % (bb_.qname, var), 'a PolytopeStatus verdict is produced outside solve_linprog', st['span'])


def r3_is_feasible(ctx):
    rule = 'C10.R3'
    b = ctx.body(rule, 'AffFuncBase::is_feasible')
    if b is None:
        return
    R = Resolver(b)
    true_sets, false_sets, other = set(), set(), []
    from ..mir import value_table
    rows = []
    for v, lits, bb in value_table(b, R, 0):
        neg = False
        while v[0] == 'un' and v[1] == 'Not':
            neg = not neg
            v = v[2]
        if v[0] == 'phi' and len(v) > 2:
            # `!matches!(status, ..)`: the boolean is materialised in a temporary first
            for v2, lits2, bb2 in value_table(b, R, v[1]):
                if v2 in (('const', True), ('const', False)):
                    v2 = ('const', v2[1] != neg)
                rows.append((v2, list(lits2) + [l for l in lits if l not in lits2], bb2))
        else:
            if neg and v in (('const', True), ('const', False)):
                v = ('const', not v[1])
            rows.append((v, lits, bb))
    for v, lits, bb in rows:
        st = [l for l in lits if l[0] == 'is' and is_call(l[1], 'AffFuncBase::status') and l[1][2][0] == ('param', 'self')]
        if v == ('const', True) and st:
            true_sets |= set(st[0][2])
        elif v == ('const', False) and st:
            false_sets |= set(st[0][2])
        elif v[0] in ('phi', 'local'):
            continue
        else:
            other.append((v, lits))
    if other:
        ctx.bad(rule, 'AffFuncBase::is_feasible#table', 'is_feasible returns %s outside a match on status(self)' % fmt(other[0][0])[:80], b.span)
        return
    if false_sets == {'Infeasible'}:
        ctx.ok(rule, 'AffFuncBase::is_feasible#false', 'false exactly in the Infeasible arm of status(self)', b.span)
    else:
        ctx.bad(rule, 'AffFuncBase::is_feasible#false', 'is_feasible answers false for status %s (must be exactly Infeasible)' % sorted(false_sets), b.span)
    if {'Optimal', 'Unbounded'} <= true_sets and 'Infeasible' not in true_sets:
        ctx.ok(rule, 'AffFuncBase::is_feasible#true', 'true for Optimal and Unbounded', b.span)
    else:
        ctx.bad(rule, 'AffFuncBase::is_feasible#true', 'is_feasible answers true for status %s (must cover Optimal and Unbounded, not Infeasible)' % sorted(true_sets), b.span)


AX0 = ('agg', ('adt', 'Axis', 'Axis', ('0',)), (('const', 0),))
AX1 = ('agg', ('adt', 'Axis', 'Axis', ('0',)), (('const', 1),))


def cat(e, axis):
    """(parts) if e is concatenate(axis, [parts]) else None"""
    if e[0] == 'call' and e[1].split('::')[-1] == 'concatenate' and s(e[2][0]) == axis and e[2][1][0] == 'agg' and e[2][1][1] == 'array':
        return e[2][1][2]
    return None


def unchecked(e):
    """debug builds lower `a - 1` to a checked operation: (a SubWithOverflow 1).0"""
    if e[0] == 'field' and e[2] == '0' and e[1][0] == 'bin' and e[1][1].endswith('WithOverflow'):
        return ('bin', e[1][1][:-len('WithOverflow')], e[1][2], e[1][3])
    return e


def r4_chebyshev(ctx):
    from ..effects import assigns
    rule = 'C10.R4'
    q = 'AffFuncBase::chebyshev_center'
    b = ctx.body(rule, q)
    if b is None:
        return
    R = Resolver(b)
    rets = [e for _, e in R.return_expr()]
    if len(rets) != 1 or rets[0][0] != 'agg' or rets[0][1] != 'tuple' or len(rets[0][2]) != 2:
        ctx.undecided(rule, q + '#shape', 'the result is not a single (program, cost) pair built in place', b.span)
        return
    prog, cost = rets[0][2]
    SM, SB = ('field', ('param', 'self'), 'mat'), ('field', ('param', 'self'), 'bias')
    mat = bias = None
    if is_call(prog, 'AffFuncBase::from_mats'):
        mat, bias = prog[2]
    elif prog[0] == 'agg' and isinstance(prog[1], tuple) and prog[1][1] == 'AffFuncBase':
        mat, bias = prog[2][0], prog[2][1]
    if mat is None:
        ctx.undecided(rule, q + '#shape', 'the program is not built from a (matrix, bias) pair', b.span)
        return
    # matrix = vcat(hcat(A, norm), radius)
    top = cat(mat, AX0)
    inner = cat(top[0], AX1) if top and len(top) == 2 else None
    ok_m = bool(inner) and len(inner) == 2 and inner[0] == SM and is_call(inner[1], 'ArrayBase::zeros') and is_call(top[1], 'ArrayBase::zeros')
    if not ok_m:
        ctx.bad(rule, q + '#matrix', 'the constraint matrix is not [A | norm ; radius-row] (found %s)' % fmt(s(mat))[:160], b.span)
        return
    norm, radius = inner[1], top[1]
    nshape, rshape = s(norm[2][0]), s(radius[2][0])
    ok_shapes = nshape == ('agg', 'tuple', (('call', 'ArrayBase::len_of', (SM, AX0)), ('const', 1))) and \
        rshape[0] == 'agg' and rshape[2][0] == ('const', 1) and rshape[2][1] == ('call', 'ArrayBase::len_of', (s(top[0]), AX1))
    (ctx.ok if ok_shapes else ctx.bad)(rule, q + '#matrix', '[A | norm(m×1) ; radius(1×(n+1))]' if ok_shapes else
                                        'norm column / radius row have the wrong shape (%s, %s)' % (fmt(nshape)[:60], fmt(rshape)[:80]), b.span)
    # bias = [b ; 0]
    bp = cat(bias, AX0)
    ok_b = bool(bp) and len(bp) == 2 and bp[0] == SB and is_call(bp[1], 'ArrayBase::zeros') and s(bp[1][2][0]) == ('const', 1)
    (ctx.ok if ok_b else ctx.bad)(rule, q + '#bias', '[b ; 0]' if ok_b else 'the right-hand side is not [b ; 0] (found %s)' % fmt(s(bias))[:120], b.span)
    # cost = the radius row (same object)
    c = cost
    if is_call(c, 'ArrayBase::from_iter') or is_call(c, 'ArrayBase::from_vec'):
        c = c[2][0]
    ok_c = c == radius
    (ctx.ok if ok_c else ctx.bad)(rule, q + '#cost', 'cost = the coefficients of the r >= 0 row, i.e. minimise -r' if ok_c else
                                  'the cost vector is not the radius row (found %s)' % fmt(s(cost))[:120], b.span)
    # point writes
    item = None
    wn, wr, wother = [], [], []
    for w in assigns(b, R):
        t = w.target
        if t[0] == 'call' and t[1] == 'IndexMut::index_mut':
            base = t[2][0]
            if base == norm:
                wn.append(w)
            elif base == radius:
                wr.append(w)
            elif s(base) in (s(mat), s(top[0]), s(bias)) or base in (SM, SB):
                wother.append(w)
    for w in wother:
        ctx.bad(rule, q + '#extra-write', 'an entry of the program is overwritten after it was assembled: %s := %s' % (fmt(s(w.target))[:80], fmt(s(w.value))[:60]), b.blocks[w.bb]['term'].get('span', b.span) if isinstance(b.blocks[w.bb]['term'], dict) else b.span)
    cfg = b.cfg()
    # norm column
    good = False
    why = 'no write of the row norms'
    if len(wn) == 1:
        w = wn[0]
        idx = w.target[2][1]
        idx = idx[2] if idx[0] == 'agg' and idx[1] == 'array' else (idx,)
        nexts = [x for x in walk(w.value) if is_call(x, 'Iterator::next')]
        if not nexts:
            # the value does not mention the loop item directly (an accumulated sum): the item is the one the row index comes from
            nexts = [x for x in walk(idx) if is_call(x, 'Iterator::next')]
        it = nexts[0] if nexts else None
        src_ok = it is not None and is_call(it[2][0], 'enumerate') and is_call(it[2][0][2][0], 'ArrayBase::outer_iter', 'ArrayBase::rows', 'ArrayBase::axis_iter') and it[2][0][2][0][2][0] == SM
        if is_call(it[2][0][2][0], 'ArrayBase::axis_iter') if it is not None and src_ok else False:
            src_ok = s(it[2][0][2][0][2][1]) == AX0
        idx_ok = src_ok and len(idx) == 2 and idx[0] == ('field', it, '0') and idx[1] == ('const', 0)
        v = w.value
        val_ok = False
        if is_call(v, 'Float::sqrt', 'f64::sqrt') and is_call(v[2][0], 'ArrayBase::sum'):
            m = v[2][0][2][0]
            if is_call(m, 'ArrayBase::map', 'ArrayBase::mapv') and src_ok and m[2][0] == ('field', it, '1') and m[2][1][0] == 'closure':
                cb = ctx.facts.closure(m[2][1][1])
                cr = [e for _, e in Resolver(cb).return_expr()] if cb is not None else []
                if len(cr) == 1:
                    e = cr[0]
                    arg = ('param', cb.arg_names()[-1])
                    val_ok = (is_call(e, 'Float::powi', 'f64::powi') and e[2][0] == arg and e[2][1] == ('const', 2)) or \
                        (is_call(e, 'Mul::mul') and e[2][0] == arg and e[2][1] == arg) or (e[0] == 'bin' and e[1] == 'Mul' and e[2] == arg and e[3] == arg)
            elif is_call(m, 'ArrayBase::dot'):
                val_ok = False
        if not val_ok and is_call(v, 'Float::sqrt', 'f64::sqrt') and is_call(v[2][0], 'ArrayBase::dot') and src_ok:
            val_ok = v[2][0][2][0] == ('field', it, '1') and v[2][0][2][1] == ('field', it, '1')
        if not val_ok and src_ok:
            # any other spelling of the Euclidean norm (accumulator loop / fold, iterator map + sum, shared helper) of the same row
            from .prune import l2_norm_row
            val_ok = l2_norm_row(ctx.facts, b, R, v) == ('field', it, '1')
        lits = [l for l in literals(b, R, w.bb) if not (l[0] == 'is' and is_call(l[1], 'Iterator::next'))]
        good = src_ok and idx_ok and val_ok and not lits
        why = 'norm[i] is not the Euclidean norm of row i of A for every row (rows=%s index=%s value=%s unconditional=%s)' % (src_ok, idx_ok, val_ok, not lits)
    elif len(wn) > 1:
        why = 'the norm column is written at %d sites' % len(wn)
    else:
        # second idiom: the (single-column) norm array is swept together with the rows: for (entry, row) in zip(norm.iter_mut(), A.outer_iter()) { *entry = ‖row‖ }
        zw = []

        def unwrap_rows(x):
            return x[2][0] if is_call(x, 'ArrayBase::outer_iter_mut', 'ArrayBase::rows_mut', 'ArrayBase::iter_mut') and x[2] else x
        for w in assigns(b, R):
            t = w.target
            # `*entry = ..` or `cell[0] = ..` where entry / cell is one component of the zipped item
            if is_call(t, 'IndexMut::index_mut') and len(t[2]) == 2 and s(t[2][1]) in (('const', 0), ('agg', 'array', (('const', 0),))):
                t = t[2][0]
            if t[0] == 'field' and t[2] in ('0', '1') and is_call(t[1], 'Iterator::next') and is_call(t[1][2][0], 'zip', 'Iterator::zip'):
                k = int(t[2])
                if unwrap_rows(t[1][2][0][2][k]) == norm:
                    zw.append((w, t, k))
        if len(zw) == 1:
            w, tgt_, k_ = zw[0]
            it = tgt_[1]
            rows = it[2][0][2][1 - k_]
            src_ok = is_call(rows, 'ArrayBase::outer_iter', 'ArrayBase::rows', 'ArrayBase::axis_iter') and rows[2][0] == SM and \
                (not is_call(rows, 'ArrayBase::axis_iter') or s(rows[2][1]) == AX0)
            v = w.value
            val_ok = False
            if is_call(v, 'Float::sqrt', 'f64::sqrt') and is_call(v[2][0], 'ArrayBase::sum'):
                m = v[2][0][2][0]
                if is_call(m, 'ArrayBase::map', 'ArrayBase::mapv') and m[2][0] == ('field', it, str(1 - k_)) and m[2][1][0] == 'closure':
                    cb = ctx.facts.closure(m[2][1][1])
                    cr = [e for _, e in Resolver(cb).return_expr()] if cb is not None else []
                    if len(cr) == 1:
                        e = cr[0]
                        arg = ('param', cb.arg_names()[-1])
                        val_ok = (is_call(e, 'Float::powi', 'f64::powi') and e[2][0] == arg and e[2][1] == ('const', 2)) or \
                            (is_call(e, 'Mul::mul') and e[2][0] == arg and e[2][1] == arg) or (e[0] == 'bin' and e[1] == 'Mul' and e[2] == arg and e[3] == arg)
            lits = [l for l in literals(b, R, w.bb) if not (l[0] == 'is' and is_call(l[1], 'Iterator::next')) and not (l[0] == 'true' and l[1][0] == 'bin' and l[1][1] == 'Lt')]
            good = src_ok and val_ok and not lits
            why = 'norm[i] is not the Euclidean norm of row i of A for every row (rows=%s value=%s unconditional=%s)' % (src_ok, val_ok, not lits)
    (ctx.ok if good else ctx.bad)(rule, q + '#norms', 'norm[i, 0] = sqrt(sum_j A[i, j]^2) for every row i' if good else why, b.span)
    # radius row
    good = False
    why = 'no write of the radius coefficient'
    if len(wr) == 1:
        w = wr[0]
        idx = w.target[2][1]
        idx = idx[2] if idx[0] == 'agg' and idx[1] == 'array' else (idx,)
        ncols1 = [('call', 'ArrayBase::len_of', (s(top[0]), AX1)), ('call', 'ArrayBase::ncols', (s(top[0]),))]
        ncols = [('call', 'ArrayBase::len_of', (SM, AX1)), ('call', 'ArrayBase::ncols', (SM,))]
        col = unchecked(s(idx[1])) if len(idx) == 2 else None
        idx_ok = len(idx) == 2 and idx[0] == ('const', 0) and (col in ncols or (col[0] == 'bin' and col[1] == 'Sub' and col[2] in ncols1 and col[3] == ('const', 1)))
        v = s(w.value)
        val_ok = v in (('call', 'Neg::neg', (('call', 'One::one', ()),)), ('const', -1.0), ('un', 'Neg', ('call', 'One::one', ())), ('un', 'Neg', ('const', 1.0)))
        uncond = cfg.postdominates(w.bb, 0)
        good = idx_ok and val_ok and uncond
        why = 'the last row is not "-r <= 0" on the radius column (index=%s value=%s unconditional=%s)' % (idx_ok, val_ok, uncond)
    elif len(wr) > 1:
        why = 'the radius row is written at %d sites' % len(wr)
    (ctx.ok if good else ctx.bad)(rule, q + '#radius', 'radius[0, n] = -1 (r >= 0; cost -r)' if good else why, b.span)


def run(ctx):
    from . import c03
    c03.lp_encoding(ctx, 'C10.R1')
    prune.check_infeasible_provenance(ctx, 'C10.R2', node_states=False)
    r2_outcomes(ctx)
    r3_is_feasible(ctx)
    r4_chebyshev(ctx)

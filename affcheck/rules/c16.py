"""C16 — affine functions obey their algebra and named constructors their names (exact arithmetic)."""
from ..mir import Callee, Resolver, fmt, literals, walk, strip_sites as s
from ..kernel import Kernel, Poly, Block, Aff, symaff, OutOfFragment, kernel_return, kernel_return_soft, index_writes
from . import prune
from . import helpers
from .prune import is_call

LEVEL = 'proof'
TECHNIQUE = 'static analysis: value numbering of MIR def-use DAGs to non-commutative polynomial normal forms, compared with the documented formula (nothing executed)'
RULES = {
    'C16.R7': 'row(i) accepts exactly the row indices below the output dimension: the guard is `row < self.outdim()`',
    'C16.R6': 'the exported macro aff! builds the function its input spells (entries in written order, no sign change), arm by arm',
    'C16.R5': 'dimension guards of compose / stack assert an equality the result needs (columns of the left factor = rows of the right one; equal input dimensions for stacked outputs)',
    'C16.R4': helpers.RULE_TEXT,
    'C16.R1': 'kernel identities: apply, apply_transpose, compose, stack, negate, row/row_iter (same row index), remove_zero_columns (bias untouched), '
              'as_polytope/as_function/new/view/to_owned (field-wise), convert_to per PolyRepr arm',
    'C16.R3': 'row selection: remove_rows / remove_zero_rows return a sub-sequence of the unchanged (row i, bias i) pairs of self; remove_zero_rows drops a row only if all its coefficients and its bias are zero ; from_row_iter copies item i to row i / bias i (shared with C15.R1/R3)',
    'C16.R2': 'named constructors: identity, zeros, constant, unit, zero_idx, sum, subtraction, rotation, scaling, uniform_scaling, translation',
}
CONTROL_REV = '078b142'  # thorough tier: the rules must still report the defects found (and since fixed) on the original tree
CONTROLS = [('C16.R2', 'AffFuncBase::translation'), ('C16.R2', 'AffFuncBase::subtraction#aliasing')]
FLOORS = {'C16.R7': 1, 'C16.R6': 2, 'C16.R5': 2, 'C16.R4': 5, 'C16.R1': 36, 'C16.R2': 12, 'C16.R3': 4}
EXPLANATION = ('Each kernel is single-path; its returned value is a polynomial in the operands, and polynomial identities over matrices of all sizes are decidable by '
               'normal-form comparison. Constructor forms (base matrix + point writes) are compared entry-wise with the documented meaning.')
DOES_NOT_DECIDE = 'from_row_iter/remove_rows iterator plumbing (C15), % semantics beyond element-wise, floating-point rounding'
TRUSTED = ['semantics of ndarray dot/+/-/neg/t/concatenate/eye/zeros/ones/from_diag/from_elem as interpreted in affcheck/kernel.py']

ZERO, ONE = Poly.zero(), Poly.const(1)


def obligation(ctx, rule, F, q, spec, impl_filter=None, site=None):
    """spec(env) -> expected symbolic value; env binds the kernel's parameters."""
    bodies = F.qs(q)
    if impl_filter:
        bodies = [b for b in bodies if impl_filter(b)]
    if len(bodies) != 1:
        ctx.lost(rule, q) if not bodies else ctx.add(rule, 'anchor:' + q, None, 'ambiguous kernel %s' % q)
        return
    b = bodies[0]
    site = site or q
    try:
        R, ret = kernel_return(F, b)
        K = Kernel(F)
        env = {}
        for n in b.arg_names():
            env[n] = symaff(n) if n in ('self', 'other', 'func', 'aff', 'original', 'context') else Poly.atom(n)
        got = K.ev(ret, env)
        want = spec(env)
        if got == want:
            ctx.ok(rule, site, 'normal form equals the documented formula: %r' % (got,), b.span)
        else:
            ctx.bad(rule, site, 'kernel differs from its documented formula: implementation %r, specification %r' % (got, want), b.span)
    except OutOfFragment as e:
        ctx.undecided(rule, site, 'OUT-OF-FRAGMENT: %s' % e, b.span)


def run(ctx):
    helpers.run_for(ctx)
    prune.check_index_guards(ctx, 'C16.R7', ['AffFuncBase::row'], dim_of={'AffFuncBase::row': 'AffFuncBase::outdim'})
    prune.check_macro_arms(ctx, 'C16.R6', ['aff_matrix_plus_vector', 'aff_row_plus_scalar'])
    prune.check_dimension_guards(ctx, 'C16.R5', ['AffFuncBase::stack', 'AffFuncBase::compose'])
    prune.check_wrappers(ctx, 'C16.R1', {'AffFuncBase::matrix_view': ('self.mat', [], 'a view of the matrix'), 'AffFuncBase::bias_view': ('self.bias', [], 'a view of the bias')})
    prune.check_layout_independence(ctx, 'C16.R1')
    F = ctx.facts
    fn = lambda b: 'FunctionT' in (b.impl_self or '')
    A = lambda env, n='self': env[n]
    x = Poly.atom('input')
    obligation(ctx, 'C16.R1', F, 'AffFuncBase::apply', lambda e: e['self'].mat * e['input'] + e['self'].bias)
    obligation(ctx, 'C16.R1', F, 'AffFuncBase::apply_transpose', lambda e: e['self'].mat.T() * e['input'] - e['self'].mat.T() * e['self'].bias)
    obligation(ctx, 'C16.R1', F, 'AffFuncBase::compose',
               lambda e: Aff(e['self'].mat * e['other'].mat, e['self'].mat * e['other'].bias + e['self'].bias))
    obligation(ctx, 'C16.R1', F, 'AffFuncBase::stack',
               lambda e: Aff(Block([e['self'].mat, e['other'].mat]), Block([e['self'].bias, e['other'].bias])))
    obligation(ctx, 'C16.R1', F, 'AffFuncBase::negate', lambda e: Aff(-e['self'].mat, -e['self'].bias))
    for q, p in (('AffFuncBase::as_polytope', 'self'), ('AffFuncBase::as_function', 'self'), ('AffFuncBase::new', 'aff'),
                 ('AffFuncBase::view', 'self'), ('AffFuncBase::to_owned', 'self')):
        obligation(ctx, 'C16.R1', F, q, lambda e, p=p: Aff(e[p].mat, e[p].bias))
    # from_mats keeps its arguments
    obligation(ctx, 'C16.R1', F, 'AffFuncBase::from_mats', lambda e: Aff(e['mat'], e['bias']))
    # element-wise operators of AffFunc (+, -, *, /, %, unary minus in every ownership form): rule shared with C07.R4
    from ..core import Ctx
    from . import c07
    sub = Ctx(ctx.facts, ctx.tier, ctx.prop)
    c07.run(sub)
    for i in sub.insts:
        if i.rule == 'C07.R4':
            i.rule = 'C16.R1'
            ctx.insts.append(i)
    # row selection (remove_rows, remove_zero_rows): kept rows are unchanged (row, bias) pairs of self, and only rows that constrain / output nothing
    # are dropped by remove_zero_rows: rules shared with C15.R1 / C15.R3
    from . import c15
    sub = Ctx(ctx.facts, ctx.tier, ctx.prop)
    c15.run(sub)
    for i in sub.insts:
        if i.rule in ('C15.R1', 'C15.R3') and (i.site.startswith('AffFuncBase::remove_rows') or i.site.startswith('AffFuncBase::remove_zero_rows') or
                                              i.site.startswith('AffFuncBase::from_row_iter')):
            i.rule = 'C16.R3'
            ctx.insts.append(i)
    convert_to(ctx, F)
    rows(ctx, F)
    constructors(ctx, F)
    slice_ctor(ctx, F)


def convert_to(ctx, F):
    b = ctx.body('C16.R1', 'AffFuncBase::convert_to')
    if b is None:
        return
    R = Resolver(b)
    K = Kernel(F)
    env = {'self': symaff('self')}
    A_, b_ = env['self'].mat, env['self'].bias
    want = {
        'MatrixLeqBias': Aff(A_, b_),          # f = (A, b)
        'MatrixBiasLeqZero': Aff(A_, -b_),     # f(x) = Ax - b = -r(x)
        'MatrixGeqBias': Aff(-A_, -b_),        # -Ax >= -b
        'MatrixBiasGeqZero': Aff(-A_, b_),     # f(x) = b - Ax = r(x)
    }
    seen = set()
    for i, j, st in b.stmts():
        if st['k'] == 'assign' and st['place']['local'] == 0 and not st['place']['proj']:
            v = R.rvalue(st['rv'], i, j)
            lits = [l for l in literals(b, R, i) if l[0] == 'is' and l[1] == ('param', 'repr')]
            if not lits or len(lits[0][2]) != 1:
                ctx.undecided('C16.R1', 'AffFuncBase::convert_to#arm', 'result not inside a single PolyRepr arm', st['span'])
                continue
            arm = list(lits[0][2])[0]
            seen.add(arm)
            got = K.ev(v, env)
            site = 'AffFuncBase::convert_to#' + arm
            if got == want.get(arm):
                ctx.ok('C16.R1', site, '%s -> %r' % (arm, got), st['span'])
            else:
                ctx.bad('C16.R1', site, 'PolyRepr::%s converts to %r, documented meaning requires %r' % (arm, got, want.get(arm)), st['span'])
    for arm in want:
        if arm not in seen:
            ctx.lost('C16.R1', 'convert_to arm ' + arm)


def rows(ctx, F):
    b = ctx.body('C16.R1', 'AffFuncBase::row')
    if b is not None:
        R, ret = kernel_return_soft(F, b)
        ok = is_call(ret, 'AffFuncBase::from_mats')
        if ok:
            m, bi = ret[2]
            rm = [x for x in walk(m) if is_call(x, 'ArrayBase::row')]
            okm = rm and rm[0][2][0] == ('field', ('param', 'self'), 'mat') and rm[0][2][1] == ('param', 'row')
            sl = [x for x in walk(bi) if is_call(x, 'ArrayBase::slice')]
            okb = sl and sl[0][2][0] == ('field', ('param', 'self'), 'bias') and any(x == ('agg', 'array', (('param', 'row'),)) for x in walk(sl[0][2][1]))
            ok = okm and okb
        (ctx.ok if ok else ctx.bad)('C16.R1', 'AffFuncBase::row', 'row r of the matrix with element r of the bias' if ok else 'row() pairs a matrix row with a different bias element: %s' % fmt(ret)[:200], b.span)
    b = ctx.body('C16.R1', 'AffFuncBase::row_iter')
    if b is not None:
        R, ret = kernel_return_soft(F, b)
        ok = is_call(ret, 'Iterator::map') and is_call(ret[2][0], 'Iterator::zip') and \
            ret[2][0][2][0] == ('call', 'ArrayBase::outer_iter', (('field', ('param', 'self'), 'mat'),), ret[2][0][2][0][3]) and \
            ret[2][0][2][1][:3] == ('call', 'ArrayBase::outer_iter', (('field', ('param', 'self'), 'bias'),))
        if ok:
            cb, crets = prune.closure_ret(F, ret[2][1])
            ok = bool(crets) and is_call(crets[0], 'AffFuncBase::from_mats') and \
                any(x == ('field', ('param', cb.arg_names()[1]), '0') for x in walk(crets[0][2][0])) and \
                any(x == ('field', ('param', cb.arg_names()[1]), '1') for x in walk(crets[0][2][1]))
        (ctx.ok if ok else ctx.bad)('C16.R1', 'AffFuncBase::row_iter', 'zips matrix rows with bias elements in order; item = from_mats(row, bias)' if ok else 'row_iter does not pair row i with bias i', b.span)
    b = ctx.body('C16.R1', 'AffFuncBase::remove_zero_columns')
    if b is not None:
        R, ret = kernel_return_soft(F, b)
        ok = is_call(ret, 'AffFuncBase::from_mats') and ret[2][1] == ('field', ('param', 'self'), 'bias') and \
            any(is_call(x, 'ArrayBase::axis_iter') and x[2][0] == ('field', ('param', 'self'), 'mat') and x[2][1][2] == (('const', 1),) for x in walk(ret[2][0])) and \
            is_call(ret[2][0], 'stack') and ret[2][0][2][0][2] == (('const', 1),)
        if not ok and is_call(ret, 'AffFuncBase::from_mats') and ret[2][1] == ('field', ('param', 'self'), 'bias') and is_call(ret[2][0], 'stack') and ret[2][0][2][0][2] == (('const', 1),):
            # the kept columns are pushed in a loop over the columns of self.mat instead of being filtered by an iterator chain
            els = prune.vec_elements(F, b, R, ret[2][0][2][1]) or []
            ok = bool(els) and all(is_call(e, 'Iterator::next') and is_call(e[2][0], 'ArrayBase::axis_iter') and e[2][0][2][0] == ('field', ('param', 'self'), 'mat')
                                   and e[2][0][2][1][2] == (('const', 1),) for e in els)
        (ctx.ok if ok else ctx.bad)('C16.R1', 'AffFuncBase::remove_zero_columns', 'keeps a subsequence of the columns, bias untouched' if ok else 'remove_zero_columns changes the bias or does not re-stack columns', b.span)
        # which columns go: exactly those whose entries are all zero (a column with one non-zero coefficient still contributes to the function)
        site = 'AffFuncBase::remove_zero_columns#predicate'
        flt = [x for x in walk(ret) if is_call(x, 'Iterator::filter') and len(x[2]) == 2 and x[2][1][0] == 'closure'] if ok else []
        verdict = None
        if len(flt) == 1:
            from ..absint import Interp, Unknown, ROW
            cb = F.closure(flt[0][2][1][1])
            try:
                table = {az: Interp(F, cb, {cb.arg_count: ROW}, az, 0).run() for az in (True, False)} if cb is not None else None
            except Unknown as e:
                table = None
                verdict = 'predicate outside the abstract domain {all entries zero, some entry non-zero}: %s' % e
            if table is not None:
                verdict = True if table == {True: False, False: True} else 'a column is kept / dropped on another test than "some entry is non-zero": all-zero -> %s, not all-zero -> %s' % (
                    'kept' if table[True] else 'dropped', 'kept' if table[False] else 'dropped')
        elif ok:
            # loop form: the push of a column is guarded by any(nonzero) / !all(zero)
            from ..absint import Interp
            it = Interp(F, b, {}, False, 0)
            for bb, t in b.calls():
                c = Callee(t['func'])
                if c.name == 'push' and c.self_base == 'Vec':
                    for l in literals(b, R, bb):
                        e = l[1]
                        if is_call(e, 'Iterator::any', 'Iterator::all') and len(e[2]) == 2 and e[2][1][0] == 'closure':
                            kind = it.element_predicate(F.closure(e[2][1][1]))
                            if (is_call(e, 'Iterator::any') and kind == 'nonzero' and l[0] == 'true') or (is_call(e, 'Iterator::all') and kind == 'zero' and l[0] == 'false'):
                                verdict = True
        if verdict is True:
            ctx.ok('C16.R1', site, 'a column is dropped exactly when all its entries are zero', b.span)
        elif ok:
            (ctx.bad if isinstance(verdict, str) and verdict.startswith('a column') else ctx.undecided)('C16.R1', site, verdict or 'column predicate not found', b.span)


def shape_of(e):
    """`shape(X)[i]` / `X.dim().i` / nrows / ncols / len_of(X, Axis(i)) / len(v) for X built by eye, zeros, ones, from_elem, from_diag -> that
    dimension expression; anything else unchanged"""
    e0 = e
    e = s(e)
    axis = None
    X = None
    if e[0] == 'index' and is_call(e[1], 'ArrayBase::shape') and e[2][0] == 'const':
        X, axis = e[1][2][0], e[2][1]
    elif e[0] == 'field' and is_call(e[1], 'ArrayBase::dim') and e[2].isdigit():
        X, axis = e[1][2][0], int(e[2])
    elif is_call(e, 'ArrayBase::nrows'):
        X, axis = e[2][0], 0
    elif is_call(e, 'ArrayBase::ncols'):
        X, axis = e[2][0], 1
    elif is_call(e, 'ArrayBase::len_of') and e[2][1][0] == 'agg' and e[2][1][2] and e[2][1][2][0][0] == 'const':
        X, axis = e[2][0], e[2][1][2][0][1]
    if X is None:
        return e0
    if is_call(X, 'ArrayBase::eye') and axis in (0, 1):
        return X[2][0]
    if is_call(X, 'ArrayBase::zeros', 'ArrayBase::ones', 'ArrayBase::from_elem') and X[2][0][0] == 'agg' and X[2][0][1] == 'tuple' and axis < len(X[2][0][2]):
        return X[2][0][2][axis]
    if is_call(X, 'ArrayBase::zeros', 'ArrayBase::ones', 'ArrayBase::from_elem') and axis == 0 and X[2][0][0] != 'agg':
        return X[2][0]
    if is_call(X, 'ArrayBase::from_diag') and axis in (0, 1):
        return ('index', ('call', 'ArrayBase::shape', (X[2][0],)), ('const', 0))
    return e0


def constructors(ctx, F):
    """constructor forms: (base, point writes) for matrix and bias"""
    Z = lambda *a: ('zeros',)
    one = ('call', 'One::one', ())
    zero = ('call', 'Zero::zero', ())

    def form(b):
        R, ret = kernel_return_soft(F, b)
        if is_call(ret, 'AffFuncBase::scaling'):
            # uniform_scaling delegates
            return R, ret, None
        if not is_call(ret, 'AffFuncBase::from_mats'):
            raise OutOfFragment('not a from_mats constructor')
        m, bi = ret[2]
        return R, ret, (m, index_writes(b, R, m), bi, index_writes(b, R, bi))

    def base(e):
        if is_call(e, 'ArrayBase::zeros'):
            return ('zeros', e[2][0])
        if is_call(e, 'ArrayBase::ones'):
            return ('ones', e[2][0])
        if is_call(e, 'ArrayBase::eye'):
            return ('eye', e[2][0])
        if is_call(e, 'ArrayBase::from_diag'):
            return ('diag', e[2][0])
        if is_call(e, 'ArrayBase::from_elem'):
            return ('elem', e[2][0], e[2][1])
        if is_call(e, 'arr1'):
            return ('arr1', e[2][0])
        if e[0] == 'param':
            return ('param', e[1])
        return ('other', e)

    def strip(v):
        return s(v)

    P = lambda n: ('param', n)
    T2 = lambda a, b: ('agg', 'tuple', (a, b))
    C = lambda v: ('const', v)
    specs = {
        # name: (matrix base, matrix writes, bias base, bias writes, meaning)
        'identity': (('eye', P('dim')), [], ('zeros', P('dim')), [], 'f(x) = x'),
        'zeros': (('zeros', T2(P('dim'), P('dim'))), [], ('zeros', P('dim')), [], 'f(x) = 0'),
        'constant': (('zeros', T2(C(1), P('dim'))), [], ('arr1', ('agg', 'array', (P('value'),))), [], 'f(x) = value'),
        'unit': (('zeros', T2(C(1), P('dim'))), [((C(0), P('index')), 'one')], ('zeros', C(1)), [], 'f(x) = x[index]'),
        'zero_idx': (('eye', P('dim')), [((P('index'), P('index')), 'zero')], ('zeros', P('dim')), [], 'x with component index zeroed'),
        'sum': (('ones', T2(C(1), P('dim'))), [], ('zeros', C(1)), [], 'f(x) = sum x'),
        'subtraction': (('zeros', T2(C(1), P('dim'))), [((C(0), P('left')), 'one'), ((C(0), P('right')), 'negone')], ('zeros', C(1)), [], 'f(x) = x[left] - x[right]'),  # contributions; 'acc-*' writes count as their contribution
        'rotation': (('param', 'rotator'), [], ('zeros', None), [], 'f(x) = R x'),
        'scaling': (('diag', P('scalars')), [], ('zeros', None), [], 'f(x) = diag(s) x'),
        'translation': (('eye', P('dim')), [], ('param', 'offset'), [], 'f(x) = x + offset'),
    }

    def acc_kind(idx, v, base_e):
        """`m[idx] = m[idx] + c` / `m[idx] - c`: an accumulating write ('acc-one' / 'acc-negone'), else None"""
        for nm, pos, neg in (('Add::add', 'acc-one', 'acc-negone'), ('Sub::sub', 'acc-negone', 'acc-one')):
            if is_call(v, nm):
                a, c = v[2]
                if nm == 'Add::add' and not is_call(a, 'Index::index'):
                    a, c = c, a
                if is_call(a, 'Index::index') and s(a[2][0]) == s(base_e):
                    ri = a[2][1]
                    ri = ri[2] if ri[0] == 'agg' and ri[1] == 'array' else (ri,)
                    if tuple(s(x) for x in ri) == tuple(s(x) for x in idx):
                        k = val_kind(s(c))
                        if k == 'one':
                            return pos
                        if k == 'negone':
                            return neg
        return None

    def may_alias(i1, i2):
        """index tuples that are not provably different (two different constants in one position)"""
        if len(i1) != len(i2):
            return True
        return not any(a[0] == 'const' and b_[0] == 'const' and a[1] != b_[1] for a, b_ in zip(i1, i2))

    def val_kind(v):
        if v == one:
            return 'one'
        if v == zero:
            return 'zero'
        if is_call(v, 'Neg::neg') and v[2][0][:3] == one[:3]:
            return 'negone'
        if v[0] == 'const':
            return v[1]
        return fmt(v)

    for name, (mb, mw, bb_, bw, meaning) in specs.items():
        b = ctx.body('C16.R2', 'AffFuncBase::' + name, path_contains='FunctionT')
        if b is None:
            continue
        site = 'AffFuncBase::' + name
        try:
            R, ret, f = form(b)
            m, mwr, bi, bwr = f
            gm = base(m)
            gb = base(bi)
            # the length of the bias read off the matrix it belongs to (`zeros(linear_part.shape()[0])` in a shared helper): the number of rows
            # of a matrix built by a known constructor
            gb = tuple(shape_of(x) if isinstance(x, tuple) else x for x in gb) if isinstance(gb, tuple) else gb
            # overwriting point writes are the documented sum of contributions only if no later plain write can hit an entry written before
            cfgb = b.cfg()
            plain = [(tuple(s(i) for i in idx), bb2, acc_kind(idx, v, m)) for idx, v, bb2 in mwr]
            if len(plain) > 1:
                clash = []
                for (i1, b1, a1) in plain:
                    for (i2, b2, a2) in plain:
                        if b1 != b2 and a2 is None and may_alias(i1, i2) and not cfgb.dominates(b2, b1):
                            clash.append((i1, i2))
                if clash:
                    ctx.bad('C16.R2', site + '#aliasing', 'the entry written at [%s] is overwritten (not accumulated) by the later write at [%s]: when the two indices coincide the result is not "%s"'
                            % (', '.join(fmt(x) for x in clash[0][0]), ', '.join(fmt(x) for x in clash[0][1]), meaning), b.span)
                else:
                    ctx.ok('C16.R2', site + '#aliasing', 'point writes with possibly coinciding indices accumulate', b.span)
            mwr = [(idx, (('const', acc_kind(idx, v, m)) if acc_kind(idx, v, m) else v), bb2) for idx, v, bb2 in mwr]
            gmw = sorted([(tuple(s(i) for i in idx), val_kind(strip_call_site(v))) for idx, v, _ in mwr], key=str)
            gbw = sorted([(tuple(s(i) for i in idx), val_kind(strip_call_site(v))) for idx, v, _ in bwr], key=str)
            gmw = sorted([(i_, {'acc-one': 'one', 'acc-negone': 'negone'}.get(k, k)) for i_, k in gmw], key=str)
            want_mw = sorted([(tuple(s(i) for i in idx), k) for idx, k in mw], key=str)
            okm = (s(gm) == s(mb)) and gmw == want_mw
            if bb_[0] == 'zeros' and bb_[1] is None:
                okb = gb[0] == 'zeros' and not gbw
            else:
                okb = s(gb) == s(bb_) and not gbw
            if okm and okb:
                ctx.ok('C16.R2', site, '%s: matrix %s%s, bias %s' % (meaning, gm[0], ' + writes %s' % gmw if gmw else '', gb[0]), b.span)
            else:
                ctx.bad('C16.R2', site, 'constructor does not build "%s": matrix base %s writes %s (expected %s %s); bias %s (expected %s)'
                        % (meaning, fmtb(gm), gmw, fmtb(mb), want_mw, fmtb(gb), fmtb(bb_)), b.span)
        except OutOfFragment as e:
            ctx.undecided('C16.R2', site, 'OUT-OF-FRAGMENT: %s' % e, b.span)
    # scaling(s): the bias has one entry per scalar -- zeros(len(s)) in any spelling of the length of the 1-D parameter
    b = ctx.body('C16.R2', 'AffFuncBase::scaling')
    if b is not None:
        R, ret = kernel_return_soft(F, b)
        okl = False
        if is_call(ret, 'AffFuncBase::from_mats') and is_call(ret[2][1], 'ArrayBase::zeros'):
            ln = s(shape_of(ret[2][1][2][0]))     # a length read off the matrix it belongs to (rows of from_diag(s)) is the length of s
            SC = ('param', 'scalars')
            okl = ln in (('index', ('call', 'ArrayBase::shape', (SC,)), ('const', 0)), ('call', 'ArrayBase::len', (SC,)), ('call', 'ArrayBase::nrows', (SC,)),
                         ('call', 'ArrayBase::dim', (SC,)), ('call', 'ArrayBase::len_of', (SC, ('agg', ('adt', 'Axis', 'Axis', ('0',)), (('const', 0),)))),
                         ('call', 'ArrayBase::raw_dim', (SC,)))
        (ctx.ok if okl else ctx.bad)('C16.R2', 'AffFuncBase::scaling#bias-length', 'bias = zeros(number of scalars)' if okl else 'the bias of scaling(s) is not zeros(len(s))', b.span)
    # uniform_scaling(dim, s) = scaling(from_elem(dim, s))
    b = ctx.body('C16.R2', 'AffFuncBase::uniform_scaling')
    if b is not None:
        R, ret = kernel_return_soft(F, b)
        ok = is_call(ret, 'AffFuncBase::scaling') and is_call(ret[2][0], 'ArrayBase::from_elem') and ret[2][0][2] == (('param', 'dim'), ('param', 'scalar'))
        (ctx.ok if ok else ctx.bad)('C16.R2', 'AffFuncBase::uniform_scaling', 'scaling(from_elem(dim, scalar))' if ok else 'uniform_scaling is not scaling by the constant vector: %s' % fmt(ret), b.span)


def slice_ctor(ctx, F):
    """slice(ref): f(x)[i] = x[i] where ref[i] is NaN, ref[i] otherwise: matrix diag(mask) with mask 1 on NaN / 0 else, bias 0 on NaN / ref else."""
    b = ctx.body('C16.R2', 'AffFuncBase::slice')
    if b is None:
        return
    R, ret = kernel_return_soft(F, b)
    ok = is_call(ret, 'AffFuncBase::from_mats') and is_call(ret[2][0], 'ArrayBase::from_diag') and is_call(ret[2][0][2][0], 'ArrayBase::map') and is_call(ret[2][1], 'ArrayBase::map') \
        and ret[2][0][2][0][2][0] == ('param', 'reference_point') and ret[2][1][2][0] == ('param', 'reference_point')
    tables = []
    if ok:
        for clo in (ret[2][0][2][0][2][1], ret[2][1][2][1]):
            cb = F.closure(clo[1])
            Rc = Resolver(cb)
            tab = {}
            from ..mir import ret_defs
            for i, v, _sp in ret_defs(cb, Rc):
                nan = [l[0] for l in literals(cb, Rc, i) if is_call(l[1], 'Float::is_nan')]
                if nan:
                    tab[nan[0]] = 'one' if is_call(v, 'One::one') else ('zero' if is_call(v, 'Zero::zero') else ('x' if v[0] == 'param' else fmt(v)))
            tables.append(tab)
        ok = tables == [{'true': 'one', 'false': 'zero'}, {'true': 'zero', 'false': 'x'}]
    (ctx.ok if ok else ctx.bad)('C16.R2', 'AffFuncBase::slice', 'diag(1 where NaN else 0) x + (0 where NaN else ref): NaN axes are kept, the others fixed' if ok else
                                'slice does not keep exactly the NaN axes and fix the others to the reference value: %s' % tables, b.span)


def strip_call_site(v):
    return s(v) if isinstance(v, tuple) else v


def fmtb(x):
    if x[0] in ('zeros', 'ones', 'eye', 'diag', 'arr1'):
        return '%s(%s)' % (x[0], fmt(x[1]) if x[1] else '..')
    if x[0] == 'param':
        return x[1]
    if x[0] == 'elem':
        return 'from_elem(%s, %s)' % (fmt(x[1]), fmt(x[2]))
    return fmt(x[1]) if len(x) > 1 else str(x)

"""Contracts of the small read accessors every other rule interprets *by name*.

The rules of C03/C04/C06/C12/C13/... read `tree.is_leaf(n)`, `tree.children(n)`, `aff.indim()`, `TraversalIter::next` ... as the
operation their name says.  That is a trusted-name assumption unless the accessor's own body is checked; this module checks it.

Two engines:
 * `caseinterp` — the body is walked under every case of an exhaustive partition of its inputs (an index is an atom, a slot is empty or
   holds an atom, a node is / is not in the arena) and the returned model value is compared with the contract's value for that case;
 * iterator pipelines — `iter / enumerate / map / filter / filter_map / ..` build a symbolic pipeline value; its meaning is decided
   element by element, again over the cases of one element.

A body outside the fragment gives `undecided` (fail closed), never `holds`.
"""
from ..caseinterp import (pipe_outputs, CaseInterp, Unknown, Panic, PANIC, NONE, UNIT, atom, some, ok, err, struct, run_case, loosely, equal, is_opt,
                          is_res)

TREE = 'tree::graph::Tree'
NODE = 'tree::graph::TreeNode'
EDGE = 'tree::graph::EdgeReference'
NODEREF = 'tree::graph::NodeReference'

A, B, C, L, V = atom('A'), atom('B'), atom('C'), atom('L'), atom('V')


def node(tag, parent=NONE, isleaf=True, children=None):
    return struct(NODE, value=atom('value_of_' + tag), parent=parent, isleaf=isleaf,
                  children=children if children is not None else ('array', {}, NONE))


def arena(**nodes):
    return ('array', dict(nodes), PANIC)


def tree(root=NONE, **nodes):
    return struct(TREE, root=root, arena=arena(**nodes))


def slab_externals(log=None):
    def get(a):
        arr, key = a[0], a[1]
        if not (isinstance(arr, tuple) and arr[:1] == ('array',) and isinstance(key, tuple) and key[:1] == ('atom',)):
            raise Unknown('Slab::get on %r' % (arr[:1] if isinstance(arr, tuple) else arr,))
        return some(arr[1][key[1]]) if key[1] in arr[1] else NONE

    def contains(a):
        return get(a) != NONE
    def length(a):
        return ('len', a[0])

    def is_empty(a):
        if isinstance(a[0], tuple) and a[0][:1] == ('array',):
            return not a[0][1]
        raise Unknown('emptiness of %r' % (a[0],))
    def get2(a):
        x, y = get([a[0], a[1]]), get([a[0], a[2]])
        if a[1] == a[2]:
            raise Panic()
        return some(('tuple', [x[1], y[1]])) if x != NONE and y != NONE else NONE
    return {'Slab::get': get, 'Slab::get_mut': get, 'Slab::contains': contains, 'Slab::len': length, 'Slab::is_empty': is_empty, 'Slab::get2_mut': get2}


def is_err(v):
    return isinstance(v, tuple) and v[:1] == ('err',)


def same(got, want):
    """compare a returned model value with the contract's; `('err', None)` accepts any error value"""
    got = loosely(got)
    if want == ('err', None):
        return is_err(got)
    if isinstance(want, tuple) and want[:1] == ('struct',) and isinstance(got, tuple) and got[:1] == ('struct',):
        return got[1] == want[1] and all(k in got[2] and same(got[2][k], w) for k, w in want[2].items())
    if isinstance(want, tuple) and want[:1] == ('enum',) and isinstance(got, tuple) and got[:1] == ('enum',):
        return got[1] == want[1] and got[2] == want[2] and all(k in got[3] and same(got[3][k], w) for k, w in want[3].items())
    if isinstance(want, tuple) and isinstance(got, tuple) and want[:1] == got[:1] and want[:1] in (('ok',), ('err',), ('some',)):
        return same(got[1], want[1])
    if isinstance(want, tuple) and isinstance(got, tuple) and want[:1] == got[:1] and want[:1] in (('called',), ('called3',)):
        return want[1] == got[1] and len(want[2]) == len(got[2]) and all(same(g, w) for g, w in zip(got[2], want[2]))
    if isinstance(want, tuple) and isinstance(got, tuple) and want[:1] == got[:1] == ('tuple',):
        return len(want[1]) == len(got[1]) and all(same(g, w) for g, w in zip(got[1], want[1]))
    try:
        return equal(got, want)
    except Unknown:
        return got == want


def show(v, depth=0):
    if isinstance(v, tuple) and v:
        if v[0] == 'atom':
            return v[1]
        if v[0] in ('some', 'ok', 'err'):
            return '%s(%s)' % (v[0].capitalize(), show(v[1]) if v[1] is not None else '_')
        if v[0] == 'none':
            return 'None'
        if v[0] == 'panic':
            return 'panic'
        if v[0] == 'tuple':
            return '(%s)' % ', '.join(show(x) for x in v[1])
        if v[0] == 'struct':
            return '%s{%s}' % (v[1].split('::')[-1], ', '.join('%s: %s' % (k, show(x, depth + 1)) for k, x in v[2].items()) if depth < 1 else '..')
        if v[0] == 'enum':
            return '%s::%s{%s}' % (v[1].split('::')[-1], v[2], ', '.join('%s: %s' % (k, show(x, depth + 1)) for k, x in v[3].items()))
        if v[0] == 'conv':
            return show(v[1])
        if v[0] in ('called', 'called3'):
            return '%s(%s)' % (v[1], ', '.join(show(x, depth + 1) for x in v[2]))
        if v[0] == 'opaque':
            return '<%s>' % str(v[1])[:60]
        return '<%s>' % v[0]
    return repr(v)


# ------------------------------------------------------------------------------------------------------------ case tables
def edge(src, lab, tgt):
    return struct(EDGE, source_value=atom('value_of_' + src[1]), source_idx=src, label=lab, target_value=atom('value_of_' + tgt[1]), target_idx=tgt)


def cases_is_root():
    return [('no root', [tree(NONE), A], False),
            ('the root is the asked index', [tree(some(A)), A], True),
            ('the root is another index', [tree(some(B)), A], False)]


def cases_is_leaf():
    # the node's slots are known by the classes of entries present (only empty / only occupied / both), the stored flag agrees with them
    # (the arena invariant): a body may read the flag or recompute it from the slots
    def nd(flag, **classes):
        return node('A', isleaf=flag, children=('array', {'#classes': dict(classes)}, None))
    return [('a stored leaf (every slot empty)', [tree(some(A), A=nd(True, empty=NONE)), A], ok(True)),
            ('a stored inner node with empty and occupied slots', [tree(some(A), A=nd(False, empty=NONE, occupied=some(C))), A], ok(False)),
            ('a stored inner node with every slot occupied', [tree(some(A), A=nd(False, occupied=some(C))), A], ok(False)),
            ('an index that is not stored', [tree(some(A), A=node('A')), B], ('err', None))]


def cases_contains():
    return [('a stored index', [tree(some(A), A=node('A')), A], True),
            ('an index that is not stored', [tree(some(A), A=node('A')), B], False)]


def cases_tree_node():
    n = node('A')
    return [('a stored index', [tree(some(A), A=n), A], ok(n)),
            ('an index that is not stored', [tree(some(A), A=n), B], ('err', None))]


def cases_node_value():
    return [('a stored index', [tree(some(A), A=node('A')), A], ok(atom('value_of_A'))),
            ('an index that is not stored', [tree(some(A), A=node('A')), B], ('err', None))]


def cases_get_root():
    n = node('A')
    return [('a tree with a root', [tree(some(A), A=n, B=node('B', parent=some(A)))], n),
            ('no root', [tree(NONE)], PANIC)]


def cases_child():
    na = lambda slot: node('A', isleaf=False, children=('array', {'L': slot}, NONE))
    nc = node('C', parent=some(A))
    return [('the node is not stored', [tree(some(B), B=node('B')), A, L], ('err', None)),
            ('the slot is empty', [tree(some(A), A=na(NONE)), A, L], ('err', None)),
            ('the slot holds an index that is not stored', [tree(some(A), A=na(some(C))), A, L], ('err', None)),
            ('the slot holds a stored child', [tree(some(A), A=na(some(C)), C=nc), A, L], ok(edge(A, L, C)))]


def cases_expect_dim():
    e = lambda x, y: err(('enum', 'pwl::afftree::InputError', 'DimensionMismatch', {'expected': x, 'found': y}))
    return [('equal dimensions', [A, A], ok(UNIT)),
            ('found larger than expected', [A, B], e(A, B), {'order': ['A', 'B']}),
            ('found smaller than expected', [B, A], e(B, A), {'order': ['A', 'B']})]


def cases_node_new():
    return [('a node with a parent', [V, some(A)], struct(NODE, value=V, parent=some(A), isleaf=True, children=('array', {}, NONE))),
            ('a parentless node', [V, NONE], struct(NODE, value=V, parent=NONE, isleaf=True, children=('array', {}, NONE)))]


TABLES = {
    'Tree::is_root': (cases_is_root, 'true exactly for the stored root index'),
    'Tree::is_leaf': (cases_is_leaf, 'the stored leaf flag of the node, Err for an index that is not stored'),
    'Tree::contains': (cases_contains, 'true exactly for stored indices'),
    'Tree::tree_node': (cases_tree_node, 'the stored node, Err for an index that is not stored'),
    'Tree::node_value': (cases_node_value, 'the value of the stored node, Err for an index that is not stored'),
    'Tree::get_root': (cases_get_root, 'the node stored under the root index'),
    'Tree::child': (cases_child, 'the edge (node, label, child in that slot) with both values, Err when node, slot or child is missing'),
    'InputError::expect_dim': (cases_expect_dim, 'Ok exactly when the two dimensions are equal, else DimensionMismatch{expected, found}'),
    'TreeNode::new': (cases_node_new, 'a leaf without children that stores the given value and parent link'),
}


def cases_traversal_next():
    it = struct('tree::iter::TraversalIter', traversal=atom('TRAVERSAL'), tree=atom('TREE'))
    call = ('next', [atom('TRAVERSAL'), atom('TREE')])
    return [('a traversal with an item left', [it], some(atom('ITEM')), {'returns': {'next': some(atom('ITEM'))}, 'call': call}),
            ('an exhausted traversal', [it], NONE, {'returns': {'next': NONE}, 'call': call})]


def cases_traversal_size_hint():
    it = struct('tree::iter::TraversalIter', traversal=atom('TRAVERSAL'), tree=atom('TREE'))
    hint = ('tuple', [atom('LB'), some(atom('UB'))])
    return [('any state', [it], hint, {'returns': {'size_hint': hint}, 'call': ('size_hint', [atom('TRAVERSAL')])})]


def cases_traversal_from():
    return [('any traversal', [atom('TRAVERSAL'), atom('TREE')], struct('tree::iter::TraversalIter', traversal=atom('TRAVERSAL'), tree=atom('TREE')))]


def cases_traversal_iter():
    return [('any start node', [atom('TREE'), A],
             struct('tree::iter::TraversalIter', traversal=('called', 'new', [atom('TREE'), A]), tree=atom('TREE')))]


def cases_shape(k):
    def mk():
        f = struct('linalg::affine::AffFuncBase', mat=atom('MAT'), bias=atom('BIAS'), _phantom=atom('PH'))
        return [('any matrix', [f], atom('ROWS' if k == 0 else 'COLS'))]
    return mk


def cases_aff_clone():
    f = struct('linalg::affine::AffFuncBase', mat=atom('MAT'), bias=atom('BIAS'), _phantom=atom('PH'))
    return [('any function', [f], struct('linalg::affine::AffFuncBase', mat=atom('MAT'), bias=atom('BIAS')))]


def cases_arch_new():
    return [('any input shape', [atom('SHAPE')],
             struct('distill::arch::Architecture', input_shape=atom('SHAPE'), current_shape=atom('SHAPE'), operators=('empty_vec',)))]


def delegation_externals(returns=None):
    """externals that stand for themselves: the call is recorded as a value (or returns what the case says), and every call is counted"""
    log = []
    returns = returns or {}

    def rec(name, ret=None):
        def f(a):
            log.append((name, list(a)))
            return ('called', name, list(a)) if ret is None else ret
        return f

    def add_root(a):
        # `&mut tree` is a copy in this model: the contract is that add_root is called once, on the freshly made tree, with the given root value
        if not (same(a[0], struct(TREE, arena=('empty_slab',), root=NONE)) and a[1] == atom('ROOT')):
            raise Unknown('add_root on something else')
        log.append(('add_root', list(a)))
        return atom('ROOT_IDX')

    def rec3(name):
        def f(a):
            log.append((name, list(a)))
            return ('called3', name, list(a[:3]))
        return f
    ext = {'TraversalMut::next': rec('next', returns.get('next')), 'TraversalMut::size_hint': rec('size_hint', returns.get('size_hint')),
           'TraversalMut::new': rec('new'), 'TraversalMut::skip_subtree': rec('skip_subtree', UNIT),
           'DfsPre::skip_subtree': rec('skip_subtree', UNIT), 'afftree_from_layers_generic': rec3('afftree_from_layers_generic'),
           'write_func': rec('write_func'), 'write_poly': rec('write_poly'), 'Tree::add_root': add_root, 'Ord::max': lambda a: ('max', a[0], a[1]),
           'AffFuncBase::from_mats': rec('from_mats'), 'DfsEdge::iter': rec('DfsEdge::iter'),
           'Tree::num_terminals': rec('Tree::num_terminals'), 'Tree::depth': rec('Tree::depth'),
           'Slab::with_capacity': lambda a: ('empty_slab',), 'Slab::new': lambda a: ('empty_slab',), '#consts': {'K': 2}}
    rows_cols = ('array', {0: atom('ROWS'), 1: atom('COLS')}, PANIC)

    def of_mat(v):
        def f(a):
            if a[0] != atom('MAT'):
                raise Unknown('shape of something that is not self.mat')
            return v
        return f

    def len_of(a):
        ax = a[1]
        if a[0] == atom('MAT') and isinstance(ax, tuple) and ax[:1] == ('struct',) and ax[2].get('0') in (0, 1):
            return atom('ROWS' if ax[2]['0'] == 0 else 'COLS')
        raise Unknown('len_of')
    for k_, v_ in returns.items():
        if '::' in k_:
            ext[k_] = rec(k_, v_) if k_ not in ('Tree::is_root', 'Tree::parent') else (lambda a, v_=v_: v_)
    ext.update({'ArrayBase::shape': of_mat(rows_cols), 'ArrayBase::nrows': of_mat(atom('ROWS')), 'ArrayBase::ncols': of_mat(atom('COLS')),
                'ArrayBase::dim': of_mat(('tuple', [atom('ROWS'), atom('COLS')])), 'ArrayBase::raw_dim': of_mat(rows_cols),
                'ArrayBase::len_of': len_of,
                'Vec::new': lambda a: ('empty_vec',), 'Vec::with_capacity': lambda a: ('empty_vec',), 'Default::default': lambda a: ('empty_vec',)})
    return ext, log


TABLES.update({
    '<TraversalIter as Iterator>::next': (cases_traversal_next, 'one step of the wrapped traversal on the wrapped tree'),
    '<TraversalIter as Iterator>::size_hint': (cases_traversal_size_hint, 'the size hint of the wrapped traversal'),
    'TraversalIter::from': (cases_traversal_from, 'wraps the given traversal and tree'),
    'tree::iter::TraversalMut::iter': (cases_traversal_iter, 'a new traversal of the given tree from the given start node, wrapped with that tree'),
    'AffFuncBase::indim': (cases_shape(1), 'the number of columns of the matrix'),
    'AffFuncBase::outdim': (cases_shape(0), 'the number of rows of the matrix'),
    'AffFuncBase::n_constraints': (cases_shape(0), 'the number of rows of the matrix'),
    '<AffFuncBase as Clone>::clone': (cases_aff_clone, 'a copy with the same matrix and the same bias'),
    'Architecture::new': (cases_arch_new, 'no layers yet, current shape = input shape'),
})
def cases_size_hint(ty):
    def mk():
        it = struct('tree::iter::' + ty, size_lb=atom('LB'), size_ub=atom('UB'), last_push=atom('LP'), stack=atom('STACK'), queue=atom('STACK'))
        return [('any state', [it], ('tuple', [atom('LB'), some(atom('UB'))]))]
    return mk


def cases_traversal_skip():
    it = struct('tree::iter::TraversalIter', traversal=atom('TRAVERSAL'), tree=atom('TREE'))
    return [('any state', [it], UNIT, {'call': ('skip_subtree', [atom('TRAVERSAL')])})]


def cases_traversal_new():
    return [('any start node', [atom('TREE'), A],
             struct('tree::iter::TraversalIter', traversal=('called', 'new', [atom('TREE'), A]), tree=atom('TREE')))]


def cases_tree_index():
    return [('a stored index', [tree(some(A), A=node('A')), A], atom('value_of_A')),
            ('an index that is not stored', [tree(some(A), A=node('A')), B], PANIC)]


def cases_tree_empty(*args):
    def mk():
        return [('a valid branching factor', list(args), struct(TREE, arena=('empty_slab',), root=NONE))]
    return mk


def cases_edge_extract(path):
    def mk():
        e = struct(path, source_value=atom('SV'), source_idx=A, label=L, target_value=atom('TV'), target_idx=C)
        return [('any edge', [e], ('tuple', [A, atom('SV'), L, C, atom('TV')]))]
    return mk


def cases_edge_edge(path):
    def mk():
        e = struct(path, source_value=atom('SV'), source_idx=A, label=L, target_value=atom('TV'), target_idx=C)
        return [('any edge', [e], struct('tree::graph::Edge', source_idx=A, label=L, target_idx=C))]
    return mk


def cases_noderef_index(path):
    def mk():
        return [('any node', [struct(path, value=V, idx=A)], A)]
    return mk


def cases_nodeerror_from():
    return [('any index error', [atom('E')], ('enum', 'tree::graph::NodeError', 'InvalidIndex', {'0': atom('E')}))]


def cases_from_layers():
    return [('any network', [atom('DIM'), atom('LAYERS'), atom('PRE')], ('called3', 'afftree_from_layers_generic', [atom('DIM'), atom('LAYERS'), atom('PRE')]))]


def cases_from_layers_csv():
    return [('any network', [atom('DIM'), atom('LAYERS'), atom('PATH'), atom('PRE')],
             ('called3', 'afftree_from_layers_generic', [atom('DIM'), atom('LAYERS'), atom('PRE')]))]


def cases_current_polytope():
    g = struct('pwl::iter::PolyhedraGen', predicates=atom('PREDICATES'), iter=atom('ITER'), last_depth=atom('DEPTH'))
    return [('any state', [g], atom('PREDICATES'))]


def cases_printer(which):
    def mk():
        inst = struct('linalg::affine::AffFuncBase', mat=atom('MAT'), bias=atom('BIAS'), _phantom=atom('PH'))
        p = struct('linalg::impl_affineformat::AffFuncBasePrinter', instance=inst, options=atom('OPTIONS'))
        shown = struct('linalg::affine::AffFuncBase', mat=atom('MAT'), bias=atom('BIAS'))  # the instance itself or a view of it
        return [('any printer', [p, atom('F')], ('called', which, [atom('F'), shown, atom('OPTIONS')]))]
    return mk


def cases_with_root():
    return [('capacity zero', [atom('ROOT'), 0], struct(TREE, arena=('empty_slab',), root=NONE)),
            ('a capacity that is not zero', [atom('ROOT'), atom('CAP!0')], struct(TREE, arena=('empty_slab',), root=NONE))]


TABLES.update({
    'Tree::with_root': (cases_with_root, 'an empty arena on which add_root(root) is called once'),
    '<DfsPre as TraversalMut>::size_hint': (cases_size_hint('DfsPre'), 'the stored lower bound and Some(the stored upper bound)'),
    '<DfsEdge as TraversalMut>::size_hint': (cases_size_hint('DfsEdge'), 'the stored lower bound and Some(the stored upper bound)'),
    '<Bfs as TraversalMut>::size_hint': (cases_size_hint('Bfs'), 'the stored lower bound and Some(the stored upper bound)'),
    'TraversalIter::skip_subtree': (cases_traversal_skip, 'skip_subtree of the wrapped traversal'),
    'TraversalIter::new': (cases_traversal_new, 'a new traversal of the given tree from the given start node, wrapped with that tree'),
    '<Tree as Index>::index': (cases_tree_index, 'the value of the stored node, a panic for an index that is not stored'),
    'Tree::with_capacity': (cases_tree_empty(atom('CAP')), 'an empty arena without a root'),
    'Tree::new': (cases_tree_empty(), 'an empty arena without a root'),
    '<Tree as Default>::default': (cases_tree_empty(), 'an empty arena without a root'),
    'EdgeReference::extract': (cases_edge_extract(EDGE), '(source index, source value, label, target index, target value)'),
    'EdgeReferenceMut::extract': (cases_edge_extract('tree::graph::EdgeReferenceMut'), '(source index, source value, label, target index, target value)'),
    'EdgeReferenceMut::edge': (cases_edge_edge('tree::graph::EdgeReferenceMut'), 'copies (source, label, target) of the edge'),
    'EdgeReference::edge': (cases_edge_edge(EDGE), 'copies (source, label, target) of the edge'),
    'NodeReference::index': (cases_noderef_index(NODEREF), 'the index of the referenced node'),
    'NodeReferenceMut::index': (cases_noderef_index('tree::graph::NodeReferenceMut'), 'the index of the referenced node'),
    '<NodeError as From>::from': (cases_nodeerror_from, 'wraps the index error as InvalidIndex'),
    'afftree_from_layers': (cases_from_layers, 'the generic distillation of the same dimension, layers and precondition'),
    'afftree_from_layers_verbose': (cases_from_layers, 'the generic distillation of the same dimension, layers and precondition'),
    'afftree_from_layers_csv': (cases_from_layers_csv, 'the generic distillation of the same dimension, layers and precondition'),
    'PolyhedraGen::current_polytope': (cases_current_polytope, 'the stack of half-spaces of the current path'),
    '<AffFuncBasePrinter as Display>::fmt@FunctionT': (cases_printer('write_func'), 'write_func on the wrapped function with the wrapped options'),
    '<AffFuncBasePrinter as Display>::fmt@PolytopeT': (cases_printer('write_poly'), 'write_poly on the wrapped polytope with the wrapped options'),
})
def cases_to_poly():
    aff = struct('linalg::affine::AffFuncBase', mat=atom('MAT'), bias=atom('BIAS'), _phantom=atom('PH'))
    c = struct('pwl::node::AffContent', aff=aff, state=('enum', 'pwl::node::NodeState', 'Indeterminate', {}))
    return [('any node', [c], ('called', 'from_mats', [atom('MAT'), atom('BIAS')]))]


def cases_feasible_witnesses():
    aff = atom('AFF')
    st = lambda v, **f: ('enum', 'pwl::node::NodeState', v, f)
    c = lambda s_: struct('pwl::node::AffContent', aff=aff, state=s_)
    return [('a node with witnesses', [c(st('FeasibleWitness', **{'0': atom('WITNESSES')}))], atom('WITNESSES')),
            ('a feasible node without witnesses', [c(st('Feasible'))], ('empty_vec',)),
            ('an infeasible node', [c(st('Infeasible'))], ('empty_vec',)),
            ('a node of unknown state', [c(st('Indeterminate'))], ('empty_vec',))]


def cases_tree_is_empty():
    return [('an empty arena', [tree(NONE)], True), ('an arena with a node', [tree(some(A), A=node('A'))], False)]


def cases_afftree_is_empty():
    at = lambda t: struct('pwl::afftree::AffTree', tree=t, in_dim=atom('DIM'))
    return [('an empty arena', [at(tree(NONE))], True), ('an arena with a node', [at(tree(some(A), A=node('A')))], False)]


def cases_tree_len():
    t = tree(some(A), A=node('A'))
    return [('any tree', [t], ('len', t[2]['arena']))]


def cases_afftree_len():
    t = tree(some(A), A=node('A'))
    return [('any tree', [struct('pwl::afftree::AffTree', tree=t, in_dim=atom('DIM'))], ('len', t[2]['arena']))]


def cases_get_root_idx():
    return [('a tree with a root', [tree(some(A), A=node('A'))], A), ('no root', [tree(NONE)], PANIC)]


def cases_dfs_edge_iter():
    t = tree(some(A), A=node('A'))
    return [('a tree with a root', [t], ('called', 'DfsEdge::iter', [t, A])), ('no root', [tree(NONE)], PANIC)]


def cases_afftree_delegate(name):
    def mk():
        t = tree(some(A), A=node('A'))
        return [('any tree', [struct('pwl::afftree::AffTree', tree=t, in_dim=atom('DIM'))], ('called', name, [t]))]
    return mk


def cases_child_mut():
    out = []
    for name, args, want in cases_child():
        if isinstance(want, tuple) and want[:1] == ('ok',):
            w = want[1]
            want = ok(('struct', 'tree::graph::EdgeReferenceMut', w[2]))
        out.append((name, args, want))
    return out


def cases_tree_node2_mut():
    na, nb = node('A'), node('B', parent=some(A))
    t = tree(some(A), A=na, B=nb)
    return [('the first index is not stored', [t, C, B], ('err', None)),
            ('the second index is not stored', [t, A, C], ('err', None)),
            ('both indices are stored', [t, A, B], ok(('tuple', [na, nb]))),
            ('both indices are stored (other order)', [t, B, A], ok(('tuple', [nb, na])))]


def cases_tree_clone():
    return [('any tree', [struct(TREE, arena=atom('ARENA'), root=atom('ROOT'))], struct(TREE, arena=atom('ARENA'), root=atom('ROOT')))]


def cases_node_clone():
    n = struct(NODE, value=V, parent=atom('PARENT'), children=atom('CHILDREN'), isleaf=atom('ISLEAF'))
    return [('any node', [n], n)]


def cases_afftree_clone():
    t = struct(TREE, arena=atom('ARENA'), root=atom('ROOT'))
    return [('any tree', [struct('pwl::afftree::AffTree', tree=t, in_dim=atom('DIM'), polytope_cache=atom('CACHE'))],
             struct('pwl::afftree::AffTree', tree=t, in_dim=atom('DIM')))]


def cases_state_predicate(true_for):
    def mk():
        st = lambda v, **f: ('enum', 'pwl::node::NodeState', v, f)
        states = [('Indeterminate', st('Indeterminate')), ('Infeasible', st('Infeasible')), ('Feasible', st('Feasible')),
                  ('FeasibleWitness', st('FeasibleWitness', **{'0': atom('WITNESSES')}))]
        return [('state ' + n, [v], n in true_for) for n, v in states]
    return mk


def cases_afftree_merge():
    t = atom('ARENA_TREE')
    me = struct('pwl::afftree::AffTree', tree=t, in_dim=atom('DIM'))
    P = atom('P')
    return [('any decision', [me, P, L], ok(atom('REMOVED')),
             {'returns': {'Tree::merge_child_with_parent': ok(atom('REMOVED'))}, 'calls': [('Tree::merge_child_with_parent', [t, P, L])]})]


def cases_replace_node():
    t = atom('ARENA_TREE')
    me = struct('pwl::afftree::AffTree', tree=t, in_dim=atom('DIM'))
    P = atom('P')
    e = edge(P, L, A)
    AFF = atom('AFF')
    r_root = {'Tree::is_root': True, 'AffTree::update_node': ok(atom('OLD'))}
    r_orphan = {'Tree::is_root': False, 'Tree::parent': err(atom('E'))}
    r_inner = {'Tree::is_root': False, 'Tree::parent': ok(e), 'Tree::remove_child': some(atom('REMOVED')), 'AffTree::add_child_node': ok(atom('NEW'))}
    return [('the root', [me, A, AFF], ok(A), {'returns': r_root, 'calls': [('AffTree::update_node', [me, A, AFF])]}),
            ('a node whose parent edge cannot be found', [me, A, AFF], ('err', None), {'returns': r_orphan, 'calls': []}),
            ('a node below the root', [me, A, AFF], ok(atom('NEW')),
             {'returns': r_inner, 'calls': [('Tree::remove_child', [t, P, L]), ('AffTree::add_child_node', [me, P, L, AFF])]})]


def cases_polyiter_size_hint():
    dfs = struct('tree::iter::DfsPre', size_lb=atom('LB'), size_ub=atom('UB'), last_push=atom('LP'), stack=atom('STACK'))
    gen = struct('pwl::iter::PolyhedraGen', iter=dfs, predicates=atom('PREDICATES'), last_depth=atom('DEPTH'))
    it = struct('pwl::iter::PolyhedraIter', iter=gen, tree=atom('TREE'))
    return [('any state', [it], ('tuple', [atom('LB'), some(atom('UB'))]))]


def cases_polyiter_skip():
    gen = struct('pwl::iter::PolyhedraGen', iter=atom('DFS'), predicates=atom('PREDICATES'), last_depth=atom('DEPTH'))
    it = struct('pwl::iter::PolyhedraIter', iter=gen, tree=atom('TREE'))
    return [('any state', [it], UNIT, {'call': ('skip_subtree', [atom('DFS')])})]


TABLES.update({
    'AffContent::to_poly': (cases_to_poly, 'the polytope with the node\'s matrix and bias'),
    'AffContent::feasible_witnesses': (cases_feasible_witnesses, 'the stored witnesses of a FeasibleWitness node, nothing for every other state'),
    'Tree::is_empty': (cases_tree_is_empty, 'true exactly when nothing is stored in the arena'),
    'AffTree::is_empty': (cases_afftree_is_empty, 'true exactly when nothing is stored in the arena'),
    'Tree::len': (cases_tree_len, 'the number of stored nodes'),
    'AffTree::len': (cases_afftree_len, 'the number of stored nodes'),
    'Tree::get_root_idx': (cases_get_root_idx, 'the stored root index, a panic without a root'),
    'Tree::dfs_edge_iter': (cases_dfs_edge_iter, 'the edge traversal from the root'),
    'AffTree::num_terminals': (cases_afftree_delegate('Tree::num_terminals'), 'the number of terminals of the arena tree'),
    'AffTree::depth': (cases_afftree_delegate('Tree::depth'), 'the depth of the arena tree'),
    'PolyhedraIter::skip_subtree': (cases_polyiter_skip, 'skip_subtree of the wrapped generator'),
    'Tree::tree_node_mut': (cases_tree_node, 'the stored node, Err for an index that is not stored'),
    'Tree::node_value_mut': (cases_node_value, 'the value of the stored node, Err for an index that is not stored'),
    'Tree::tree_node2_mut': (cases_tree_node2_mut, 'the two stored nodes in argument order, Err when one of the indices is not stored'),
    'Tree::child_mut': (cases_child_mut, 'the edge (node, label, child in that slot) with both values, Err when node, slot or child is missing'),
    '<Tree as Clone>::clone': (cases_tree_clone, 'a copy with the same arena (same indices) and the same root'),
    '<TreeNode as Clone>::clone': (cases_node_clone, 'a copy with the same value, parent link, child slots and leaf flag'),
    '<AffTree as Clone>::clone': (cases_afftree_clone, 'a copy with the same arena tree and input dimension'),
    'NodeState::is_feasible': (cases_state_predicate({'Feasible', 'FeasibleWitness'}), 'true exactly for Feasible and FeasibleWitness'),
    'NodeState::is_infeasible': (cases_state_predicate({'Infeasible'}), 'true exactly for Infeasible'),
    'NodeState::is_indetermined': (cases_state_predicate({'Indeterminate'}), 'true exactly for Indeterminate'),
    'AffTree::merge_child_with_parent': (cases_afftree_merge, 'the arena tree\'s merge of the same (parent, label)'),
    'AffTree::replace_node': (cases_replace_node, 'the root keeps its place and gets the new function; any other node is detached from its parent slot (with its descendants) and a fresh node with the new function is attached to that same slot'),
    '<PolyhedraIter as Iterator>::size_hint': (cases_polyiter_size_hint, 'the bounds kept by the wrapped depth-first traversal'),
})
ONCE = {'<TraversalIter as Iterator>::next': 'next', '<TraversalIter as Iterator>::size_hint': 'size_hint', 'tree::iter::TraversalMut::iter': 'new',
        'TraversalIter::skip_subtree': 'skip_subtree', 'TraversalIter::new': 'new', 'afftree_from_layers': 'afftree_from_layers_generic',
        'afftree_from_layers_verbose': 'afftree_from_layers_generic', 'Tree::with_root': 'add_root', 'PolyhedraIter::skip_subtree': 'skip_subtree', 'afftree_from_layers_csv': 'afftree_from_layers_generic',
        '<AffFuncBasePrinter as Display>::fmt@FunctionT': 'write_func', '<AffFuncBasePrinter as Display>::fmt@PolytopeT': 'write_poly'}


def bodies_of(ctx, q):
    q, _, flt = q.partition('@')
    return [b for b in ctx.facts.bodies if (b.qname == q or b.path == q) and flt in b.path]


def check_table(ctx, rule, q, site=None):
    mk, what = TABLES[q]
    bodies = bodies_of(ctx, q)
    site = site or (q.replace('tree::iter::', '') + '#cases')
    if len(bodies) != 1:
        ctx.lost(rule, q)
        return
    b = bodies[0]
    wrong, unknown = [], []
    for case in mk():
        name, args, want = case[:3]
        opts = case[3] if len(case) > 3 else {}
        ext = slab_externals()
        dext, log = delegation_externals(opts.get('returns', {}))
        ext.update(dext)
        if 'order' in opts:
            ext['#order'] = opts['order']
        try:
            got = run_case(ctx.facts, b, args, ext)
        except Unknown as e:
            unknown.append('%s: %s' % (name, e))
            continue
        if not same(got, want):
            wrong.append('for %s it gives %s, not %s' % (name, show(got), show(want)))
        elif q in ONCE and [n for n, _ in log].count(ONCE[q]) != 1:
            wrong.append('%s is called %d times, not once' % (ONCE[q], [n for n, _ in log].count(ONCE[q])))
        elif 'calls' in opts and not (len(log) == len(opts['calls']) and all(n == wn and len(a) == len(wa) and all(same(x, w) for x, w in zip(a, wa))
                                                                                 for (n, a), (wn, wa) in zip(log, opts['calls']))):
            wrong.append('for %s the calls are [%s], not [%s]' % (name, '; '.join('%s(%s)' % (n, ', '.join(show(x, 1) for x in a)) for n, a in log),
                                                                    '; '.join('%s(%s)' % (n, ', '.join(show(x, 1) for x in a)) for n, a in opts['calls'])))
        elif opts.get('call') and not any(n == opts['call'][0] and len(a) == len(opts['call'][1]) and all(same(x, w) for x, w in zip(a, opts['call'][1]))
                                          for n, a in log):
            wrong.append('for %s it does not call %s(%s)' % (name, opts['call'][0], ', '.join(show(x) for x in opts['call'][1])))
    if wrong:
        ctx.bad(rule, site, '%s is no longer %s: %s' % (q, what, '; '.join(wrong)[:300]), b.span)
    elif unknown:
        ctx.undecided(rule, site, 'body outside the case-interpreted fragment (%s)' % '; '.join(unknown)[:240], b.span)
    else:
        ctx.ok(rule, site, '%s (%d cases)' % (what, len(mk())), b.span)


# ------------------------------------------------------------------------------------------------------------ iterator pipelines
def slots(tag):
    return ('array', {'#': tag}, None)


def pipes_children_iter():
    ch = slots('children of the node')
    nd = node('A', isleaf=False, children=ch)
    return [nd], ch, [('an empty slot', NONE, []), ('a slot holding a child', some(C), [('tuple', [L, C])])], {}


def pipes_children():
    ch = slots('children of A')
    t = tree(some(A), A=node('A', isleaf=False, children=ch), C=node('C', parent=some(A)))
    return [t, A], ch, [('an empty slot', NONE, []), ('a slot holding a child', some(C), [edge(A, L, C)])], {}


def pipes_num_children():
    ch = slots('children of A')
    t = tree(some(A), A=node('A', isleaf=False, children=ch), C=node('C', parent=some(A)))
    return [t, A], ch, [('an empty slot', NONE, 0), ('a slot holding a child', some(C), 1)], {}


def pipes_nodes():
    ar = arena(A=node('A'))
    t = struct(TREE, root=some(A), arena=ar)
    return [t], ('slab', ar), [('a stored node', ('tuple', [A, node('A')]), [struct(NODEREF, idx=A, value=atom('value_of_A'))])], {}


def pipes_edge_iter():
    ar = arena(A=node('A'), B=node('B', parent=some(A)))
    t = struct(TREE, root=some(A), arena=ar)

    def parent(a):
        if a[1] == A:
            return err(('enum', 'tree::graph::NodeError', 'MissingParent', {'index': A}))
        if a[1] == B:
            return ok(('edge into', 'B'))
        raise Unknown('parent of %r' % (a[1],))
    return [t], ('slab', ar), [('the root', ('tuple', [A, node('A')]), []),
                               ('a node below the root', ('tuple', [B, node('B', parent=some(A))]), [('edge into', 'B')])], {'Tree::parent': parent}


def pipes_operators():
    ops = slots('queued (layer, shape) pairs')
    a = struct('distill::arch::Architecture', input_shape=atom('IN'), current_shape=atom('CUR'), operators=ops)
    return [a], ops, [('a queued pair', ('tuple', [atom('LAYER'), atom('SHAPE')]), [atom('LAYER')])], {}


def pipes_slab(out, leaf=None, ref=NODEREF, afftree=False):
    """contracts of the index-order iterators: one output per stored node (`leaf` = None), or only per leaf / per inner node"""
    def mk():
        def nd(is_leaf):
            return node('A', isleaf=is_leaf)
        ar = arena(A=nd(True))
        t = struct(TREE, root=some(A), arena=ar)
        me = struct('pwl::afftree::AffTree', tree=t, in_dim=atom('DIM')) if afftree else t
        res = {'idx': A, 'pair': None, 'ref': struct(ref, idx=A, value=atom('value_of_A')), 'value': atom('value_of_A')}
        cases = []
        for is_leaf in (True, False):
            o = res[out] if out != 'pair' else ('tuple', [A, nd(is_leaf)])
            keep = leaf is None or leaf == is_leaf
            cases.append(('a stored %s' % ('leaf' if is_leaf else 'inner node'), ('tuple', [A, nd(is_leaf)]), [o] if keep else []))
        return [me], ('slab', ar), cases, {}
    return mk


PIPES = {
    'Tree::node_indices': (pipes_slab('idx'), 'the index of every stored node, in index order'),
    'Tree::node_iter': (pipes_slab('pair'), 'the (index, node) pairs of the arena, in index order'),
    'Tree::terminals': (pipes_slab('ref', True), 'an (index, value) reference for exactly the stored nodes whose leaf flag is set'),
    'Tree::terminals_mut': (pipes_slab('ref', True, 'tree::graph::NodeReferenceMut'), 'an (index, value) reference for exactly the stored nodes whose leaf flag is set'),
    'Tree::terminal_indices': (pipes_slab('idx', True), 'the index of exactly the stored nodes whose leaf flag is set'),
    'Tree::decisions': (pipes_slab('ref', False), 'an (index, value) reference for exactly the stored nodes whose leaf flag is not set'),
    'Tree::decision_indices': (pipes_slab('idx', False), 'the index of exactly the stored nodes whose leaf flag is not set'),
    'AffTree::nodes': (pipes_slab('value', None, afftree=True), 'the value of every stored node'),
    'AffTree::terminals': (pipes_slab('value', True, afftree=True), 'the values of exactly the stored nodes whose leaf flag is set'),
    'AffTree::decisions': (pipes_slab('value', False, afftree=True), 'the values of exactly the stored nodes whose leaf flag is not set'),
    'Architecture::operators': (pipes_operators, 'the queued layers in order, without their shapes'),
    '<Architecture as IntoIterator>::into_iter': (pipes_operators, 'the queued layers in order, without their shapes'),
    'TreeNode::children_iter': (pipes_children_iter, 'one (label, child) pair per occupied slot, in slot order'),
    'Tree::children': (pipes_children, 'one edge (node, label, child) per occupied slot, in slot order'),
    'Tree::num_children': (pipes_num_children, 'the number of occupied slots'),
    'Tree::nodes': (pipes_nodes, 'one (index, value) reference per stored node, in index order'),
    'Tree::edge_iter': (pipes_edge_iter, 'the parent edge of every stored node that has one'),
}


def check_pipe(ctx, rule, q, site=None):
    mk, what = PIPES[q]
    bodies = bodies_of(ctx, q)
    site = site or (q + '#elements')
    if len(bodies) != 1:
        ctx.lost(rule, q)
        return
    b = bodies[0]
    args, source, elems, extra = mk()
    ext = slab_externals()
    ext.update(extra)
    counting = isinstance(elems[0][2], int)
    if counting:
        # the count written as a loop with a counter: walked over every sequence of at most two slots (the body cannot see the position of a
        # slot: the loop runs over the plain slot sequence, any `enumerate` is refused)
        try:
            run_case(ctx.facts, b, args, dict(ext))
        except Unknown:
            import itertools
            wrong, unknown = [], []
            for n in (0, 1, 2):
                for seq in itertools.product(elems, repeat=n):
                    state = {'i': 0}

                    def nxt(pipe, seq=seq, state=state):
                        if pipe[1] != source or pipe[2]:
                            raise Unknown('the loop does not run over the plain slot sequence')
                        state['i'] += 1
                        return some(seq[state['i'] - 1][1]) if state['i'] <= len(seq) else NONE
                    e2 = dict(ext)
                    e2['#next'] = nxt
                    try:
                        got = run_case(ctx.facts, b, args, e2)
                    except Unknown as e:
                        unknown.append(str(e))
                        continue
                    want = sum(x[2] for x in seq)
                    if got != want:
                        wrong.append('slots [%s] are counted as %s' % (', '.join(x[0] for x in seq), show(got)))
            if wrong:
                ctx.bad(rule, site, '%s is no longer %s: %s' % (q, what, '; '.join(wrong)[:300]), b.span)
            elif unknown:
                ctx.undecided(rule, site, 'body outside the case-interpreted fragment (%s)' % unknown[0][:240], b.span)
            else:
                ctx.ok(rule, site, '%s (loop form, 7 slot sequences)' % what, b.span)
            return
    try:
        got = run_case(ctx.facts, b, args, ext)
        if counting:
            if not (isinstance(got, tuple) and got[:1] == ('count',)):
                raise Unknown('result is not the count of an iterator (%s)' % show(got))
            got = got[1]
        if not (isinstance(got, tuple) and got[:1] == ('pipe',)):
            raise Unknown('result is not an iterator pipeline (%s)' % show(got))
        if got[1] != source:
            ctx.bad(rule, site, '%s is no longer %s: it iterates over something else' % (q, what), b.span)
            return
        wrong = []
        for name, elem, want in elems:
            outs, rev = pipe_outputs(ctx.facts, ext, got, elem, L)
            if rev:
                wrong.append('the order is reversed')
            if counting:
                if len(outs) != want:
                    wrong.append('%s counts %d' % (name, len(outs)))
            elif len(outs) != len(want) or not all(same(o, w) for o, w in zip(outs, want)):
                wrong.append('%s yields [%s], not [%s]' % (name, ', '.join(show(o) for o in outs), ', '.join(show(w) for w in want)))
    except Unknown as e:
        ctx.undecided(rule, site, 'body outside the case-interpreted fragment (%s)' % str(e)[:240], b.span)
        return
    if wrong:
        ctx.bad(rule, site, '%s is no longer %s: %s' % (q, what, '; '.join(sorted(set(wrong)))[:300]), b.span)
    else:
        ctx.ok(rule, site, '%s (%d element cases)' % (what, len(elems)), b.span)


class LoopBack(Exception):
    pass


def check_parent(ctx, rule, q='Tree::parent', edge_path=None):
    """Tree::parent: three look-ups that can fail, then a search of the parent's slots for the asked index.  The search loop is decided per
    slot: one iteration is walked with the slot empty / holding another child / holding the asked index; asking the iterator for a second
    element means "this slot was passed over"."""
    edge_path = edge_path or EDGE
    what = 'the edge (parent, label of the slot that holds the node, node), Err when the node or its parent link is missing'
    site = q + '#cases'
    bodies = bodies_of(ctx, q)
    if len(bodies) != 1:
        ctx.lost(rule, q)
        return
    b = bodies[0]
    P = atom('P')
    ch = slots('children of P')
    nodeA = node('A', parent=some(P))
    full = tree(some(P), P=node('P', isleaf=False, children=ch), A=nodeA)
    want_edge = ok(struct(edge_path, source_value=atom('value_of_P'), source_idx=P, label=L, target_value=atom('value_of_A'), target_idx=A))
    wrong, unknown = [], []

    def one(name, args, want, slot=None):
        ext = slab_externals()
        state = {'n': 0}

        def nxt(pipe):
            if pipe[1] != ch:
                raise Unknown('the loop does not run over the slots of the parent')
            state['n'] += 1
            if state['n'] > 1:
                raise LoopBack()
            outs, rev = pipe_outputs(ctx.facts, ext, pipe, slot, L)
            if len(outs) != 1:
                raise Unknown('the loop filters the slots before looking at them')
            return some(outs[0])
        ext['#next'] = nxt

        def search(ci, kind, pipe, pred):
            # `position` / `find` / `find_map` over the slots: the first slot the predicate accepts decides; a slot it rejects is passed over
            if pipe[1] != ch:
                raise Unknown('the search does not run over the slots of the parent')
            outs, rev = pipe_outputs(ctx.facts, ext, pipe, slot, L)
            if len(outs) != 1 or rev:
                raise Unknown('the search filters or reverses the slots before looking at them')
            if kind == 'position' and any(st[0] != 'enumerate' and st[0] not in ('map',) for st in pipe[2]) and pipe[2]:
                raise Unknown('position over a transformed sequence')
            r = ci.apply(pred, [outs[0]])
            if kind == 'find_map':
                if not is_opt(r):
                    raise Unknown('find_map result')
                if r[0] == 'some':
                    return r
                raise LoopBack()
            if not isinstance(r, bool):
                raise Unknown('search predicate')
            if not r:
                raise LoopBack()
            return some(L) if kind == 'position' else (some(outs[0]) if kind == 'find' else True)
        ext['#search'] = search
        try:
            got = run_case(ctx.facts, b, args, ext)
        except LoopBack:
            got = ('passed over',)
        except Unknown as e:
            unknown.append('%s: %s' % (name, e))
            return
        if not (got == want or same(got, want)):
            wrong.append('for %s it gives %s, not %s' % (name, show(got), show(want)))
    one('an index that is not stored', [tree(some(P), P=node('P')), A], ('err', None))
    one('a node without a parent link', [tree(some(A), A=node('A')), A], err(('enum', 'tree::graph::NodeError', 'MissingParent', {'index': A})))
    one('a parent link to an index that is not stored', [tree(some(A), A=nodeA), A], ('err', None))
    one('an empty slot of the parent', [full, A], ('passed over',), NONE)
    one('a slot of the parent holding another child', [full, A], ('passed over',), some(B))
    one('the slot of the parent holding the node', [full, A], want_edge, some(A))
    if wrong:
        ctx.bad(rule, site, '%s is no longer %s: %s' % (q, what, '; '.join(wrong)[:300]), b.span)
    elif unknown:
        ctx.undecided(rule, site, 'body outside the case-interpreted fragment (%s)' % '; '.join(unknown)[:240], b.span)
    else:
        ctx.ok(rule, site, '%s (6 cases)' % what, b.span)


def check_traversal_new(ctx, rule, ty, site=None):
    """`<ty as TraversalMut>::new(tree, start)`: the size bounds of a fresh traversal never exclude the true number of items -- the lower bound
    may be the node count (edge traversal: node count - 1) only when the start node is the root of the tree; for any other start node at most
    the start node itself is known (0 for an edge traversal); the upper bound is the node count."""
    q = '<%s as TraversalMut>::new' % ty
    bodies = bodies_of(ctx, q)
    site = site or (q + '#bounds')
    if len(bodies) != 1:
        ctx.lost(rule, q)
        return
    b = bodies[0]
    edge = 'Edge' in ty
    R_ = atom('R')
    t = tree(some(R_), R=node('R', isleaf=False), A=node('A', parent=some(R_)))
    ln, ln1 = ('len', t[2]['arena']), ('len-1', t[2]['arena'])
    allowed_root = [0, ln1] + ([] if edge else [1, ln])
    allowed_other = [0] + ([] if edge else [1])
    wrong, unknown = [], []
    for name, start, allowed in (('a traversal from the root', R_, allowed_root), ('a traversal from another node', A, allowed_other)):
        ext = slab_externals()
        ext['#next'] = lambda pipe: NONE          # the start frontier is not what this contract is about: a start node without children
        ext['#consts'] = {'K': 2}
        try:
            got = run_case(ctx.facts, b, [t, start], ext)
        except Unknown as e:
            unknown.append('%s: %s' % (name, e))
            continue
        if not (isinstance(got, tuple) and got[:1] == ('struct',) and 'size_lb' in got[2] and 'size_ub' in got[2]):
            unknown.append('%s: result is not the traversal struct' % name)
            continue
        lb, ub = got[2]['size_lb'], got[2]['size_ub']
        if not any(lb == a for a in allowed):
            wrong.append('%s starts with lower bound %s' % (name, show(lb) if not (isinstance(lb, tuple) and lb[:1] in (('len',), ('len-1',))) else ('the node count' if lb[0] == 'len' else 'the node count - 1')))
        if ub not in (ln,) + ((ln1,) if edge else ()):
            wrong.append('%s starts with an upper bound that is not the node count' % name)
    if wrong:
        ctx.bad(rule, site, '; '.join(wrong)[:300], b.span)
    elif unknown:
        ctx.undecided(rule, site, 'body outside the case-interpreted fragment (%s)' % '; '.join(unknown)[:240], b.span)
    else:
        ctx.ok(rule, site, 'the lower bound counts the whole tree only for a start at the root; upper bound = node count', b.span)


def check_num_nodes(ctx, rule, site):
    """Tree::num_nodes(node) = the number of items of the depth-first traversal from `node`: `DfsPre::iter(self, node).count()`, or a loop
    with a counter (walked over traversals of 0, 1 and 2 items)."""
    bodies = bodies_of(ctx, 'Tree::num_nodes')
    if len(bodies) != 1:
        ctx.lost(rule, 'Tree::num_nodes')
        return
    b = bodies[0]
    t = tree(some(A), A=node('A'))
    results, problems = [], []
    for n in (0, 1, 2):
        state = {'i': 0}
        ext = slab_externals()

        def trav(a):
            if not (a[0] == t and a[1] == B):
                raise Unknown('traversal of another tree or from another node')
            return ('pipe', ('trav',), [])

        def nxt(pipe, n=n, state=state):
            if pipe[1] != ('trav',) or pipe[2]:
                raise Unknown('the loop does not run over the plain traversal')
            state['i'] += 1
            return some(atom('ITEM%d' % state['i'])) if state['i'] <= n else NONE
        ext['DfsPre::iter'] = trav
        ext['Tree::dfs_iter'] = lambda a: (_ for _ in ()).throw(Unknown('dfs_iter starts at the root, not at the given node'))
        ext['#next'] = nxt
        try:
            got = run_case(ctx.facts, b, [t, B], ext)
        except Unknown as e:
            problems.append(str(e))
            break
        results.append(got)
    if problems:
        ctx.undecided(rule, site, 'body outside the case-interpreted fragment (%s)' % problems[0][:200], b.span)
    elif all(r == ('count', ('pipe', ('trav',), [])) for r in results) or results == [0, 1, 2]:
        ctx.ok(rule, site, 'counts the items of DfsPre::iter(self, node)', b.span)
    else:
        ctx.bad(rule, site, 'does not count the items of the depth-first traversal from the given node (traversals of 0, 1, 2 items give %s)' % [show(r) for r in results], b.span)


def check_depth_loop(ctx, rule, site):
    """Tree::depth() written as a loop: walked over traversals of 0, 1 and 2 items whose depths are ordered either way or equal -- the result
    is the largest depth delivered (0 for none)."""
    bodies = bodies_of(ctx, 'Tree::depth')
    if len(bodies) != 1:
        ctx.lost(rule, 'Tree::depth')
        return None
    b = bodies[0]
    t = tree(some(A), A=node('A'))
    D1, D2 = atom('D1'), atom('D2')
    item = lambda d, k: struct('tree::iter::DfsNodeData', depth=d, index=atom('N%d' % k), n_remaining=atom('R%d' % k))
    cases = [([], 0), ([D1], D1), ([D1, D2], D2), ([D2, D1], D2), ([D1, D1], D1)]
    wrong = []
    for seq, want in cases:
        state = {'i': 0}
        ext = slab_externals()
        ext['#order'] = ['D1', 'D2']

        def trav(a):
            if a[0] != t:
                raise Unknown('traversal of another tree')
            return ('pipe', ('trav',), [])

        def nxt(pipe, seq=seq, state=state):
            if pipe[1] != ('trav',) or pipe[2]:
                raise Unknown('the loop does not run over the plain traversal')
            state['i'] += 1
            return some(item(seq[state['i'] - 1], state['i'])) if state['i'] <= len(seq) else NONE
        ext['Tree::dfs_iter'] = trav
        ext['#next'] = nxt
        try:
            got = run_case(ctx.facts, b, [t], ext)
        except Unknown as e:
            return 'body outside the case-interpreted fragment (%s)' % str(e)[:160]
        if got != want:
            wrong.append('depths [%s] give %s' % (', '.join(show(x) for x in seq), show(got)))
    return wrong


def run(ctx, rule, names):
    for q in names:
        if q in TABLES:
            check_table(ctx, rule, q)
        elif q in PIPES:
            check_pipe(ctx, rule, q)
        elif q == 'Tree::parent':
            check_parent(ctx, rule)
        elif q == 'Tree::parent_mut':
            check_parent(ctx, rule, q, 'tree::graph::EdgeReferenceMut')
        else:
            raise KeyError(q)


# ------------------------------------------------------------------------------------------------------------ who relies on what
RULE_TEXT = ('the small accessors this property\'s rules read by name do what the name says: each body is walked over an exhaustive case '
             'partition of its inputs (index stored / not stored, slot empty / occupied, root absent / this / another index) and must return '
             'the contract\'s value in every case')
DEPS = {'C01': ['Tree::children', 'Tree::is_leaf', 'Tree::num_children', 'Tree::parent', 'Tree::contains', 'Tree::get_root', 'AffFuncBase::indim', 'AffFuncBase::outdim', 'afftree_from_layers', 'afftree_from_layers_verbose', 'afftree_from_layers_csv', 'Tree::terminals', 'AffTree::terminals', 'NodeState::is_feasible', 'NodeState::is_infeasible', 'NodeState::is_indetermined'],
        'C02': ['Tree::children', 'Tree::is_leaf', 'Tree::get_root', '<AffFuncBase as Clone>::clone', 'AffFuncBase::indim', 'AffFuncBase::outdim', '<AffTree as Clone>::clone'],
        'C03': ['Tree::children', 'Tree::contains', 'Tree::num_children', 'Tree::parent', 'Tree::is_leaf', 'NodeState::is_feasible', 'NodeState::is_infeasible', 'NodeState::is_indetermined', 'AffTree::merge_child_with_parent'],
        'C04': ['Tree::is_root', 'InputError::expect_dim', 'Tree::is_leaf', 'AffFuncBase::indim', 'AffFuncBase::outdim', 'AffFuncBase::n_constraints', 'TreeNode::new', 'Tree::with_root', 'AffTree::replace_node', 'Tree::terminals', 'AffTree::terminals', 'AffTree::merge_child_with_parent'],
        'C05': ['Tree::is_root', 'Tree::parent', 'Tree::children', 'Tree::contains', 'Tree::node_value', 'AffContent::feasible_witnesses', 'NodeState::is_feasible', 'NodeState::is_infeasible', 'NodeState::is_indetermined'],
        'C06': ['Tree::contains', 'Tree::num_children', 'Tree::parent', 'Tree::children', 'NodeState::is_feasible', 'NodeState::is_infeasible', 'NodeState::is_indetermined', 'AffTree::merge_child_with_parent'],
        'C07': ['<AffFuncBase as Clone>::clone', 'Tree::children', 'Tree::is_leaf', '<TraversalIter as Iterator>::next', '<AffTree as Clone>::clone', '<Tree as Clone>::clone'],
        'C08': ['TreeNode::children_iter', 'tree::iter::TraversalMut::iter', '<TraversalIter as Iterator>::next', 'Tree::tree_node'],
        'C09': ['Tree::parent', 'Tree::child', 'Tree::children', 'Tree::get_root', 'Tree::node_value', 'Tree::num_children', '<TraversalIter as Iterator>::next', 'PolyhedraGen::current_polytope', 'PolyhedraIter::skip_subtree'],
        'C11': ['Tree::parent', 'Tree::children', 'Tree::contains', 'NodeState::is_feasible', 'NodeState::is_infeasible', 'NodeState::is_indetermined'],
        'C12': ['TreeNode::new', 'Tree::is_root', 'Tree::is_leaf', 'Tree::contains', 'Tree::tree_node', 'Tree::node_value', 'Tree::get_root', 'Tree::child', 'Tree::parent', 'Tree::num_children', 'TreeNode::children_iter', 'Tree::children', '<Tree as Index>::index', 'Tree::with_capacity', 'Tree::new', '<Tree as Default>::default', 'Tree::with_root', '<NodeError as From>::from', 'EdgeReferenceMut::extract', 'EdgeReferenceMut::edge', 'NodeReferenceMut::index', 'Tree::is_empty', '<Tree as Clone>::clone', '<TreeNode as Clone>::clone', 'Tree::tree_node_mut', 'Tree::node_value_mut', 'Tree::tree_node2_mut', 'Tree::child_mut', 'Tree::parent_mut'],
        'C13': ['TreeNode::children_iter', 'Tree::children', 'Tree::nodes', 'Tree::edge_iter', '<TraversalIter as Iterator>::next', '<TraversalIter as Iterator>::size_hint', 'TraversalIter::from', 'tree::iter::TraversalMut::iter', 'Tree::is_leaf', 'Tree::parent', 'Tree::get_root', '<DfsPre as TraversalMut>::size_hint', '<DfsEdge as TraversalMut>::size_hint', '<Bfs as TraversalMut>::size_hint', 'TraversalIter::skip_subtree', 'TraversalIter::new', 'EdgeReference::extract', 'EdgeReference::edge', 'NodeReference::index', 'AffTree::is_empty', 'Tree::node_indices', 'Tree::node_iter', 'Tree::get_root_idx', 'Tree::dfs_edge_iter', 'Tree::len', 'AffTree::len', 'AffTree::num_terminals', 'AffTree::depth', 'AffTree::nodes', 'AffTree::terminals', 'AffTree::decisions'],
        'C14': ['AffFuncBase::indim', 'AffFuncBase::outdim', 'AffFuncBase::n_constraints'],
        'C15': ['AffFuncBase::n_constraints', 'AffFuncBase::indim', '<AffFuncBase as Clone>::clone'],
        'C16': ['AffFuncBase::indim', 'AffFuncBase::outdim', 'AffFuncBase::n_constraints', '<AffFuncBase as Clone>::clone', 'AffContent::to_poly'],
        'C17': ['InputError::expect_dim', 'AffFuncBase::n_constraints', 'AffFuncBase::indim', 'Tree::with_root'],
        'C18': ['Architecture::new', 'Architecture::operators', '<Architecture as IntoIterator>::into_iter', 'Tree::terminals', 'AffTree::terminals'],
        'C19': ['Tree::edge_iter', 'TreeNode::children_iter', 'Tree::num_children', '<AffFuncBasePrinter as Display>::fmt@FunctionT', '<AffFuncBasePrinter as Display>::fmt@PolytopeT']}
RID = {'C01': 'C01.R5', 'C02': 'C02.R6', 'C03': 'C03.R6', 'C04': 'C04.R5', 'C05': 'C05.R5', 'C06': 'C06.R7', 'C07': 'C07.R7', 'C08': 'C08.R4', 'C09': 'C09.R6', 'C11': 'C11.R4', 'C12': 'C12.R4', 'C13': 'C13.R10', 'C14': 'C14.R4', 'C15': 'C15.R4', 'C16': 'C16.R4', 'C17': 'C17.R5', 'C18': 'C18.R5', 'C19': 'C19.R5'}


def run_for(ctx):
    run(ctx, RID[ctx.prop], DEPS[ctx.prop])


def share_arena_contracts(ctx, rule, failing_paths=False):
    """The effect contracts of the arena mutators (decided under C12.R2, and C12.R3 for the failing paths) as instances of another
    property's rule: the leaf flag / the node count / reachability that property reads are what those contracts maintain."""
    from ..core import Ctx
    from . import c12
    sub = Ctx(ctx.facts, ctx.tier, ctx.prop)
    c12.r2(sub)
    if failing_paths:
        c12.r3(sub)
    for i in sub.insts:
        i.rule = rule
        ctx.insts.append(i)


def share_from(ctx, module, rule, prefixes):
    """instances of another property's module (selected by site prefix) as instances of `rule` of this property"""
    import importlib
    from ..core import Ctx
    mod = importlib.import_module('affcheck.rules.' + module)
    sub = Ctx(ctx.facts, ctx.tier, ctx.prop)
    mod.run(sub)
    seen = set()
    for i in sub.insts:
        if i.site.startswith(tuple(prefixes)) and (i.site, i.what) not in seen:
            seen.add((i.site, i.what))
            i.rule = rule
            ctx.insts.append(i)

"""C06 — infeasible-path elimination is effective and idempotent (structural clauses)."""
from ..mir import Callee, Resolver, fmt, literals, walk, strip_sites as s, edge_literal, EXIT
from ..effects import mut_calls, assigns
from . import prune
from . import helpers
from .prune import is_call

LEVEL = 'other'
RULES = {
    'C06.R11': 'a node is kept without an LP (phase_inh, mirror points) only when the candidate witness passes Polytope::contains: every row within the documented 1e-8 tolerance - a wider slack keeps nodes that are infeasible by more than the tolerance (shared with C14.R1)',
    'C06.R10': 'distillation driver: every composition without pruning (compose::<false, _>) is followed, on every path to the next layer or the return, by infeasible_elimination on the same tree (the nodes of the last neuron are checked too)',
    'C06.R9': 'the path polytope handed to the LP is the conjunction of the path conditions (shared with C09.R1)',
    'C06.R8': 'the links, leaf flags and node set this property reads are what the arena mutators maintain as their effect contracts say (shared with C12.R2)',
    'C06.R7': helpers.RULE_TEXT,
    'C06.R1': 'every non-root node with an Indeterminate cache passes phase_inh -> phase_one -> phase_two (each only if the previous left it Indeterminate) and the result is stored; the only skips are the root and the cached-state arms',
    'C06.R2': 'from an Infeasible classification every path queues the node\'s parent edge for removal and skips its subtree; every queued entry reaches try_remove_child; a cached Infeasible node has its subtree skipped',
    'C06.R3': 'forward_if_redundant(parent of node) is called exactly when the last sibling (n_remaining == 0) has been classified',
    'C06.R5': 'cache discipline (shared with C05.R1/R2/R3): only the elimination writes verdicts, new nodes start Indeterminate, rewritten nodes are reset or are terminals, every cached witness passed the containment test for the node\'s own region',
    'C06.R4': 'the cached-state arms perform no mutation of the tree (a second run changes nothing)',
    'C06.R6': 'no function of the elimination (infeasible_elimination and the AffTree methods it reaches) resets a stored verdict to Indeterminate or borrows it mutably',
}
FLOORS = {'C06.R11': 3, 'C06.R9': 5, 'C06.R8': 15, 'C06.R7': 8, 'C06.R1': 4, 'C06.R2': 5, 'C06.R10': 4, 'C06.R3': 1, 'C06.R4': 2, 'C06.R5': 12, 'C06.R6': 4}
EXPLANATION = 'Must-classify / must-remove / must-forward path rules over the traversal loop of infeasible_elimination.'
DOES_NOT_DECIDE = 'emptiness itself (the LP answer, C10); terminal-count bounds for distilled networks'
CACHED = {'Infeasible', 'Feasible', 'FeasibleWitness'}


def shared_cache_rules(ctx):
    """C06.R5: effectiveness relies on the cache discipline of C05: a node that was never classified (new, or rewritten) carries
    Indeterminate, otherwise the cached-state arms skip it and an empty path survives."""
    from ..core import Ctx
    from . import c05
    sub = Ctx(ctx.facts, ctx.tier, ctx.prop)
    c05.r2(sub)
    c05.r3(sub)
    # a Feasible verdict without a checked witness would shield an empty region from the LP and from removal
    prune.check_witness_guards(sub, 'C06.R5')
    for i in sub.insts:
        i.rule = 'C06.R5'
        ctx.insts.append(i)


def driver_eliminates(ctx):
    """C06.R10: the distilled tree is as pruned as the statement says only if the driver runs the elimination after the composition
    that added nodes (not before it, not only in some arms)."""
    F = ctx.facts
    b = ctx.body('C06.R10', 'afftree_from_layers_generic')
    if b is None:
        return
    R = Resolver(b)
    cfg = b.cfg()
    Q = b.qname
    adt = F.adt('Layer')
    variants = set(v['name'] for v in adt['variants']) if adt else set()
    comps = list(b.calls_to('AffTree::compose'))
    elims = list(b.calls_to('AffTree::infeasible_elimination'))
    ends = set(bb for bb, _ in comps)
    for bb, t in b.calls():
        if Callee(t['func']).name == 'next' and t.get('target') is not None and cfg.reaches(t['target'], bb):
            ends.add(bb)
    for bb, bl in b.live_blocks():
        if bl['term']['k'] == 'return':
            ends.add(bb)
    n = 0
    for bb, t in comps:
        ga = Callee(t['func']).generic_args
        if len(ga) < 3 or ga[1] not in ('true', 'false'):
            ctx.undecided('C06.R10', Q + '#compose', 'pruning flag of a compose call is not a constant', t['span'])
            continue
        if ga[1] == 'true':
            continue
        arm = [l for l in literals(b, R, bb) if l[0] == 'is' and len(l[2]) == 1 and list(l[2])[0] in variants]
        site = '%s#eliminate-after:%s' % (Q, list(arm[0][2])[0] if arm else 'compose%d' % n)
        n += 1
        recv = s(R.call_args(bb)[0])
        same = [eb for eb, _ in elims if s(R.call_args(eb)[0]) == recv]
        if t.get('target') is None:
            continue
        # later tests of the same layer value (an elimination hoisted behind `if !matches!(layer, ..)`) are followed only along the
        # outcomes this arm's variant can take
        dead = []
        if arm:
            for sb, bl in b.live_blocks():
                if bl['term']['k'] != 'switch':
                    continue
                for e in cfg.edge_nodes(sb):
                    lit = edge_literal(b, R, sb, cfg.edge_label[e])
                    if lit and lit[0] == 'is' and s(lit[1]) == s(arm[0][1]) and not (set(arm[0][2]) & set(lit[2])):
                        dead.append(e)
        escapes = [e for e in ends if cfg.reaches(t['target'], e, avoid=same + dead)]
        if escapes:
            ctx.bad('C06.R10', site, 'after this composition without pruning the iteration can end (or the next composition start) without infeasible_elimination on the '
                    'tree being built: the nodes it added are never checked', t['span'])
        else:
            ctx.ok('C06.R10', site, 'infeasible_elimination on the same tree on every path before the next layer', t['span'])
    if n == 0:
        ctx.lost('C06.R10', 'compose::<false, _> calls in afftree_from_layers_generic')


def no_downgrade(ctx):
    """C06.R6: inside the elimination (infeasible_elimination and every AffTree method it reaches) a verdict, once stored, is never reset:
    forwarding tests the stored states of the siblings, and a second run must find every node classified.  Resets to Indeterminate belong to
    the operations that change a node's function or path (C05.R3), not to the elimination."""
    from .c05 import content_field_writes
    F = ctx.facts
    start = F.q('AffTree::infeasible_elimination')
    if start is None:
        ctx.lost('C06.R6', 'AffTree::infeasible_elimination')
        return
    reach = {}
    work = [start]
    while work:
        b = work.pop()
        if b.path in reach:
            continue
        reach[b.path] = b
        for cb in b.closure_bodies():
            work.append(cb)
        for bb, t in b.calls():
            c = Callee(t['func'])
            if c.self_base == 'AffTree' and c.local:
                try:
                    callee = F.q('AffTree::' + c.name)
                except KeyError:
                    callee = None
                if callee is not None:
                    work.append(callee)
    writes = {}
    for w in content_field_writes(F, 'state'):
        if w[0].path in reach:
            writes.setdefault(w[0].path, []).append(w)
    for path, b in sorted(reach.items()):
        if b.kind == 'Closure' and path not in writes:
            continue
        site = '%s#no-downgrade' % b.qname
        bad = []
        for (wb, i, j, kind, tgt, val, owned, span) in writes.get(path, []):
            if owned:
                continue
            if kind == 'assign' and val is not None and not (val[0] == 'agg' and isinstance(val[1], tuple) and val[1][1] == 'NodeState' and val[1][2] == 'Indeterminate'):
                continue   # a verdict being stored (its provenance is C05.R2's concern)
            bad.append(span)
        if bad:
            ctx.bad('C06.R6', site, 'the elimination resets (or hands out for mutation) the cached verdict of a node it has classified: forwarding of the parent and a second run then see an unclassified node', bad[0])
        else:
            ctx.ok('C06.R6', site, 'no reset of a stored verdict', b.span)


def run(ctx):
    helpers.run_for(ctx)
    helpers.share_from(ctx, 'c09', 'C06.R9', ['PolyhedraGen::next#sign-table', 'AffTree::polyhedral_path_characterization#sign-table', 'PolyhedraGen::skip_subtree', 'PolyhedraGen::new', 'PolyhedraGen::with_root', 'AffTree::polyhedra#'])
    helpers.share_arena_contracts(ctx, 'C06.R8')
    shared_cache_rules(ctx)
    no_downgrade(ctx)
    driver_eliminates(ctx)
    # the subtree of a node is left unclassified only when the node is Infeasible (same instances as C03.R4)
    helpers.share_from(ctx, 'c14', 'C06.R11', ['AffFuncBase::contains', 'AffFuncBase::distance'])
    helpers.share_from(ctx, 'c03', 'C06.R2', ['AffTree::infeasible_elimination#skip_subtree:'])
    b = ctx.body('C06.R1', 'AffTree::infeasible_elimination')
    if b is None:
        return
    R = Resolver(b)
    cfg = b.cfg()
    Q = b.qname
    calls = {}
    for bb, t in b.calls():
        c = Callee(t['func'])
        calls.setdefault(c.short, []).append((bb, t))
    def one(name):
        v = calls.get(name, [])
        return v[0] if len(v) == 1 else None
    nxt = one('PolyhedraGen::next')
    inh, ph1, ph2 = one('AffTree::phase_inh'), one('AffTree::phase_one'), one('AffTree::phase_two')
    if not (nxt and inh and ph1 and ph2):
        ctx.lost('C06.R1', 'next/phase_inh/phase_one/phase_two calls (exactly one each) in infeasible_elimination')
        return
    node = R.call_args(ph2[0])[1]
    # ---- R1 (every node is looked at): the traversal loop is left only when the generator is exhausted -- a `break` / early `return` in the
    # loop body leaves the rest of the tree unclassified
    hdrs = [h for h in cfg.loop_headers() if isinstance(h, int) and nxt[0] in cfg.loop_of(h)]
    if hdrs:
        h = max(hdrs, key=lambda x: len(cfg.loop_of(x)))
        exits = cfg.loop_exits(h)
        def exhausted(e):
            # the exit edge is the `None` arm of the switch on next()'s result
            src = e[0]
            tgt = e[1]
            lits_ = literals(b, R, tgt) if isinstance(tgt, int) else []
            return any(l[0] == 'is' and len(l) > 2 and set(l[2]) == {'None'} and is_call(l[1], 'PolyhedraGen::next') for l in lits_)
        good = len(exits) >= 1 and (len(exits) == 1 and exhausted(exits[0]) or all(exhausted(e) for e in exits))
        if good:
            ctx.ok('C06.R1', Q + '#whole-tree', 'the traversal loop ends only when the generator is exhausted: every node is classified or skipped as part of an infeasible subtree', b.where(nxt[0]))
        else:
            ctx.bad('C06.R1', Q + '#whole-tree', 'the traversal loop can be left before the generator is exhausted (%d exits): nodes after that point are never classified' % len(exits), b.where(nxt[0]))
    else:
        ctx.undecided('C06.R1', Q + '#whole-tree', 'traversal loop around PolyhedraGen::next not found', b.span)
    # ---- R1a: phase order
    l1 = literals(b, R, ph1[0])
    l2 = literals(b, R, ph2[0])
    ok1 = any(l[0] == 'is' and l[2] == frozenset(['Indeterminate']) and is_call(l[1], 'AffTree::phase_inh') for l in l1)
    def alts(e):
        return e[2] if e[0] == 'phi' else (e,)
    # one test of the running state (phi of both earlier results) or one test per earlier phase (early returns): both earlier phases left Indeterminate
    ind2 = [l for l in l2 if l[0] == 'is' and l[2] == frozenset(['Indeterminate'])]
    ok2 = any(sorted(a[1] for a in alts(l[1]) if a[0] == 'call') == ['AffTree::phase_inh', 'AffTree::phase_one'] for l in ind2) or \
        ({'AffTree::phase_inh', 'AffTree::phase_one'} <= {l[1][1] for l in ind2 if l[1][0] == 'call'})
    dom = cfg.dominates(inh[0], ph1[0]) and cfg.dominates(inh[0], ph2[0])
    if ok1 and ok2 and dom:
        ctx.ok('C06.R1', Q + '#phase-order', 'phase_one runs iff phase_inh left Indeterminate; phase_two iff both did', ph2[1]['span'])
    else:
        ctx.bad('C06.R1', Q + '#phase-order', 'the fall-through conditions between the phases are not "state is Indeterminate" (a phase may be skipped)', ph2[1]['span'])
    # ---- R1b: result stored at the node on every path from phase_inh
    from .c05 import content_field_writes, node_of
    sw = [w for w in content_field_writes(ctx.facts, 'state') if w[0] is b]
    if len(sw) != 1:
        ctx.bad('C06.R1', Q + '#store', 'expected exactly one write of the computed state', b.span)
        return
    wbb = sw[0][1]
    hdr = [h for h in cfg.loop_headers() if isinstance(h, int) and wbb in cfg.loop_of(h) and inh[0] in cfg.loop_of(h)]
    if not hdr:
        ctx.bad('C06.R1', Q + '#store', 'state write and phases are not in one traversal loop', sw[0][7])
        return
    h = hdr[0]
    loop = cfg.loop_of(h)
    leak = cfg.reaches(inh[0], h, avoid=[wbb]) if inh[0] != wbb else False
    if leak or cfg.reaches(inh[0], EXIT, avoid=[wbb]):
        ctx.bad('C06.R1', Q + '#store', 'a path from the phases back to the loop header (or out of the function) bypasses the state write', sw[0][7])
    else:
        ctx.ok('C06.R1', Q + '#store', 'the verdict is stored on every path from phase_inh to the next iteration', sw[0][7])
    # ---- R1c: the only ways to bypass the phases inside the loop
    bypass_ok = True
    kinds = []
    for (sb, lab) in cfg.guards(inh[0]):
        if sb not in loop:
            continue
        for e in cfg.edge_nodes(sb):
            if cfg.edge_label[e] == lab:
                continue
            # the other outcomes of this test
            if not cfg.reaches(e, h, avoid=[inh[0]]):
                continue  # diverges (assert) or cannot continue the loop
            lit = edge_literal(b, R, sb, cfg.edge_label[e])
            descr = None
            # a private classification of the cached state (`match CacheLookup::of(&state) { Hit.. => .. }`): the arm is taken exactly under
            # the states that build that variant
            if lit:
                from ..mir import built_under
                under = built_under(b, R, lit)
                if under:
                    st = [l for l in under if l[0] == 'is' and l[1][0] == 'field' and l[1][2] == 'state']
                    if len(st) == 1:
                        lit = st[0]
            if lit and any(op_ == 'Eq' and is_call(y_, 'Tree::get_root_idx') and any(s(x) == s(node) for x in walk(x_)) for op_, x_, y_ in prune.cmp_facts([lit])):
                descr = 'node is the root'
            elif lit and lit[0] == 'is' and set(lit[2]) <= CACHED and lit[1][0] == 'field' and lit[1][2] == 'state' and s(node_of(lit[1])[1]) == s(node):
                descr = 'cached state ' + '/'.join(sorted(lit[2]))
            elif lit and lit[0] == 'is' and lit[2] == frozenset(['None']) and is_call(lit[1], 'PolyhedraGen::next'):
                descr = 'traversal finished'
            if descr:
                kinds.append(descr)
            else:
                bypass_ok = False
                ctx.bad('C06.R1', Q + '#skip-condition', 'a node can bypass the classification under a condition that is neither "root" nor "cached state": %s %s'
                        % (lit[0] if lit else '?', fmt(lit[1])[:100] if lit else ''), b.where(sb))
    if bypass_ok:
        ctx.ok('C06.R1', Q + '#skip-condition', 'the phases are bypassed only when: ' + ', '.join(sorted(set(kinds))), inh[1]['span'])
    # the node the cached-state test looks at is the visited node, and Indeterminate falls through
    li = literals(b, R, inh[0])
    if any(l[0] == 'is' and 'Indeterminate' in l[2] and l[1][0] == 'field' and l[1][2] == 'state' and s(node_of(l[1])[1]) == s(node) for l in li):
        ctx.ok('C06.R1', Q + '#indeterminate-falls-through', 'an Indeterminate node reaches the phases', inh[1]['span'])
    else:
        ctx.bad('C06.R1', Q + '#indeterminate-falls-through', 'the Indeterminate arm does not lead to the phases', inh[1]['span'])

    # ---- R2: Infeasible classification -> queue + skip
    inf_edges = []
    for sb, bl in b.live_blocks():
        if bl['term']['k'] != 'switch' or sb not in loop:
            continue
        for e in cfg.edge_nodes(sb):
            lit = edge_literal(b, R, sb, cfg.edge_label[e])
            if lit:
                from ..mir import built_under
                under = built_under(b, R, lit)
                if under:
                    st = [l for l in under if l[0] == 'is' and l[1][0] == 'field' and l[1][2] == 'state']
                    if len(st) == 1:
                        lit = st[0]
            if lit and lit[0] == 'is' and lit[2] == frozenset(['Infeasible']):
                inf_edges.append((sb, e, lit))
    fresh = [x for x in inf_edges if any(is_call(a, 'AffTree::phase_two') for a in walk(x[2][1]))]
    cached = [x for x in inf_edges if x[2][1][0] == 'field' and x[2][1][2] == 'state']
    pushes = [(bb, t) for bb, t in calls.get('Vec::push', [])]
    skips = calls.get('PolyhedraGen::skip_subtree', [])
    if not fresh:
        ctx.lost('C06.R2', 'test of the fresh verdict against Infeasible')
    for (sb, e, lit) in fresh:
        okp = any(not cfg.reaches(e, wbb, avoid=[pb]) for pb, _ in pushes)
        oks = any(not cfg.reaches(e, wbb, avoid=[kb]) for kb, _ in skips)
        if okp and oks:
            ctx.ok('C06.R2', Q + '#fresh-infeasible', 'every path from the Infeasible outcome queues the parent edge and calls skip_subtree before the state is stored', b.where(sb))
        else:
            ctx.bad('C06.R2', Q + '#fresh-infeasible', 'an Infeasible classification can reach the end of the iteration without %s' % ('being queued for removal' if not okp else 'skipping its subtree'), b.where(sb))
    if not cached:
        ctx.lost('C06.R2', 'cached Infeasible arm')
    for (sb, e, lit) in cached:
        oks = any(not cfg.reaches(e, h, avoid=[kb]) for kb, _ in skips)
        if oks:
            ctx.ok('C06.R2', Q + '#cached-infeasible', 'a cached Infeasible node has its subtree skipped on every path', b.where(sb))
        else:
            ctx.bad('C06.R2', Q + '#cached-infeasible', 'cached Infeasible node: subtree not skipped', b.where(sb))
    # deferred loop: every element reaches try_remove_child unless it would be the last child
    rem = calls.get('Tree::try_remove_child', []) + calls.get('Tree::remove_child', [])
    if not rem:
        ctx.bad('C06.R2', Q + '#deferred-removal', 'queued entries are never removed', b.span)
    for rb, t in rem:
        ra = R.call_args(rb)
        lits = literals(b, R, rb)
        extra = [l for l in lits if not (l[0] == 'is' and (is_call(l[1], 'Iterator::next') or is_call(l[1], 'PolyhedraGen::next')))]
        allowed = True

        def atom_ok(x):
            if is_call(x, 'Tree::contains'):
                return True
            if x[0] == 'bin' and x[1] in ('Gt', 'Ge') and is_call(x[2], 'Tree::num_children'):
                return True
            return x[0] == 'bin' and x[1] == 'Lt'
        for l in extra:
            x = l[1]
            if l[0] == 'true' and atom_ok(x):
                continue
            # the same guards in their negated spelling (`if !contains(p) || num_children(p) <= 1 { continue }`)
            if l[0] == 'false' and x[0] == 'un' and x[1] == 'Not' and atom_ok(x[2]):
                continue
            if any(op_ in ('Gt', 'Ge') and is_call(x_, 'Tree::num_children') for op_, x_, y_ in prune.cmp_facts([l])):
                continue
            # the same conjunction held in a variable first (`let removable = contains(p) && num_children(p) > 1; if removable`)
            if l[0] == 'true' and x[0] == 'phi' and len(x) >= 3 and all(a == ('const', False) or atom_ok(a) for a in x[2]):
                continue
            allowed = False
        elem = any(is_call(x, 'Iterator::next') for x in walk(ra[1])) and any(is_call(x, 'Iterator::next') for x in walk(ra[2]))
        if allowed and elem:
            ctx.ok('C06.R2', Q + '#deferred-removal', 'every queued entry is removed (unless its parent vanished or it is the parent\'s last child)', t['span'])
        else:
            ctx.bad('C06.R2', Q + '#deferred-removal', 'the deferred removal skips queued entries under an unexpected condition', t['span'])

    # ---- R3: forwarding
    fw = calls.get('AffTree::forward_if_redundant', [])
    if len(fw) != 1:
        ctx.lost('C06.R3', 'single call of forward_if_redundant')
    else:
        fb, ft = fw[0]
        fa = R.call_args(fb)
        lits = literals(b, R, fb)
        wl = literals(b, R, wbb)
        own = [l for l in lits if (l[0], s(l[1])) not in [(x[0], s(x[1])) for x in wl]]
        nrem = own and len(own) == 1 and any(op_ == 'Eq' and y_ == ('const', 0) and prune.dfs_component(x_) and prune.dfs_component(x_)[1] == 'n_remaining'
                                             for op_, x_, y_ in prune.cmp_facts(own))
        parent = fa[1][0] == 'field' and fa[1][2] == 'source_idx' and is_call(fa[1][1], 'Tree::parent') and s(fa[1][1][2][1]) == s(node)
        after = cfg.dominates(wbb, fb)
        if nrem and parent and after:
            ctx.ok('C06.R3', Q + '#forward', 'forward_if_redundant(parent(node)) runs after the state is stored, exactly when n_remaining == 0', ft['span'])
        else:
            ctx.bad('C06.R3', Q + '#forward', 'forwarding is not "after storing the state, iff n_remaining == 0, for the parent of the visited node" (own guards: %s)'
                    % [(l[0], fmt(l[1])[:60]) for l in own], ft['span'])

    # ---- R4: cached arms are effect free on the tree
    arms = {}
    for i, bl in b.live_blocks():
        for l in literals(b, R, i):
            if l[0] == 'is' and set(l[2]) <= CACHED and l[1][0] == 'field' and l[1][2] == 'state' and s(node_of(l[1])[1]) == s(node):
                arms.setdefault('/'.join(sorted(l[2])), set()).add(i)
    if not arms:
        ctx.lost('C06.R4', 'cached-state arms')
    muts = [w for w in mut_calls(b, R) if not w.owned] + [w for w in assigns(b, R) if not w.owned]
    for name, blocks in sorted(arms.items()):
        bad = [w for w in muts if w.bb in blocks]
        site = Q + '#cached-arm:' + name
        if bad:
            for w in bad:
                ctx.bad('C06.R4', site, 'the cached-state arm mutates the tree (%r): a second run would change it' % (w,), w.span)
        else:
            ctx.ok('C06.R4', site, 'no write through &mut self in %d block(s)' % len(blocks), b.span)

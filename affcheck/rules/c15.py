"""C15 — constraint clean-up keeps the same point set (structural clauses)."""
from ..mir import Callee, Resolver, fmt, literals, walk, strip_sites as s
from ..effects import assigns
from . import prune
from . import helpers
from .prune import is_call

LEVEL = 'other'
RULES = {
    'C15.R5': 'remove_redundant_row_constraints decides "implied by the others" with the LP layer: the program solved is max of the row over the other rows, and the outcome table of solve_linprog is the back-end\'s (shared with C10.R1/R2)',
    'C15.R4': helpers.RULE_TEXT,
    'C15.R1': 'rows are only dropped: the rows handed to from_row_iter come from zip(rows of self.mat, self.bias) through enumerate/filter/filter_map/map(projection) only; duplicate/redundant removal return remove_rows of self; from_row_iter copies item i to row i / bias i element-wise (no memory-order access)',
    'C15.R2': 'normalisation divides a row and its bias by the same positive norm sqrt(sum x^2), used only under norm > eps',
    'C15.R3': 'guard directions: all-zero row dropped only under bias >= 0 (else canonical empty); duplicate only if rows AND biases compare equal; redundant only in the Optimal arm under a_i·p <= b_i + eps for objective -a_i over the other rows; Unbounded keeps, Error -> Err, Infeasible -> empty',
}
FLOORS = {'C15.R5': 5, 'C15.R4': 3, 'C15.R1': 7, 'C15.R2': 1, 'C15.R3': 8}
EXPLANATION = 'Provenance and guard rules: a clean-up can only drop rows of the input, and drops one only under the stated test.'
DOES_NOT_DECIDE = 'set equality (whether a dropped row was really implied: the LP answer and relative_eq\'s tolerance), minimality of the result'
PASS_THROUGH = {'Iterator::enumerate', 'Iterator::filter', 'Iterator::filter_map', 'Iterator::map', 'Itertools::collect_vec', 'Iterator::collect', 'Iterator::zip', 'Iterator::rev'}


def row_source(e):
    """strip adaptors down to zip(axis_iter(self.mat, Axis(0)), self.bias); returns (ok, adaptors, closures)"""
    adaptors = []
    closures = []
    x = e
    while x[0] == 'call' and x[1] in PASS_THROUGH and x[1] != 'Iterator::zip':
        adaptors.append(x[1])
        if len(x[2]) > 1 and x[2][1][0] == 'closure':
            closures.append((x[1], x[2][1]))
        x = x[2][0]
    ok = is_call(x, 'Iterator::zip') and is_call(x[2][0], 'ArrayBase::axis_iter') and x[2][0][2][0] == ('field', ('param', 'self'), 'mat') and \
        x[2][0][2][1] == ('agg', ('adt', 'Axis', 'Axis', ('0',)), (('const', 0),)) and x[2][1] == ('field', ('param', 'self'), 'bias')
    return ok, adaptors, closures


def is_projection(F, kind, cexpr):
    """map/filter_map closures may only select components of their argument"""
    cb, rets = prune.closure_ret(F, cexpr)
    if not rets:
        return False
    arg = ('param', cb.arg_names()[1])
    def proj(e):
        if e == arg:
            return True
        if e[0] == 'field' and e[2].isdigit():
            return proj(e[1])
        if e[0] == 'agg' and e[1] == 'tuple':
            return all(proj(x) for x in e[2])
        if e[0] == 'agg' and isinstance(e[1], tuple) and e[1][1] == 'Option':
            return all(proj(x) for x in e[2])
        if e[0] == 'phi':
            return all(proj(x) for x in e[2])
        return False
    return all(proj(r) for r in rets)


LAYOUT_DEPENDENT = ('as_slice_memory_order', 'as_slice_memory_order_mut', 'into_raw_vec', 'into_raw_vec_and_offset', 'as_ptr', 'as_mut_ptr',
                    'from_shape_vec_unchecked', 'from_shape_ptr', 'raw_view', 'raw_view_mut', 'assume_init')


def from_row_iter_copy(ctx, F, rule='C15.R1'):
    """`from_row_iter(indim, outdim, rows)` is what every row-dropping clean-up ends in: the i-th item (x, y) of `rows` must become row i of
    the matrix (copied element by element in logical order: `assign`) and element i of the bias, for every i < outdim."""
    from ..effects import assigns
    b = ctx.body(rule, 'AffFuncBase::from_row_iter')
    if b is None:
        return
    site = 'AffFuncBase::from_row_iter#copy'
    R = Resolver(b)
    rets = [e for _, e in R.return_expr()]
    if len(rets) != 1 or not is_call(rets[0], 'AffFuncBase::from_mats'):
        ctx.undecided(rule, site, 'the result is not one from_mats(mat, bias)', b.span)
        return
    M, B = rets[0][2]
    problems = []
    # no layout-dependent access to the contents of a row anywhere below from_row_iter
    for bd in [b] + list(b.closure_bodies()):
        for bb, t in bd.calls():
            if Callee(t['func']).name in LAYOUT_DEPENDENT:
                problems.append('a row is read through %s: memory order differs from logical order for strided or reversed views' % Callee(t['func']).name)
    if problems:
        for p_ in sorted(set(problems)):
            ctx.bad(rule, site, p_, b.span)
        return
    shape_ok = is_call(M, 'ArrayBase::zeros') and s(M[2][0]) == ('agg', 'tuple', (('param', 'outdim'), ('param', 'indim'))) and \
        is_call(B, 'ArrayBase::zeros') and s(B[2][0]) == ('param', 'outdim')
    if not shape_ok:
        ctx.undecided(rule, site, 'matrix / bias are not zeros((outdim, indim)) / zeros(outdim) filled in place (found %s, %s)' % (fmt(s(M))[:80], fmt(s(B))[:60]), b.span)
        return
    # One `assign` copies the coefficient vector, one write sets the bias.  Both name a *row cursor* (which row of the result) and a
    # *source item* (which element of `rows`); the rule is that the two writes agree on both, that the cursor sweeps the rows in order and
    # that one source item is consumed per row:
    #   cursor  = the item of  mat.axis_iter_mut(Axis(0)) zipped with the bias (ndarray Zip::and + for_each closure, or std zip in a loop)
    #           | an explicit index i used as mat.row_mut(i) / bias[i]
    #   source  = the item of `rows` fetched in that iteration (next(), however it is unwrapped), or the enumerate item whose index is i
    AX0 = (('const', 0),)

    def rows_of_M(x):
        return is_call(x, 'ArrayBase::axis_iter_mut', 'ArrayBase::outer_iter_mut', 'ArrayBase::rows_mut') and s(x[2][0]) == s(M) and \
            (not is_call(x, 'ArrayBase::axis_iter_mut') or s(x[2][1])[2] == AX0)

    def elems_of_B(x):
        while is_call(x, 'ArrayBase::iter_mut', 'ArrayBase::outer_iter_mut', 'IntoIterator::into_iter') and x[2]:
            x = x[2][0]
        return s(x) == s(B)

    def strip_unwrap(e):
        while is_call(e, 'Option::unwrap_or_else', 'Option::unwrap', 'Option::expect') and e[2]:
            e = e[2][0]
        return e

    def source_item(e, k):
        """e = component k of an item of `rows`: (description of the item, index expression or None)"""
        if e[0] != 'field' or e[2] != k:
            return None
        x = strip_unwrap(e[1])
        if is_call(x, 'Iterator::next') and s(strip_unwrap(x[2][0])) == ('param', 'rows'):
            return ('next', None)
        # enumerate(rows) [.take(outdim)]: item = (i, (x, y))
        if x[0] == 'field' and x[2] == '1' and is_call(x[1], 'Iterator::next'):
            en = x[1][2][0]
            if is_call(en, 'Iterator::take') and s(en[2][1]) == ('param', 'outdim'):
                en = en[2][0]
            if is_call(en, 'enumerate', 'Iterator::enumerate') and s(en[2][0]) == ('param', 'rows'):
                return ('enumerate', s(('field', x[1], '0')))
        return None

    def std_zip_cursor(e, want_M):
        """e = the matrix-row / bias component of next(zip(rows of M, elements of B)) in either order"""
        if e[0] != 'field' or e[2] not in ('0', '1') or not is_call(e[1], 'Iterator::next') or not is_call(e[1][2][0], 'zip', 'Iterator::zip'):
            return None
        z = e[1][2][0][2]
        k = int(e[2])
        if rows_of_M(z[0]) and elems_of_B(z[1]):
            return s(e[1]) if (k == 0) == want_M else None
        if rows_of_M(z[1]) and elems_of_B(z[0]):
            return s(e[1]) if (k == 1) == want_M else None
        return None

    sites_ = []   # (body, resolver, closure info or None)
    fe = [(bb, R.call_args(bb)) for bb, t in b.calls_to('Zip::for_each')]
    if len(fe) == 1 and fe[0][1][1][0] == 'closure':
        z = fe[0][1][0]
        cb = F.closure(fe[0][1][1][1])
        zip_ok = is_call(z, 'Zip::and') and is_call(z[2][0], 'Zip::from') and rows_of_M(z[2][0][2][0]) and elems_of_B(z[2][1])
        if cb is None or not zip_ok:
            ctx.undecided(rule, site, 'Zip::for_each does not sweep (rows of the matrix, elements of the bias)', b.span)
            return
        names = cb.arg_names()
        caps = fe[0][1][1][2]
        idx = cb.upvar_index()
        Rc = Resolver(cb)

        def unup(e):
            # a captured iterator is the caller's value
            if isinstance(e, tuple) and e[:1] == ('upvar',):
                i = idx.get(e[1])
                return caps[i] if i is not None and i < len(caps) else e
            if isinstance(e, tuple):
                return tuple(unup(x) for x in e)
            return e
        body_, R_ = cb, Rc
        cur_M = lambda e: 'zip-closure' if e == ('param', names[1]) else None
        cur_B = lambda e: 'zip-closure' if e == ('param', names[2]) else None
    else:
        unup = lambda e: e
        body_, R_ = b, R
        names = None

        def cur_M(e):
            c = std_zip_cursor(e, True)
            if c is not None:
                return ('zip', c)
            if is_call(e, 'ArrayBase::row_mut') and s(e[2][0]) == s(M):
                return ('index', s(e[2][1]))
            if is_call(e, 'ArrayBase::index_axis_mut') and s(e[2][0]) == s(M) and s(e[2][1])[2] == AX0:
                return ('index', s(e[2][2]))
            return None

        def cur_B(e):
            c = std_zip_cursor(e, False)
            if c is not None:
                return ('zip', c)
            if is_call(e, 'IndexMut::index_mut') and s(e[2][0]) == s(B):
                return ('index', s(e[2][1]))
            return None
    asg = [(bb, R_.call_args(bb), literals(body_, R_, bb)) for bb, t in body_.calls_to('ArrayBase::assign')]
    ws = [w for w in assigns(body_, R_)]
    bws = [w for w in ws if cur_B(w.target) is not None]
    others = [w for w in ws if w not in bws and any(s(x) in (s(M), s(B)) for x in walk(w.target))]
    if len(asg) != 1 or len(bws) != 1:
        ctx.undecided(rule, site, 'expected one `assign` of a row and one write of a bias element (found %d / %d)' % (len(asg), len(bws)), b.span)
        return
    _, (tgt, srcv), lits = asg[0]
    w = bws[0]
    cm, cbias = cur_M(tgt), cur_B(w.target)
    sm, sb = source_item(unup(srcv), '0'), source_item(unup(w.value), '1')
    loop_only = lambda ls: all(l[0] == 'is' and is_call(l[1], 'Iterator::next') for l in ls)
    if cm is None or cm != cbias:
        problems.append('the row written and the bias element written do not belong to the same row of the result')
    if sm is None:
        problems.append('row i of the matrix is not assigned the coefficient vector of an item of `rows`')
    if sb is None or (sm is not None and (sb != sm or s(unup(w.value)[1]) != s(unup(srcv)[1]))):
        problems.append('element i of the bias is not the bias of the item whose coefficients were copied into row i')
    if sm is not None and sm[0] == 'enumerate' and cm is not None and cm != ('index', sm[1]):
        problems.append('the enumerate index of the item is not the row it is written to')
    if sm is not None and sm[0] == 'next' and cm is not None and cm[0] == 'index':
        problems.append('items are fetched with next() but written to an explicitly indexed row: the pairing of item and row is not decided')
    if not loop_only(lits) or not loop_only(literals(body_, R_, w.bb)):
        problems.append('a row or bias element is copied only under a condition')
    if others:
        problems.append('the matrix or the bias is written by something other than the two copies')
    if problems:
        for p_ in sorted(set(problems)):
            ctx.bad(rule, site, p_, b.span)
    else:
        ctx.ok(rule, site, 'item i of `rows` -> row i (element-wise `assign`, layout independent) and bias i, for every row, nothing else written', b.span)


def run(ctx):
    helpers.run_for(ctx)
    helpers.share_from(ctx, 'c10', 'C15.R5', ['AffFuncBase::solve_linprog#', 'AffFuncBase::as_linprog#', 'AffFuncBase::status#'])
    prune.check_layout_independence(ctx, 'C15.R1')
    F = ctx.facts
    SELF = ('param', 'self')
    from_row_iter_copy(ctx, F)
    for name in ('remove_rows', 'remove_zero_rows', 'remove_tautologies'):
        b = ctx.body('C15.R1', 'AffFuncBase::' + name)
        if b is None:
            continue
        R = Resolver(b)
        fr = [(bb, R.call_args(bb), t) for bb, t in b.calls_to('AffFuncBase::from_row_iter')]
        site = 'AffFuncBase::%s#rows' % name
        if len(fr) != 1:
            ctx.bad('C15.R1', site, 'expected one from_row_iter call', b.span)
            continue
        a = fr[0][1]
        ok, adaptors, closures = row_source(a[2])
        len_ok = is_call(a[1], 'Vec::len') and s(a[1][2][0]) == s(a[2])
        dim_ok = is_call(a[0], 'AffFuncBase::indim') and a[0][2][0] == SELF
        bad_clo = [k for k, c in closures if k in ('Iterator::map', 'Iterator::filter_map') and not is_projection(F, k, c)]
        if not ok and is_call(a[2], 'Vec::new', 'Vec::with_capacity'):
            # the kept rows are pushed in a loop over the rows instead of being filtered by an iterator chain: every pushed value is a
            # component selection of the loop item, at most one push per iteration, the count is the vector's length after the loop
            els = prune.vec_elements(F, b, R, a[2]) or []
            cfg = b.cfg()
            pushes = [bb for bb, t in b.calls() if Callee(t['func']).name == 'push' and R.call_args(bb)[0] == a[2]]

            def proj_of_item(e):
                x = e
                while True:
                    if x[0] == 'field' and x[2].isdigit():
                        x = x[1]
                    elif x[0] == 'agg' and x[1] == 'tuple' and len(x[2]) == 2 and x[2][0][0] == 'field' and x[2][1][0] == 'field' and s(x[2][0][1]) == s(x[2][1][1]) and (x[2][0][2], x[2][1][2]) == ('0', '1'):
                        x = x[2][0][1]
                    else:
                        break
                return x if is_call(x, 'Iterator::next') else None
            items = [proj_of_item(e) for e in els]
            src_ok = bool(items) and all(it is not None and row_source(it[2][0])[0] for it in items)
            if src_ok:
                chains = [row_source(it[2][0]) for it in items]
                bad_clo = [k for ch in chains for k, c in ch[2] if k in ('Iterator::map', 'Iterator::filter_map') and not is_projection(F, k, c)]
                adaptors = chains[0][1] + ['push loop']
            hdrs = [h for h in cfg.loop_headers() if isinstance(h, int) and pushes and all(p_ in cfg.loop_of(h) for p_ in pushes)]
            once = bool(hdrs) and all(not cfg.reaches(p1, p2, avoid=[hdrs[0]]) for p1 in pushes for p2 in pushes if p1 != p2)
            ok = src_ok and once
            len_ok = is_call(a[1], 'Vec::len') and a[1][2][0] == a[2] and bool(hdrs) and a[1][3] not in cfg.loop_of(hdrs[0]) and cfg.dominates(hdrs[0], a[1][3])
        if ok and len_ok and dim_ok and not bad_clo:
            ctx.ok('C15.R1', site, 'rows = zip(self.mat rows, self.bias) through %s; no arithmetic on kept rows' % ' . '.join(reversed([x.split('::')[-1] for x in adaptors])), fr[0][2]['span'])
        else:
            ctx.bad('C15.R1', site, 'the result rows are not a sub-sequence of (row i of self.mat, self.bias[i]) pairs (source=%s count=%s dim=%s non-projection closures=%s)'
                    % (ok, len_ok, dim_ok, bad_clo), fr[0][2]['span'])
        # other results are canonical
        rets = [e for _, e in R.return_expr()]
        alts = rets[0][2] if rets and rets[0][0] == 'phi' else tuple(rets)
        others = [x for x in alts if not is_call(x, 'AffFuncBase::from_row_iter')]
        if all(is_call(x, 'AffFuncBase::empty', 'AffFuncBase::unbounded') and is_call(x[2][0], 'AffFuncBase::indim') for x in others):
            pass
        else:
            ctx.bad('C15.R1', site + ':other-results', 'a clean-up returns something that is neither a row subset nor the canonical empty/unbounded polytope: %s' % [fmt(x)[:60] for x in others], b.span)
    for name in ('remove_duplicate_rows', 'remove_redundant_row_constraints'):
        b = ctx.body('C15.R1', 'AffFuncBase::' + name)
        if b is None:
            continue
        R = Resolver(b)
        rets = [e for _, e in R.return_expr()]
        alts = rets[0][2] if rets and rets[0][0] == 'phi' else tuple(rets)
        def final(x):
            if x[0] == 'agg' and isinstance(x[1], tuple) and x[1][2] in ('Ok',):
                x = x[2][0]
            return x
        ok = True
        kinds = []
        for x in alts:
            y = final(x)
            if is_call(y, 'AffFuncBase::remove_rows') and y[2][0] == SELF:
                kinds.append('remove_rows(self)')
            elif is_call(y, 'AffFuncBase::empty'):
                kinds.append('empty')
            elif x[0] == 'agg' and isinstance(x[1], tuple) and x[1][2] == 'Err':
                kinds.append('Err')
            else:
                ok = False
                kinds.append(fmt(y)[:50])
        (ctx.ok if ok and 'remove_rows(self)' in kinds else ctx.bad)('C15.R1', 'AffFuncBase::%s#result' % name, 'returns ' + ' | '.join(kinds) if ok else
                                                                  'result is not remove_rows of self / canonical: %s' % kinds, b.span)
    zero_rows(ctx, F)
    normalize(ctx, F)
    tautologies(ctx, F)
    duplicates(ctx, F)
    redundant(ctx, F)


def zero_rows(ctx, F):
    """remove_zero_rows may drop an all-zero row only when its bias makes it a tautology (bias >= 0); rows with a non-zero coefficient
    are always kept.  Decided on the closure's truth table over {all-zero, not} x {bias <0, =0, >0} (affcheck/absint.py)."""
    from ..absint import truth_table, Unknown
    b = ctx.body('C15.R3', 'AffFuncBase::remove_zero_rows')
    if b is None:
        return
    site = 'AffFuncBase::remove_zero_rows#keep-test'
    clos = [cb for cb in b.closure_bodies() if cb.parent == b.path]
    if len(clos) != 1:
        # no filter closure: the rows may be kept by pushes in a loop; same truth table, computed over one loop iteration
        from ..absint import loop_truth_table
        R = Resolver(b)
        fr = [R.call_args(bb) for bb, t in b.calls_to('AffFuncBase::from_row_iter')]
        try:
            if len(fr) != 1:
                raise Unknown('expected one from_row_iter call')
            lt = loop_truth_table(F, b, R, fr[0][2])
        except Unknown as e:
            ctx.undecided('C15.R3', site, 'expected one filter closure or one push loop (%s)' % e, b.span)
            return
        tt = {k: (True if v == 'keep' else (False if v == 'drop' else v)) for k, v in lt.items()}
        clos = [b]
    else:
        try:
            tt = truth_table(F, clos[0])
        except Unknown as e:
            ctx.undecided('C15.R3', site, 'the keep test leaves the (all-zero?, sign of bias) domain: %s' % e, clos[0].span)
            return
    bad = [k for k, v in tt.items() if v is not True and (k[0] is False or k[1] < 0)]
    if bad:
        ctx.bad('C15.R3', site, 'rows are dropped that are not tautologies: %s (key = (all coefficients zero, sign of bias))' % bad, clos[0].span)
    else:
        dropped = sorted(k for k, v in tt.items() if v is not True)
        ctx.ok('C15.R3', site, 'only all-zero rows with bias >= 0 can be dropped (dropped cases: %s)' % dropped, clos[0].span)


def normalize(ctx, F):
    b = ctx.body('C15.R2', 'AffFuncBase::normalize')
    if b is None:
        return
    R = Resolver(b)
    site = 'AffFuncBase::normalize'
    zips = [R.call_args(bb) for bb, t in b.calls() if Callee(t['func']).name == 'zip']
    SM, SB = ('field', ('param', 'self'), 'mat'), ('field', ('param', 'self'), 'bias')

    def rows_of(x, base):
        return (is_call(x, 'ArrayBase::outer_iter_mut', 'ArrayBase::rows_mut', 'ArrayBase::axis_iter_mut') and x[2][0] == base) or x == base   # iter_mut is transparent
    okz = any(rows_of(z[0], SM) and rows_of(z[1], SB) for z in zips)
    # the factor is a norm of the row being scaled: sqrt(..) of an expression over that row only (any positive factor keeps the
    # point set; positivity is what the `norm > eps` guard below establishes, so the kind of norm is not prescribed)
    sq = [R.call_args(bb) for bb, t in b.calls() if Callee(t['func']).name == 'sqrt']
    norm_ok = False
    if len(sq) == 1:
        comps = [x[2] for x in walk(sq[0][0]) if isinstance(x, tuple) and x[:1] == ('field',) and is_call(x[1], 'Iterator::next')]
        norm_ok = comps == ['0']   # the matrix-row component of the (row, bias) pair, nothing else
        if not norm_ok and sq[0][0][0] == 'var':
            # the sum accumulated in a loop (hand-written or a desugared `fold`, possibly in an inlined helper): every definition of the
            # accumulator mentions, of the zipped pair, the matrix row only
            defs_ = [d[2] for d in R.var_defs(sq[0][0][1])]
            comps = sorted(set(x[2] for d in defs_ for x in walk(d) if isinstance(x, tuple) and x[:1] == ('field',) and is_call(x[1], 'Iterator::next') and is_call(x[1][2][0], 'zip')))
            norm_ok = comps == ['0']
    # both divisions use the same norm and are guarded by norm > eps: `view.map_inplace(|x| *x /= norm)` or, for a single entry, `*entry /= norm`
    divs = []
    for bb, t in b.calls():
        c = Callee(t['func'])
        if c.name == 'map_inplace':
            a = R.call_args(bb)
            cb, rets = prune.closure_ret(F, a[1])
            caps = a[1][2]
            lits = literals(b, R, bb)
            guard = any(op_ == 'Gt' for op_, x_, y_ in prune.cmp_facts(lits))
            isdiv = bool(rets) and is_call(rets[0], 'DivAssign::div_assign') and rets[0][2][1] == ('upvar', 'norm')
            divs.append((a[0], caps, guard, isdiv))
        elif c.name == 'div_assign' and not t.get('exp'):
            a = R.call_args(bb)
            lits = literals(b, R, bb)
            guard = any(op_ == 'Gt' for op_, x_, y_ in prune.cmp_facts(lits))
            divs.append((a[0], (a[1],), guard, True))
    def comp_of(tgt):
        # (zipped item, component) a division applies to: the component itself, or every element of it in turn (`row.iter_mut().for_each(..)`)
        if tgt[0] == 'field' and is_call(tgt[1], 'Iterator::next'):
            return tgt[1], tgt[2]
        if is_call(tgt, 'Iterator::next') and tgt[2] and tgt[2][0][0] == 'field' and is_call(tgt[2][0][1], 'Iterator::next'):
            return tgt[2][0][1], tgt[2][0][2]
        return None, None
    cs = [comp_of(d[0]) for d in divs]
    comps_scaled = sorted(c[1] for c in cs if c[1] is not None)
    same = len(divs) == 2 and s(divs[0][1]) == s(divs[1][1]) and all(d[2] and d[3] for d in divs) and comps_scaled == ['0', '1'] and \
        s(cs[0][0]) == s(cs[1][0])
    # nothing else writes the rows: every other &mut use of self's arrays is iteration plumbing
    from ..effects import mut_calls, assigns
    PLUMBING = {'outer_iter_mut', 'rows_mut', 'axis_iter_mut', 'iter_mut', 'next', 'zip', 'into_iter', 'enumerate', 'view_mut', 'row_mut', 'index_mut', 'for_each'}
    others = [w for w in mut_calls(b, R) if w.callee.name not in PLUMBING and w.callee.name not in ('map_inplace', 'div_assign')
              and any(isinstance(x, tuple) and x[:2] == ('field', ('param', 'self')) for a_ in w.args[:1] for x in walk(a_))]
    others += [w for w in assigns(b, R) if any(isinstance(x, tuple) and x[:2] == ('field', ('param', 'self')) for x in walk(w.target))]
    if others:
        w = others[0]
        ctx.bad('C15.R2', site + '#other-writes', 'a row or bias entry is written by something other than the division by the row norm (%s): the result is no positive scaling of the original row'
                % (w.callee.short if hasattr(w, 'callee') else 'assignment'), getattr(w, 'span', b.span))
    if okz and norm_ok and same:
        ctx.ok('C15.R2', site, 'row i and bias i are divided by the same sqrt(sum x^2) of row i, only under norm > eps', b.span)
    else:
        ctx.bad('C15.R2', site, 'normalisation is not one positive factor per (row, bias) pair (zip=%s norm=%s same-factor/guard=%s)' % (okz, norm_ok, same), b.span)


def tautologies(ctx, F):
    from ..absint import truth_table, Unknown
    b = ctx.body('C15.R3', 'AffFuncBase::remove_tautologies')
    if b is None:
        return
    site = 'AffFuncBase::remove_tautologies#closure'
    clos = [cb for cb in b.closure_bodies() if cb.parent == b.path]
    loop_done = False
    # two passes over the rows: `rows.find(|row| <infeasible constant row>)` (or any / position) decides "empty", a second pass filters the
    # rows that stay.  Both closures get their truth table over the six abstract (all-zero?, sign of bias) cases.
    R2 = Resolver(b)
    searches = [(bb, R2.call_args(bb)) for bb, t in b.calls() if Callee(t['func']).name in ('find', 'any', 'position') and Callee(t['func']).trait == 'Iterator'
                and len(R2.call_args(bb)) == 2 and R2.call_args(bb)[1][0] == 'closure']
    filters = [(bb, R2.call_args(bb)) for bb, t in b.calls() if Callee(t['func']).name == 'filter' and Callee(t['func']).trait == 'Iterator'
               and len(R2.call_args(bb)) == 2 and R2.call_args(bb)[1][0] == 'closure']
    if len(searches) == 1 and len(filters) == 1 and not list(b.calls_to('Iterator::filter_map')):
        def rows_src(e):
            return is_call(e, 'zip', 'Iterator::zip') and is_call(e[2][0], 'ArrayBase::axis_iter', 'ArrayBase::outer_iter', 'ArrayBase::rows') and \
                e[2][0][2][0] == ('field', ('param', 'self'), 'mat') and any(x == ('field', ('param', 'self'), 'bias') for x in walk(e[2][1]))
        try:
            pe = truth_table(F, F.closure(searches[0][1][1][1]))
            kp = truth_table(F, F.closure(filters[0][1][1][1]))
        except Unknown as e:
            ctx.undecided('C15.R3', site, 'a row test leaves the (all-zero?, sign of bias) domain: %s' % e, b.span)
            return
        problems = []
        if not (rows_src(searches[0][1][0]) and rows_src(filters[0][1][0])):
            problems.append('the two passes do not both run over zip(rows of self.mat, self.bias)')
        # `empty` is returned exactly when the search succeeded
        e_ = [(bb, literals(b, R2, bb)) for bb, t in b.calls_to('AffFuncBase::empty')]
        found = lambda l: (l[0] == 'is' and l[2] == frozenset(['Some']) and s(l[1]) == s(('call', 'Iterator::' + Callee(b.blocks[searches[0][0]]['term']['func']).name, tuple(searches[0][1])))) or \
            (l[0] == 'true' and is_call(l[1], 'Iterator::any') and s(l[1][2]) == s(tuple(searches[0][1])))
        if len(e_) != 1 or not any(found(l) for l in e_[0][1]):
            problems.append('the canonical empty polytope is not returned exactly when the search for an infeasible row succeeds')
        for (allzero, sign) in pe:
            if pe[(allzero, sign)] is True and not (allzero and sign < 0):
                problems.append('a row that is not "all-zero with negative bias" (%s, bias %s 0) makes the polytope empty' % ('all-zero' if allzero else 'non-zero', '<' if sign < 0 else ('=' if sign == 0 else '>')))
            if not allzero and kp[(allzero, sign)] is not True:
                problems.append('a row with a non-zero coefficient is not kept')
            if allzero and sign < 0 and pe[(allzero, sign)] is not True and kp[(allzero, sign)] is not True:
                problems.append('an all-zero row with negative bias (infeasible) is dropped instead of emptying the polytope')
        if problems:
            for p_ in sorted(set(problems)):
                ctx.bad('C15.R3', site, p_, b.span)
        else:
            ctx.ok('C15.R3', site, 'two passes: empty iff some all-zero row has negative bias; rows with a non-zero coefficient kept (truth tables of both row tests over 6 abstract cases)', b.span)
            ctx.ok('C15.R3', 'AffFuncBase::remove_tautologies#empty', 'canonical empty only when the search found an infeasible row', b.span)
        return
    if len(clos) != 1:
        # the same decision written as a loop: push = keep, continue = drop, `return empty(..)` = the whole polytope is empty
        from ..absint import loop_truth_table
        R0 = Resolver(b)
        fr = [R0.call_args(bb) for bb, t in b.calls_to('AffFuncBase::from_row_iter')]
        try:
            if len(fr) != 1:
                raise Unknown('expected one from_row_iter call')
            lt = loop_truth_table(F, b, R0, fr[0][2])
            problems = []
            for (allzero, sign), v in lt.items():
                is_empty = isinstance(v, tuple) and v[0] == 'return' and v[1] == ('canonical', 'empty')
                if not allzero and v != 'keep':
                    problems.append('a row with a non-zero coefficient is not kept unchanged (%s)' % (v,))
                if allzero and sign < 0 and not (is_empty or v == 'keep'):
                    problems.append('an all-zero row with negative bias (infeasible) is dropped instead of emptying the polytope')
                if allzero and sign >= 0 and v not in ('drop', 'keep'):
                    problems.append('an all-zero row with bias %s 0 (a tautology) makes the polytope empty' % ('=' if sign == 0 else '>'))
            if problems:
                for p_ in sorted(set(problems)):
                    ctx.bad('C15.R3', site, p_, b.span)
            else:
                ctx.ok('C15.R3', site, 'all-zero row: bias >= 0 -> dropped, bias < 0 -> whole polytope empty; other rows kept unchanged (truth table over 6 abstract cases of one loop iteration)', b.span)
                ctx.ok('C15.R3', 'AffFuncBase::remove_tautologies#empty', 'canonical empty only from the iteration that met an infeasible row', b.span)
            loop_done = True
        except Unknown as e:
            ctx.undecided('C15.R3', site, 'expected one filter_map closure or one push loop (%s)' % e, b.span)
            loop_done = True
    else:
        try:
            tt = truth_table(F, clos[0])
            KEEP = ('some', ('some', ('tuple', ['ROW', 'BIAS'])))
            DROP = ('none',)
            EMPTY = ('some', ('none',))
            problems = []
            for (allzero, sign), v in tt.items():
                if not allzero and v != KEEP:
                    problems.append('a row with a non-zero coefficient is not kept unchanged (%s)' % (v,))
                if allzero and sign < 0 and v not in (EMPTY, KEEP):
                    problems.append('an all-zero row with negative bias (infeasible) is dropped instead of emptying the polytope')
                if allzero and sign >= 0 and v not in (DROP, KEEP):
                    problems.append('an all-zero row with bias %s 0 (a tautology) makes the polytope empty' % ('=' if sign == 0 else '>'))
            if problems:
                for p_ in sorted(set(problems)):
                    ctx.bad('C15.R3', site, p_, clos[0].span)
            else:
                ctx.ok('C15.R3', site, 'all-zero row: bias >= 0 -> dropped, bias < 0 -> whole polytope empty; other rows kept unchanged (truth table over 6 abstract cases)', clos[0].span)
        except Unknown as e:
            ctx.undecided('C15.R3', site, 'the tautology test leaves the (all-zero?, sign of bias) domain: %s' % e, clos[0].span)
    if loop_done:
        return
    R = Resolver(b)
    e = [(bb, literals(b, R, bb)) for bb, t in b.calls_to('AffFuncBase::empty')]
    oke = len(e) == 1 and any(l[0] == 'is' and l[2] == frozenset(['None']) for l in e[0][1])
    (ctx.ok if oke else ctx.bad)('C15.R3', 'AffFuncBase::remove_tautologies#empty', 'canonical empty only when a row was found infeasible (collect::<Option<_>> is None)' if oke else
                                 'the canonical empty polytope is returned under the wrong condition', b.span)


def duplicates(ctx, F):
    b = ctx.body('C15.R3', 'AffFuncBase::remove_duplicate_rows')
    if b is None:
        return
    R = Resolver(b)
    site = 'AffFuncBase::remove_duplicate_rows#push'
    pushes = [(bb, R.call_args(bb), t) for bb, t in b.calls_to('Vec::push')]
    ok = False
    if len(pushes) == 1:
        bb, a, t = pushes[0]
        i = a[1]
        lits = list(literals(b, R, bb))
        # `if (0..i).rev().any(|j| rows_equal(i, j)) { push(i) }`: the push is guarded by whatever makes the closure true for some j
        for l in list(lits):
            if l[0] == 'true' and is_call(l[1], 'Iterator::any') and len(l[1][2]) == 2 and l[1][2][1][0] == 'closure':
                extra = prune.closure_true_facts(F, l[1][2][1])
                if extra:
                    cbx = F.closure(l[1][2][1][1])
                    item = ('call', 'Iterator::next', (l[1][2][0],))
                    lits += [(f[0], prune.subst(f[1], {('param', cbx.arg_names()[-1]): item})) + tuple(f[2:]) for f in extra]
        eqs = [l for l in lits if l[0] == 'true' and is_call(l[1], 'RelativeEq::relative_eq')]
        mat = [l for l in eqs if any(is_call(x, 'ArrayBase::row') for x in walk(l[1][2][0]))]
        bias = [l for l in eqs if any(is_call(x, 'Index::index') for x in walk(l[1][2][0]))]
        def on_norm(l, field):
            x, y = l[1][2][0], l[1][2][1]
            fx = [z for z in walk(x) if isinstance(z, tuple) and z[:1] == ('field',) and z[2] == field and is_call(z[1], 'AffFuncBase::normalize')]
            fy = [z for z in walk(y) if isinstance(z, tuple) and z[:1] == ('field',) and z[2] == field and is_call(z[1], 'AffFuncBase::normalize')]
            ix = any(s(z) == s(i) for z in walk(x))
            return bool(fx) and bool(fy) and ix
        ok = len(mat) == 1 and len(bias) == 1 and on_norm(mat[0], 'mat') and on_norm(bias[0], 'bias')
        # the indices found in the comparison copy are applied to self: the copy must be self row for row (normalize keeps count and order of rows)
        norms = {s(z) for l in mat + bias for z in walk(l[1]) if is_call(z, 'AffFuncBase::normalize')}
        aligned = bool(norms) and all(z[2][0] == ('param', 'self') for z in norms)
        rets = [e for _, e in R.return_expr()]
        applied = len(rets) == 1 and is_call(rets[0], 'AffFuncBase::remove_rows') and rets[0][2][0] == ('param', 'self') and s(a[0]) in [s(z) for z in walk(rets[0][2][1])]
        site2 = 'AffFuncBase::remove_duplicate_rows#index-space'
        (ctx.ok if aligned and applied else ctx.bad)('C15.R3', site2, 'duplicates are located in normalize(self) (same rows, same order) and removed from self by those indices' if aligned and applied else
                                                     ('the rows compared are not the rows of self in self\'s order (%s): indices found there address other rows of self' % ', '.join(fmt(z)[:60] for z in norms)
                                                      if not aligned else 'the collected indices are not removed from self'), b.span)
        # the row index compared in both tests is the same pair (i, j)
        if ok:
            def idxs(l):
                return tuple(sorted(fmt(s(z)) for z in walk(l[1]) if is_call(z, 'Iterator::next')))
            ok = idxs(mat[0]) == idxs(bias[0])
    (ctx.ok if ok else ctx.bad)('C15.R3', site, 'row i is marked duplicate only if normalised rows i,j AND normalised biases i,j are relatively equal' if ok else
                                'a row is marked duplicate without both the row and the bias comparison of the same pair succeeding', b.span)


def redundant(ctx, F):
    b = ctx.body('C15.R3', 'AffFuncBase::remove_redundant_row_constraints')
    if b is None:
        return
    R = Resolver(b)
    site = 'AffFuncBase::remove_redundant_row_constraints'
    sl = [(bb, R.call_args(bb), t) for bb, t in b.calls_to('AffFuncBase::solve_linprog')]
    if len(sl) != 1:
        ctx.bad('C15.R3', site + '#lp', 'expected one LP per row', b.span)
        return
    bb, a, t = sl[0]
    idx = [x for x in walk(a[1]) if is_call(x, 'Iterator::next')]
    obj_ok = is_call(a[1], 'Neg::neg') and is_call(a[1][2][0], 'ArrayBase::row') and a[1][2][0][2][0] == ('field', ('param', 'self'), 'mat') and idx
    poly_ok = is_call(a[0], 'AffFuncBase::remove_rows') and a[0][2][0] == ('param', 'self')
    (ctx.ok if obj_ok and poly_ok else ctx.bad)('C15.R3', site + '#lp', 'LP: minimise -a_i over self minus ({i} ∪ redundant)' if obj_ok and poly_ok else
                                              'the LP of row i is not "minimise -a_i over the remaining rows of self"', t['span'])
    i = idx[0] if idx else None
    # pushes onto `redundant` (not onto its clone `indices`)
    real = []
    unguarded = []
    for pb, pt in b.calls_to('Vec::push'):
        op = pt['args'][0]
        l = op['place']['local']
        defs = b.defs().get(l, [])
        name = None
        if len(defs) == 1 and defs[0][1] != 'term':
            rv = b.blocks[defs[0][0]]['stmts'][defs[0][1]]['rv']
            if rv['k'] == 'ref':
                name = b.local_name(rv['place']['local'])
        lits = literals(b, R, pb)
        if any(l_[0] == 'is' and is_call(l_[1], 'AffFuncBase::solve_linprog') for l_ in lits):
            real.append((pb, pt, lits, name))
        else:
            unguarded.append((pb, pt, name, l))
    # every other push onto the same vector (same variable) is a mark that no LP answer justifies
    stray = [u for u in unguarded if real and (u[2] == real[0][3] if real[0][3] is not None else u[3] == real[0][1]['args'][0]['place']['local'])]
    for pb_, pt_, nm_, l_ in stray:
        ctx.bad('C15.R3', site + '#mark', 'a row is marked redundant without an LP answer about it (push onto `%s` outside the Optimal arm)' % (nm_ or 'the redundant list'), pt_['span'])
    ok = False
    if len(real) == 1:
        pb, pt, lits, name = real[0]
        arm = [l for l in lits if l[0] == 'is' and is_call(l[1], 'AffFuncBase::solve_linprog')]
        cmp_ = [l for l in lits if l[0] == 'true' and l[1][0] == 'bin' and l[1][1] == 'Le']
        if arm and arm[0][2] == frozenset(['Optimal']) and cmp_:
            lhs, rhs = cmp_[0][1][2], cmp_[0][1][3]
            dot_ok = is_call(lhs, 'ArrayBase::dot') and is_call(lhs[2][0], 'ArrayBase::row') and lhs[2][0][2][0] == ('field', ('param', 'self'), 'mat') and s(lhs[2][0][2][1]) == s(i) \
                and lhs[2][1][0] == 'vfield' and lhs[2][1][2] == 'Optimal'
            bound_ok = rhs[0] == 'bin' and rhs[1] == 'Add' and is_call(rhs[2], 'Index::index') and rhs[2][2][0] == ('field', ('param', 'self'), 'bias') and s(rhs[2][2][1]) == s(i)
            pushed_ok = s(R.call_args(pb)[1]) == s(i)
            # the slack is a constant no larger than the crate's membership tolerance (contains: 1e-8): with a wider one a row that is
            # necessary by more than the tolerance is dropped and the point set grows
            slack = s(rhs[3]) if bound_ok else None
            slack_ok = bool(slack) and slack[0] == 'const' and isinstance(slack[1], float) and 0.0 <= slack[1] <= 1e-8
            (ctx.ok if slack_ok else ctx.bad)('C15.R3', site + '#slack', 'the slack of the redundancy test is a constant in [0, 1e-8] (f64::EPSILON on the pinned tree)' if slack_ok else
                                             'the slack added to b_i in the redundancy test is not a constant in [0, 1e-8] (found %s): rows necessary by more than the membership tolerance are dropped' % (slack,), b.span)
            ok = dot_ok and bound_ok and pushed_ok and not stray
    (ctx.ok if ok else ctx.bad)('C15.R3', site + '#mark', 'row i marked redundant only in the Optimal arm under a_i·p <= b_i + eps (same i for row, bound and mark)' if ok else
                                'a row is marked redundant outside "Optimal and a_i·p <= b_i + eps" for its own index', b.span)
    # other arms
    rets = [e for _, e in R.return_expr()]
    alts = rets[0][2] if rets and rets[0][0] == 'phi' else tuple(rets)
    err = [x for x in alts if x[0] == 'agg' and x[1][2] == 'Err']
    ok_err = len(err) == 1 and err[0][2][0][0] == 'vfield' and err[0][2][0][2] == 'Error'
    em = [(eb, literals(b, R, eb)) for eb, et in b.calls_to('AffFuncBase::empty')]
    ok_em = len(em) == 1 and any(l[0] == 'is' and l[2] == frozenset(['Infeasible']) and is_call(l[1], 'AffFuncBase::solve_linprog') for l in em[0][1])
    if ok_em:
        # the canonical empty polytope lives in the input space of self (same number of columns)
        a_ = s(R.call_args(em[0][0])[0])
        ok_em = (is_call(a_, 'AffFuncBase::indim') and a_[2][0] == ('param', 'self')) or \
            prune._dim_atom(a_) == ('cols', ('param', 'self'))
    (ctx.ok if ok_err and ok_em else ctx.bad)('C15.R3', site + '#other-arms', 'Error -> Err(msg), Infeasible -> canonical empty, Unbounded keeps the row' if ok_err and ok_em else
                                            'the non-Optimal arms do not map Error to Err and Infeasible to the canonical empty polytope', b.span)

"""C07 — tree arithmetic is the point-wise lifting of affine arithmetic."""
from ..mir import Callee, Resolver, fmt, literals, walk, strip_sites as s, base_type
from . import prune
from . import helpers
from .prune import is_call

LEVEL = 'proof'
RULES = {
    'C07.R8': 'the operators prune and rewrite through the arena mutators: leaf flag and links stay as their effect contracts say (shared with C12.R2), otherwise evaluation stops at a decision or walks a removed branch',
    'C07.R7': helpers.RULE_TEXT,
    'C07.R1': 'operator agreement: every impl Trt<R> for L involving AffTree reaches only the same trait\'s AffFunc operator (forwarding impls, unary closures, schema update_terminal)',
    'C07.R2': 'operand order: left operand first through forwarding, composition (operand tree = rhs, rewritten tree = self; context ∘ original) and the mixed affine forms (enforced for Sub/Div, free for the commutative Add/Mul)',
    'C07.R3': 'decisions are copied unchanged by the four arithmetic schemas; unary operators touch every terminal and only terminals',
    'C07.R5': 'definedness under on-the-fly pruning (shared with C03): the composition removes a grafted branch only on a false explore(), never the last branch of a decision, and is_edge_feasible says false only on an Infeasible answer',
    'C07.R6': 'graft structure of the composition every binary operator runs (shared with C02.R1/R2): operand edges copied with their own labels, copies paired with the edge targets, schema role by the operand node\'s leaf flag',
    'C07.R4': 'AffFunc operators are element-wise on both fields with the impl\'s own operator, left operand first; Neg negates both fields',
}
FLOORS = {'C07.R8': 15, 'C07.R7': 6, 'C07.R1': 33, 'C07.R3': 10, 'C07.R4': 17, 'C07.R2': 4, 'C07.R5': 7, 'C07.R6': 8}
EXPLANATION = ('Sibling agreement over 4 operators x 8 ownership forms (+Neg) and the element-wise kernels; with C02.R1 (graft structure) the result is defined exactly '
               'when both operands are and its terminal is context.op(original), i.e. left.op(right).')
DOES_NOT_DECIDE = 'nothing value-level beyond exact arithmetic; pruning on the fly is covered by C03'
OPS = {'Add': 'add', 'Sub': 'sub', 'Mul': 'mul', 'Div': 'div', 'Rem': 'rem', 'Neg': 'neg'}
COMMUTATIVE = {'Add', 'Mul'}


def op_call(e, trt):
    return is_call(e, '%s::%s' % (trt, OPS[trt]))


def any_op_call(e):
    for t, m in OPS.items():
        if is_call(e, '%s::%s' % (t, m)):
            return t
    return None


def ordered(trt, a, b, want_a, want_b):
    if a == want_a and b == want_b:
        return True
    if trt in COMMUTATIVE and a == want_b and b == want_a:
        return True
    return False


def schema_of(F, generic_args):
    for g in generic_args:
        name = g.split('::')[-1]
        if any(b.self_base == name and b.impl_trait_base == 'CompositionSchema' for b in F.bodies):
            return name
    return None


def run(ctx):
    helpers.run_for(ctx)
    helpers.share_arena_contracts(ctx, 'C07.R8', failing_paths=False)
    F = ctx.facts
    SELF, RHS = ('param', 'self'), ('param', 'rhs')
    for b in F.bodies:
        if b.kind == 'Closure' or b.impl_trait_base not in OPS:
            continue
        trt = b.impl_trait_base
        involves_tree = b.self_base == 'AffTree' or 'AffTree' in (b.impl_trait or '')
        involves_aff = b.self_base == 'AffFuncBase'
        if not (involves_tree or involves_aff):
            continue
        R = Resolver(b)
        rets = [e for _, e in R.return_expr()]
        site = 'impl %s for %s' % (b.impl_trait.replace('std::ops::', '').replace('pwl::afftree::', '').replace('linalg::affine::', ''),
                                   b.impl_self.replace('pwl::afftree::', '').replace('linalg::affine::', ''))
        site = site.replace(' ', '_')
        e = rets[0] if len(rets) == 1 else None
        if e is None:
            ctx.undecided('C07.R1', site, 'operator impl with several return values', b.span)
            continue
        if involves_tree:
            rule = 'C07.R1'
            if trt == 'Neg':
                cb, crets = (prune.closure_ret(F, e[2][1]) if is_call(e, 'AffTree::unary_op_into') and e[2][0] == SELF else (None, None))
                ok = crets and len(crets) == 1 and op_call(crets[0], 'Neg') and crets[0][2][0][0] == 'param'
                if not ok and is_call(e, 'AffTree::unary_op_into') and e[2][0] == SELF and s(e[2][1]) == ('fn', 'std::ops::Neg::neg'):
                    # the operator itself handed over as the function value (`unary_op_into(<AffFunc as Neg>::neg)`): unary_op_into applies
                    # an AffFunc -> AffFunc function, so this is Neg for AffFunc
                    ok = True
                (ctx.ok if ok else ctx.bad)(rule, site, 'every terminal t becomes -t' if ok else 'Neg for AffTree does not negate each terminal: %s' % fmt(e), b.span)
                continue
            # (a) forwarding
            if any_op_call(e):
                t2 = any_op_call(e)
                if t2 != trt:
                    ctx.bad(rule, site, '%s forwards to the %s operator' % (trt, t2), b.span)
                elif ordered(trt, e[2][0], e[2][1], SELF, RHS):
                    ctx.ok(rule, site, 'forwards to self.%s(rhs)' % OPS[trt], b.span)
                else:
                    ctx.bad('C07.R2', site, 'operands swapped while forwarding a non-commutative operator: %s' % fmt(e), b.span)
                continue
            # (b) core tree-tree impl
            gci = list(b.calls_to('AffTree::generic_composition_inplace'))
            if gci and e == SELF:
                bb, t = gci[0]
                a = R.call_args(bb)
                schema = schema_of(F, t['func']['generic_args'])
                if not schema and len(a) > 3 and a[3][0] == 'agg' and isinstance(a[3][1], tuple):
                    # the call sits in a helper that is generic over the schema: the schema is the value handed down
                    schema = a[3][1][1]
                ok_args = a[0] == RHS and a[1] == SELF and any(is_call(x, 'Tree::terminal_indices') and x[2][0] == ('field', SELF, 'tree') for x in walk(a[2]))
                if not ok_args:
                    ctx.bad('C07.R2', site, 'composition must rewrite self at all of its terminals with rhs as the operand tree; got %s' % [fmt(x)[:60] for x in a[:3]], t['span'])
                    continue
                ut = F.q('<%s as CompositionSchema>::update_terminal' % schema) if schema else None
                if ut is None:
                    ctx.lost(rule, 'schema of ' + site)
                    continue
                ur = [x for _, x in Resolver(ut).return_expr()]
                names = ut.arg_names()
                O, C = ('param', names[0]), ('param', names[1])
                if len(ur) == 1 and any_op_call(ur[0]) == trt and ordered(trt, ur[0][2][0], ur[0][2][1], C, O):
                    ctx.ok(rule, site, 'terminals become context.%s(original) via %s (context = self\'s terminal, original = rhs\'s terminal)' % (OPS[trt], schema), b.span)
                elif len(ur) == 1 and any_op_call(ur[0]) and any_op_call(ur[0]) != trt:
                    ctx.bad(rule, site, 'schema %s combines terminals with %s instead of %s' % (schema, any_op_call(ur[0]), trt), ut.span)
                else:
                    ctx.bad('C07.R2', site, 'schema %s does not compute context.%s(original): %s' % (schema, OPS[trt], [fmt(x) for x in ur]), ut.span)
                continue
            # (c)/(d) mixed forms
            if is_call(e, 'AffTree::unary_op_into') and e[2][1][0] == 'closure':
                cb, crets = prune.closure_ret(F, e[2][1])
                tree_left = b.self_base == 'AffTree'
                recv = SELF if tree_left else RHS
                other = 'rhs' if tree_left else 'self'
                if e[2][0] != recv or not crets or len(crets) != 1 or not any_op_call(crets[0]):
                    ctx.bad(rule, site, 'mixed operator does not map the tree operand\'s terminals through the operator: %s' % fmt(e), b.span)
                    continue
                c0 = crets[0]
                t2 = any_op_call(c0)
                node = ('param', cb.arg_names()[1])
                want = (node, ('upvar', other)) if tree_left else (('upvar', other), node)
                if t2 != trt:
                    ctx.bad(rule, site, '%s applies the %s operator to the terminals' % (trt, t2), cb.span)
                elif ordered(trt, c0[2][0], c0[2][1], want[0], want[1]):
                    ctx.ok(rule, site, 'each terminal t becomes %s' % ('t.%s(rhs)' % OPS[trt] if tree_left else 'self.%s(t)' % OPS[trt]), b.span)
                else:
                    ctx.bad('C07.R2', site, 'operand order of a non-commutative mixed operator is wrong: %s' % fmt(c0), cb.span)
                continue
            ctx.bad(rule, site, 'operator impl has an unknown shape: %s' % fmt(e)[:160], b.span)
        else:
            rule = 'C07.R4'
            if trt == 'Neg':
                ok = is_call(e, 'AffFuncBase::from_mats') and op_call(e[2][0], 'Neg') and op_call(e[2][1], 'Neg') and \
                    e[2][0][2][0] == ('field', SELF, 'mat') and e[2][1][2][0] == ('field', SELF, 'bias')
                (ctx.ok if ok else ctx.bad)(rule, site, 'negates matrix and bias' if ok else 'Neg does not negate both fields: %s' % fmt(e), b.span)
                continue
            if any_op_call(e):
                ok = any_op_call(e) == trt and ordered(trt, e[2][0], e[2][1], SELF, RHS)
                (ctx.ok if ok else ctx.bad)(rule, site, 'forwards to self.%s(&rhs)' % OPS[trt] if ok else 'forwards to the wrong operator / order: %s' % fmt(e), b.span)
                continue
            if is_call(e, 'AffFuncBase::from_mats'):
                m, bi = e[2]
                okm = any_op_call(m) == trt and ordered(trt, m[2][0], m[2][1], ('field', SELF, 'mat'), ('field', RHS, 'mat'))
                okb = any_op_call(bi) == trt and ordered(trt, bi[2][0], bi[2][1], ('field', SELF, 'bias'), ('field', RHS, 'bias'))
                if okm and okb:
                    ctx.ok(rule, site, 'from_mats(self.mat %s rhs.mat, self.bias %s rhs.bias)' % (OPS[trt], OPS[trt]), b.span)
                else:
                    ctx.bad(rule, site, 'not element-wise %s on both fields, left operand first: %s' % (OPS[trt], fmt(e)), b.span)
                continue
            ctx.bad(rule, site, 'AffFunc operator of unknown shape: %s' % fmt(e)[:160], b.span)
    # ---- R3: decisions copied unchanged by the arithmetic schemas
    for b in F.bodies:
        if b.name == 'update_decision' and b.impl_trait_base == 'CompositionSchema' and b.self_base.endswith('Schema'):
            R = Resolver(b)
            rets = [x for _, x in R.return_expr()]
            names = b.arg_names()
            ok = rets == [('param', names[0])]
            (ctx.ok if ok else ctx.bad)('C07.R3', b.qname, 'returns a copy of the operand\'s decision, ignoring the context' if ok else 'decision is not copied unchanged: %s' % [fmt(x) for x in rets], b.span)
    u = ctx.body('C07.R3', 'AffTree::unary_op_inplace')
    if u is not None:
        R = Resolver(u)
        tk = [(bb, R.call_args(bb)) for bb, t in u.calls() if Callee(t['func']).name == 'take']
        ok = len(tk) == 1 and tk[0][1][0][0] == 'field' and tk[0][1][0][2] == 'aff' and any(is_call(x, 'Tree::terminals_mut') for x in walk(tk[0][1][0])) \
            and tk[0][1][1] == ('param', 'op')
        lits = literals(u, R, tk[0][0]) if tk else []
        uncond = all(l[0] == 'is' and is_call(l[1], 'Iterator::next') for l in lits)
        (ctx.ok if ok and uncond else ctx.bad)('C07.R3', 'AffTree::unary_op_inplace', 'op is applied to the function of every element of terminals_mut()' if ok and uncond else 'unary_op_inplace does not apply op to exactly all terminals', u.span)
    u = ctx.body('C07.R3', 'AffTree::unary_op_into')
    if u is not None:
        R = Resolver(u)
        c = [(bb, R.call_args(bb)) for bb, t in u.calls_to('AffTree::unary_op_inplace')]
        rets = [x for _, x in R.return_expr()]
        ok = len(c) == 1 and c[0][1][0] == ('param', 'self') and c[0][1][1] == ('param', 'op') and rets == [('param', 'self')]
        (ctx.ok if ok else ctx.bad)('C07.R3', 'AffTree::unary_op_into', 'self.unary_op_inplace(op); self' if ok else 'unary_op_into does not apply op to self', u.span)
    # ---- R3 (cont.): "every terminal and only terminals" rests on what terminals() / terminals_mut() / decisions() select: arena entries by
    # their leaf flag, in the right polarity (decided under C13.R6)
    from ..core import Ctx as _Ctx
    from . import c13
    sub3 = _Ctx(ctx.facts, ctx.tier, ctx.prop)
    c13.r6(sub3)
    for i in sub3.insts:
        if i.rule == 'C13.R6' and i.site in ('Tree::terminals#filter', 'Tree::terminals_mut#filter', 'Tree::decisions#filter', 'Tree::terminal_indices#filter'):
            i.rule = 'C07.R3'
            ctx.insts.append(i)
    # ---- R5: the operators prune on the fly: the removal sites of the composition are part of C07's definedness clause
    from ..core import Ctx
    sub = Ctx(ctx.facts, ctx.tier, ctx.prop)
    prune.check_removals(sub, 'C07.R5')
    prune.check_childless(sub, 'C07.R5')
    prune.check_edge_feasible_table(sub, 'C07.R5')
    prune.check_root_edges_kept(sub, 'C07.R5')
    for i in sub.insts:
        if i.site.startswith('AffTree::generic_composition_inplace#') or i.site.startswith('AffTree::is_edge_feasible#'):
            ctx.insts.append(i)
    # ---- R6: the graft itself (every operand edge copied with its own label under the current copy, paired with its target; schema role by
    # the operand node's leaf flag): decided under C02.R1/R2, and a clause of C07 because every binary tree operator is this composition
    from . import c02
    sub = Ctx(ctx.facts, ctx.tier, ctx.prop)
    g2 = sub.body('C02.R1', 'AffTree::generic_composition_inplace')
    if g2 is not None:
        c02.graft(sub, ctx.facts, g2)
    for i in sub.insts:
        if i.rule in ('C02.R1', 'C02.R2'):
            i.rule = 'C07.R6'
            ctx.insts.append(i)
    # ---- R2: composition passes (operand node, rewritten tree\'s terminal) to the schema
    g = ctx.body('C07.R2', 'AffTree::generic_composition_inplace')
    if g is not None:
        R = Resolver(g)
        n = 0
        for bb, t in g.calls():
            c = Callee(t['func'])
            if c.name in ('update_terminal', 'update_decision') and c.trait == 'CompositionSchema':
                n += 1
                a = R.call_args(bb)
                lhs_root = any(x == ('param', 'lhs') for x in walk(a[0])) and not any(x == ('param', 'rhs') for x in walk(a[0]))
                ctx_ok = a[1][0] == 'field' and a[1][2] == 'aff' and any(is_call(x, 'Tree::tree_node') and x[2][0] == ('field', ('param', 'rhs'), 'tree') for x in walk(a[1])) \
                    and not any(x == ('param', 'lhs') for x in walk(a[1]))
                site = 'AffTree::generic_composition_inplace#call:%s@bb-role:%s' % (c.name, 'root' if any(is_call(x, 'Tree::get_root') for x in walk(a[0])) else 'child')
                if lhs_root and ctx_ok:
                    ctx.ok('C07.R2', site, 'original = node of the operand tree (lhs), context = terminal of the rewritten tree (rhs)', t['span'])
                else:
                    ctx.bad('C07.R2', site, 'schema called with swapped roles: original=%s context=%s' % (fmt(a[0])[:60], fmt(a[1])[:60]), t['span'])
        if n == 0:
            ctx.lost('C07.R2', 'schema calls in generic_composition_inplace')

"""C12 — the arena tree stays structurally consistent under any operation sequence.

R1 who-may-touch-links, R2 effect contracts of the mutators, R3 Err => unchanged.
"""
from ..mir import Callee, Resolver, fmt, literals, strip_sites, walk, ref_kind, EXIT
from . import helpers
from ..effects import assigns, mut_calls

LEVEL = 'proof'
RULES = {
    'C12.R4': helpers.RULE_TEXT,
    'C12.R1': 'only impl Tree (and TreeNode::new) write TreeNode.{parent,children,isleaf}, Tree.{arena,root}, or build a TreeNode',
    'C12.R2': 'every &mut self method of Tree with a link/arena effect instantiates exactly one effect contract '
              '(ADD-ROOT, ATTACH, DETACH, CLEAR-DESC, SPLICE, SET-VALUE, accessor) with consistent keys and guards',
    'C12.R3': 'no mutation event may precede a returned Err in a &mut self method of Tree',
}
WITNESSES = ['C12ArenaIsPrivate', 'C12RootIsPrivate']  # thorough tier: compile_fail witnesses in /verif/witness
CONTROL_REV = '078b142'  # thorough tier: the rules must still report the defects found (and since fixed) on the original tree
CONTROLS = [('C12.R3', 'Tree::add_child_node#Err(ChildExists)-after-insert'), ('C12.R3', 'Tree::add_child_node#Err(ChildExists)-after-set:isleaf')]
FLOORS = {'C12.R4': 29, 'C12.R1': 10, 'C12.R2': 13, 'C12.R3': 5}
EXPLANATION = (
    'Each of the six mutators performs a fixed set of paired link updates; the contracts below each preserve '
    '{links mirror, isleaf <=> no children, one parentless root, stored = reachable, indices/values of untouched '
    'nodes}. R1 shows nobody else can write links, R2 that each mutator is one of the contracts, R3 that an Err '
    'return happens before any write. Together: the invariant holds after every history of operations, '
    'successful or failing, for every K and every argument.')
DOES_NOT_DECIDE = 'state after a panic inside a mutator (e.g. label >= K); add_root on a non-empty tree (documented exception)'
TRUSTED = ['Slab::insert returns a fresh key and moves no entry; Slab::remove/try_remove free exactly that key',
           'one-line preservation arguments attached to the contracts (DESIGN.md §5 C12)']

LINK_FIELDS = {'parent', 'children', 'isleaf'}
TREE_FIELDS = {'arena', 'root'}
SLAB_MUT = {'insert', 'remove', 'try_remove', 'clear', 'retain', 'drain', 'compact', 'get_mut', 'get2_mut', 'iter_mut',
            'index_mut', 'vacant_entry', 'insert_entry', 'get_unchecked_mut', 'get2_unchecked_mut'}


def _field_owner_hits(place, adt, names):
    for p in place['proj']:
        if p['k'] == 'field' and isinstance(p.get('owner'), dict) and p['owner'].get('adt', '').split('::')[-1] == adt and p['name'] in names:
            return p['name']
    return None


def r1(ctx):
    F = ctx.facts
    for b in F.bodies:
        owner_ok = (b.self_base in ('Tree',)) or (b.kind == 'Closure' and _root_self(F, b) == 'Tree')
        node_ctor_ok = b.qname in ('TreeNode::new', '<TreeNode as Clone>::clone')
        for bb, j, s in b.stmts():
            if s['k'] != 'assign':
                continue
            hits = []
            pl = s['place']
            f = _field_owner_hits(pl, 'TreeNode', LINK_FIELDS)
            if f:
                hits.append(('write TreeNode.' + f, pl))
            f = _field_owner_hits(pl, 'Tree', TREE_FIELDS)
            if f:
                hits.append(('write Tree.' + f, pl))
            rv = s['rv']
            if rv['k'] == 'ref' and rv.get('mut'):
                f = _field_owner_hits(rv['place'], 'TreeNode', LINK_FIELDS)
                if f:
                    hits.append(('&mut TreeNode.' + f, rv['place']))
                f = _field_owner_hits(rv['place'], 'Tree', TREE_FIELDS)
                if f:
                    hits.append(('&mut Tree.' + f, rv['place']))
            if rv['k'] == 'agg' and rv['agg']['k'] == 'adt' and rv['agg']['path'].split('::')[-1] in ('TreeNode', 'Tree') \
                    and rv['agg']['path'].startswith('tree::'):
                hits.append(('construct ' + rv['agg']['path'].split('::')[-1], None))
            for what, _ in hits:
                site = '%s#%s' % (b.qname, what.replace(' ', ':'))
                if what.startswith('construct TreeNode'):
                    ok = node_ctor_ok
                elif what.startswith('construct Tree'):
                    ok = b.self_base == 'Tree'
                else:
                    ok = owner_ok or (b.qname == 'TreeNode::retain_children')
                if ok:
                    ctx.ok('C12.R1', site, what + ' inside the owner', s['span'])
                else:
                    ctx.bad('C12.R1', site, '%s outside impl Tree: links may only be written by the owner\'s mutators' % what, s['span'])
        # calls to Slab mutators with a receiver rooted in Tree.arena
        R = None
        for bb, t in b.calls():
            c = Callee(t['func'])
            if c.self_base != 'Slab' and not (c.trait in ('IndexMut',) and 'Slab' in (c.self_ty or '')):
                continue
            if c.name not in SLAB_MUT:
                continue
            site = '%s#call:Slab::%s' % (b.qname, c.name)
            if owner_ok:
                ctx.ok('C12.R1', site, 'arena mutator inside the owner', t['span'])
            else:
                R = R or Resolver(b)
                a0 = R.call_args(bb)[0]
                if any(isinstance(x, tuple) and x[:1] == ('field',) and x[2] == 'arena' for x in walk(a0)):
                    ctx.bad('C12.R1', site, 'Slab::%s on Tree.arena outside impl Tree' % c.name, t['span'])


def _root_self(F, b):
    r = F.by_path.get(b.root)
    return r.self_base if r else None


# ---------------------------------------------------------------------------------------
# effect normalisation


def node_key(e):
    """If e denotes the TreeNode stored at key k of self.arena, return k."""
    if e[0] == 'call' and e[1] in ('Tree::tree_node_mut', 'Tree::tree_node') and len(e[2]) == 2 and e[2][0] == ('param', 'self'):
        return e[2][1]
    if e[0] == 'call' and e[1] in ('IndexMut::index_mut', 'Index::index', 'Slab::get_mut', 'Slab::get') and len(e[2]) == 2 \
            and e[2][0] == ('field', ('param', 'self'), 'arena'):
        return e[2][1]
    return None


class Eff:
    def __init__(self, kind, bb, **kw):
        self.kind = kind
        self.bb = bb
        self.__dict__.update(kw)

    def __repr__(self):
        d = {k: (fmt(v) if isinstance(v, tuple) else v) for k, v in self.__dict__.items() if k not in ('kind', 'bb', 'span')}
        return '%s@bb%s %s' % (self.kind, self.bb, d)


def tree_mutators(F):
    out = []
    for b in F.units():
        if b.kind != 'Closure' and b.self_base == 'Tree' and b.arg_count >= 1 and ref_kind(b.local_ty(1)) == 'mut' \
                and b.local_name(1) == 'self':
            out.append(b)
    return out


def effects(F, b, depth=0, subst=None):
    """Link/arena effects of a Tree mutator; same-impl &mut self callees with effects are inlined."""
    R = Resolver(b)
    out = []
    unknown = []
    for w in assigns(b, R):
        tgt = w.target
        if w.owned:
            # a write into storage owned by this body (a by-value copy of a slot array, a local accumulator) is no effect on the tree --
            # whatever the copied value was read from
            continue
        # self.root := v
        if tgt == ('field', ('param', 'self'), 'root'):
            out.append(Eff('root', w.bb, value=w.value, span=w.span))
            continue
        # node(k).field[sub] := v
        sub = None
        t = tgt
        if t[0] == 'index':
            sub = t[2]
            t = t[1]
        if t[0] == 'call' and t[1] == 'Iterator::next' and len(t[2]) == 1 and t[2][0][0] == 'field':
            # `for x in &mut node.children { *x = v }`
            inner = t[2][0]
            k = node_key(inner[1])
            if k is not None and inner[2] in LINK_FIELDS:
                out.append(Eff('setall', w.bb, key=k, field=inner[2], value=w.value, span=w.span))
                continue
        if t[0] == 'field':
            k = node_key(t[1])
            if k is not None:
                if t[2] in LINK_FIELDS:
                    out.append(Eff('set', w.bb, key=k, field=t[2], sub=sub, value=w.value, span=w.span))
                    continue
                if t[2] == 'value':
                    out.append(Eff('setvalue', w.bb, key=k, span=w.span))
                    continue
        # writes to locals owned by this body are no effects on the tree
        if w.owned or not any(isinstance(x, tuple) and x in (('param', 'self'),) for x in walk(tgt)):
            continue
        unknown.append(('assign', w))
    for w in mut_calls(b, R):
        c = w.callee
        a0 = w.args[0]
        if w.owned and c.name == 'fill':
            # `let mut copy = node.children; copy.fill(None)` fills a by-value copy of the slot array, not the node's slots
            continue
        if a0 == ('field', ('param', 'self'), 'arena'):
            if c.name == 'insert':
                out.append(Eff('insert', w.bb, node=w.args[1], span=w.span))
            elif c.name in ('remove', 'try_remove'):
                out.append(Eff('remove', w.bb, key=w.args[1], span=w.span))
            elif c.name in ('get_mut', 'get2_mut', 'iter_mut', 'index_mut'):
                out.append(Eff('access', w.bb, via=c.name, span=w.span))
            elif c.name in ('reserve', 'shrink_to_fit'):
                out.append(Eff('capacity', w.bb, span=w.span))
            else:
                unknown.append(('call', w))
            continue
        if a0 == ('param', 'self') and c.self_base == 'Tree':
            callee = F.q('Tree::' + c.name)
            if callee is None:
                unknown.append(('call', w))
                continue
            out.append(Eff('callself', w.bb, name=c.name, args=tuple(w.args[1:]), span=w.span))
            continue
        if c.name == 'fill' and a0[0] == 'field' and a0[2] in LINK_FIELDS and node_key(a0[1]) is not None and len(w.args) == 2:
            # `node.children.fill(v)`: every slot := v, like the loop `for c in &mut node.children { *c = v }`
            out.append(Eff('setall', w.bb, key=node_key(a0[1]), field=a0[2], value=w.args[1], span=w.span, by='fill'))
            continue
        if c.name == 'replace' and w.args[0][0] == 'field' and w.args[0][2] == 'value' and node_key(w.args[0][1]) is not None:
            out.append(Eff('setvalue', w.bb, key=node_key(w.args[0][1]), span=w.span))
            continue
        # &mut to something not reachable from self: local containers (Vec stack etc.)
        if w.owned or not any(isinstance(x, tuple) and x == ('param', 'self') for x in walk(a0)):
            continue
        # iterator plumbing over a &mut borrowed from self (accessor chains)
        if c.name in ('next', 'into_iter', 'iter_mut', 'enumerate', 'zip', 'rev', 'map', 'filter', 'flatten', 'all', 'any'):
            continue
        unknown.append(('call', w))
    return R, out, unknown


def has_lit(lits, kind, pred):
    return any(l[0] == kind and pred(l[1]) for l in lits)


def s(e):
    return strip_sites(e)


def r2(ctx):
    F = ctx.facts
    muts = tree_mutators(F)
    if not muts:
        ctx.lost('C12.R2', 'impl Tree &mut self methods')
        return
    summaries = {}
    for b in muts:
        R, effs, unknown = effects(F, b)
        summaries[b.name] = (b, R, effs, unknown)
    for name, (b, R, effs, unknown) in sorted(summaries.items()):
        site = b.qname
        for kind, w in unknown:
            ctx.bad('C12.R2', site + '#unrecognised-effect', 'effect on the tree not covered by any contract: %r' % (w,), w.span)
        kinds = sorted({e.kind for e in effs})
        link = [e for e in effs if e.kind in ('insert', 'remove', 'set', 'setall', 'root')]
        # calls to accessors of the same impl (no link effect of their own, they only hand out &mut) are not events
        calls = [e for e in effs if e.kind == 'callself' and _is_mutating(summaries, e.name)]
        acc_calls = [e for e in effs if e.kind == 'callself' and not _is_mutating(summaries, e.name)]
        ret_mut = '&mut' in b.ret_ty() or 'IterMut' in b.ret_ty() or 'ReferenceMut' in b.ret_ty()
        if not link:
            # wrappers / accessors / value setters
            if calls:
                for c in calls:
                    ctx.ok('C12.R2', '%s#delegates:%s' % (site, c.name), 'delegates to Tree::%s, no own link effect' % c.name, c.span)
            elif any(e.kind == 'setvalue' for e in effs):
                ctx.ok('C12.R2', site + '#SET-VALUE', 'writes .value only', b.span)
            elif any(e.kind == 'access' for e in effs) or acc_calls:
                if ret_mut:
                    ctx.ok('C12.R2', site + '#accessor', 'hands out &mut without writing links itself (outside writers are excluded by R1)', b.span)
                else:
                    ctx.bad('C12.R2', site + '#accessor', 'takes a mutable arena reference but neither returns it nor matches a contract', b.span)
            else:
                ctx.ok('C12.R2', site + '#no-link-effect', 'no link/arena effect (%s)' % ','.join(kinds), b.span)
            continue
        matched = match_contract(ctx, F, b, R, effs, link, calls)
        if not matched:
            ctx.bad('C12.R2', site + '#no-contract',
                    'mutator matches no effect contract; effects: %s' % '; '.join(repr(e) for e in link + calls), b.span)


def _is_mutating(summaries, name, seen=()):
    if name not in summaries or name in seen:
        return True
    b, R, effs, unknown = summaries[name]
    if unknown:
        return True
    for e in effs:
        if e.kind in ('insert', 'remove', 'set', 'setall', 'root', 'setvalue'):
            return True
        if e.kind == 'callself' and _is_mutating(summaries, e.name, seen + (name,)):
            return True
    return False


def match_contract(ctx, F, b, R, effs, link, calls):
    site = b.qname
    ins = [e for e in link if e.kind == 'insert']
    rem = [e for e in link if e.kind == 'remove']
    sets = [e for e in link if e.kind == 'set']
    setall = [e for e in link if e.kind == 'setall']
    root = [e for e in link if e.kind == 'root']
    cfg = b.cfg()

    def node_new(e):
        """TreeNode::new(value, parent) -> parent expr"""
        n = e.node
        if n[0] == 'call' and n[1] == 'TreeNode::new' and len(n[2]) == 2:
            return n[2][1]
        return None

    # ---------------- ADD-ROOT
    if len(ins) == 1 and root and not rem and not sets and not setall and not calls:
        p = node_new(ins[0])
        okp = p is not None and p[0] == 'agg' and p[1][2] == 'None'
        okr = all(r.value[0] == 'agg' and r.value[1][2] == 'Some' and s(r.value[2][0]) == s(('call', 'Slab::insert', (('field', ('param', 'self'), 'arena'), ins[0].node), 0)) for r in root)
        if okp and okr:
            ctx.ok('C12.R2', site + '#ADD-ROOT', 'insert(TreeNode::new(v, None)); root := Some(new)', b.span)
        else:
            ctx.bad('C12.R2', site + '#ADD-ROOT', 'root insertion must create a parentless node and point root at it', b.span)
        return True
    # ---------------- ATTACH
    if len(ins) == 1 and not rem and not root and not setall and not calls:
        p = node_new(ins[0])
        if p is None or not (p[0] == 'agg' and p[1][2] == 'Some'):
            ctx.bad('C12.R2', site + '#ATTACH', 'new child must be created with parent = Some(p)', ins[0].span)
            return True
        pk = p[2][0]
        newkey = ('call', 'Slab::insert', (('field', ('param', 'self'), 'arena'), ins[0].node))
        slot = [e for e in sets if e.field == 'children' and s(e.key) == s(pk)]
        leaf = [e for e in sets if e.field == 'isleaf' and s(e.key) == s(pk)]
        other = [e for e in sets if e not in slot and e not in leaf]
        ok = True
        if len(slot) != 1 or not (slot[0].value[0] == 'agg' and slot[0].value[1][2] == 'Some' and s(slot[0].value[2][0]) == s(newkey)):
            ctx.bad('C12.R2', site + '#ATTACH:slot', 'p.children[l] := Some(new) missing or pointing elsewhere', b.span)
            ok = False
        if len(leaf) != 1 or leaf[0].value != ('const', False):
            ctx.bad('C12.R2', site + '#ATTACH:isleaf', 'p.isleaf := false missing', b.span)
            ok = False
        for e in other:
            ctx.bad('C12.R2', site + '#ATTACH:extra', 'link write outside the ATTACH contract: %r' % e, e.span)
            ok = False
        if slot:
            label = slot[0].sub
            # the slot must have been tested empty on every path to the write
            lits = literals(b, R, slot[0].bb)
            want = ('index', ('field', slot[0].key_expr if hasattr(slot[0], 'key_expr') else None, 'children'), label)

            def is_slot(x):
                return x[0] == 'call' and x[1] in ('Option::is_some', 'Option::is_none') and x[2] and \
                    x[2][0][0] == 'index' and s(x[2][0][2]) == s(label) and x[2][0][1][0] == 'field' and x[2][0][1][2] == 'children' \
                    and node_key(x[2][0][1][1]) is not None and s(node_key(x[2][0][1][1])) == s(pk)

            tested = False
            for l in lits:
                if l[0] in ('true', 'false') and is_slot(l[1]):
                    empty = (l[0] == 'false') == (l[1][1] == 'Option::is_some')
                    tested = tested or empty
                if l[0] == 'is' and l[1][0] == 'index' and l[2] == frozenset(['None']):
                    tested = True
            if not tested:
                ctx.bad('C12.R2', site + '#ATTACH:slot-test', 'the write of p.children[l] is not guarded by a test that the slot is empty', slot[0].span)
                ok = False
            else:
                # order: the arena insertion and the leaf-flag write must come after the slot test as well,
                # otherwise the occupied-slot path has already stored an unreachable node / cleared the flag
                for e in ins + leaf:
                    lits_e = literals(b, R, e.bb)
                    t_e = False
                    for l in lits_e:
                        if l[0] in ('true', 'false') and is_slot(l[1]):
                            t_e = t_e or ((l[0] == 'false') == (l[1][1] == 'Option::is_some'))
                        if l[0] == 'is' and l[1][0] == 'index' and l[2] == frozenset(['None']):
                            t_e = True
                    if not t_e:
                        ctx.bad('C12.R2', site + '#ATTACH:order:' + e.kind, 'the %s happens before the slot p.children[l] is tested empty' % ('arena insertion' if e.kind == 'insert' else 'p.isleaf write'), e.span)
                        ok = False
        if ok:
            ok = _all_or_nothing(ctx, cfg, site + '#ATTACH', ins + slot + leaf, 'links would not mirror / flag would disagree with the children')
        if ok:
            # the caller gets the index of the node just stored (it builds on it: chains, traversals, compositions)
            R_ = Resolver(b)
            oks = []
            for _, e_ in R_.return_expr():
                alts_ = e_[2] if e_[0] == 'phi' else (e_,)
                for a_ in alts_:
                    if a_[0] == 'agg' and isinstance(a_[1], tuple) and len(a_[1]) > 2 and a_[1][2] == 'Ok' and a_[2]:
                        oks.append(s(a_[2][0]))
            if oks and any(x != s(newkey) for x in oks):
                ctx.bad('C12.R2', site + '#ATTACH:returns', 'the index handed back is not the index of the node just stored', b.span)
                ok = False
        if ok:
            ctx.ok('C12.R2', site + '#ATTACH', 'insert(TreeNode::new(v, Some(p))); p.children[l] := Some(new) under empty-slot test; p.isleaf := false', b.span)
        return True
    # ---------------- SPLICE
    if len(rem) == 1 and not ins and not root and not setall and not calls and len(sets) == 2:
        p = rem[0].key
        sl = [e for e in sets if e.field == 'children']
        pa = [e for e in sets if e.field == 'parent']
        if len(sl) == 1 and len(pa) == 1:
            ok = True
            g = sl[0].key
            gl = sl[0].sub
            cval = sl[0].value
            c = cval[2][0] if cval[0] == 'agg' and cval[1][2] == 'Some' else None

            def is_parent_edge(e, field):
                # EdgeReference::edge(Tree::parent(self, p)).field  or Tree::parent(self,p).field
                if e[0] != 'field' or e[2] != field:
                    return False
                x = e[1]
                if x[0] == 'call' and x[1] == 'EdgeReference::edge':
                    x = x[2][0]
                return x[0] == 'call' and x[1] == 'Tree::parent' and s(x[2][1]) == s(p)

            def is_child(e):
                x = e
                if x[0] == 'field' and x[2] == 'target_idx':
                    x = x[1]
                    if x[0] == 'call' and x[1] == 'EdgeReference::edge':
                        x = x[2][0]
                    return x[0] == 'call' and x[1] == 'Tree::child' and s(x[2][1]) == s(p)
                if x[0] == 'index' and x[1][0] == 'field' and x[1][2] == 'children':
                    k = node_key(x[1][1])
                    return k is not None and s(k) == s(p)
                return False

            if not (is_parent_edge(g, 'source_idx') and gl is not None and is_parent_edge(gl, 'label')):
                ctx.bad('C12.R2', site + '#SPLICE:grandparent-slot', 'the slot rewritten must be the parent edge (source, label) of the removed node', sl[0].span)
                ok = False
            if c is None or not is_child(c):
                ctx.bad('C12.R2', site + '#SPLICE:child', 'the grandparent slot must receive the child p.children[l] of the removed node', sl[0].span)
                ok = False
            if not (c is not None and s(pa[0].key) == s(c) and pa[0].value[0] == 'agg' and pa[0].value[1][2] == 'Some' and s(pa[0].value[2][0]) == s(g)):
                ctx.bad('C12.R2', site + '#SPLICE:reparent', 'child.parent := Some(grandparent) missing or inconsistent', pa[0].span)
                ok = False
            # guard: num_children(p) == 1 on every path to the effects
            for e in sets + rem:
                lits = literals(b, R, e.bb)
                from .prune import cmp_facts
                if not any(op == 'Eq' and x[0] == 'call' and x[1] == 'Tree::num_children' and s(x[2][1]) == s(p) and y == ('const', 1) for op, x, y in cmp_facts(lits)):
                    ctx.bad('C12.R2', site + '#SPLICE:single-child-guard', 'splice effects are not guarded by num_children(p) == 1 (a second child would be orphaned)', e.span)
                    ok = False
                    break
            if ok:
                ok = _all_or_nothing(ctx, cfg, site + '#SPLICE', sl + pa + rem, 'grandparent slot, child.parent and the removal must happen together')
            if ok:
                ctx.ok('C12.R2', site + '#SPLICE', 'g.children[gl] := Some(c); c.parent := Some(g); remove(p) under num_children(p)==1', b.span)
            return True
    # ---------------- DETACH
    dcalls = [c for c in calls if c.name == 'remove_all_descendants']
    if len(rem) == 1 and not ins and not root and not setall and len(dcalls) == 1 and len(calls) == 1:
        c = rem[0].key
        ok = True

        def child_of(e):
            if e[0] == 'field' and e[2] == 'target_idx' and e[1][0] == 'call' and e[1][1] == 'Tree::child':
                return e[1][2][1], e[1][2][2]
            return None

        pl = child_of(c)
        if pl is None:
            ctx.bad('C12.R2', site + '#DETACH:child', 'the removed key must be read from p.children[l]', rem[0].span)
            return True
        p, l = pl
        if s(dcalls[0].args[0]) != s(c):
            ctx.bad('C12.R2', site + '#DETACH:descendants', 'descendants of the removed child must be cleared (remove_all_descendants(child))', dcalls[0].span)
            ok = False
        slot = [e for e in sets if e.field == 'children' and s(e.key) == s(p) and s(e.sub) == s(l)]
        leaf = [e for e in sets if e.field == 'isleaf' and s(e.key) == s(p)]
        other = [e for e in sets if e not in slot and e not in leaf]
        if len(slot) != 1 or not (slot[0].value[0] == 'agg' and slot[0].value[1][2] == 'None'):
            ctx.bad('C12.R2', site + '#DETACH:slot', 'p.children[l] := None missing', b.span)
            ok = False
        if len(leaf) != 1 or leaf[0].value != ('const', True):
            ctx.bad('C12.R2', site + '#DETACH:isleaf', 'the leaf flag of a parent that lost its last child is not repaired (p.isleaf := true)', b.span)
            ok = False
        else:
            lits = literals(b, R, leaf[0].bb)
            # "p has no child left": num_children(p) == 0, or every slot of p.children is None (all(is_none) / !any(is_some))
            test_calls = []
            from .prune import cmp_facts
            for op_, x_, y_ in cmp_facts(lits):
                if op_ == 'Eq' and x_[0] == 'call' and x_[1] == 'Tree::num_children' and s(x_[2][1]) == s(p) and y_ == ('const', 0):
                    test_calls.append(x_[3])
            for l_ in lits:
                x = l_[1]
                if l_[0] in ('true', 'false') and x[0] == 'call' and x[1] in ('Iterator::all', 'Iterator::any') and len(x[2]) == 2 and x[2][1][0] == 'fn' \
                        and x[2][0][0] == 'field' and x[2][0][2] == 'children' and node_key(x[2][0][1]) is not None and s(node_key(x[2][0][1])) == s(p):
                    # the predicate handed over as a function value: `children.iter().all(Option::is_none)`
                    want = {('Iterator::all', 'true'): 'is_none', ('Iterator::any', 'false'): 'is_some'}.get((x[1], l_[0]))
                    if want and x[2][1][1].split('::')[-1] == want and 'Option' in x[2][1][1]:
                        test_calls.append(x[3])
                if l_[0] in ('true', 'false') and x[0] == 'call' and x[1] in ('Iterator::all', 'Iterator::any') and len(x[2]) == 2 and x[2][1][0] == 'closure' \
                        and x[2][0][0] == 'field' and x[2][0][2] == 'children' and node_key(x[2][0][1]) is not None and s(node_key(x[2][0][1])) == s(p):
                    cb_ = F.closure(x[2][1][1])
                    rets_ = [e for _, e in Resolver(cb_).return_expr()] if cb_ is not None else []
                    if len(rets_) == 1 and rets_[0][0] == 'call' and rets_[0][2] and rets_[0][2][0][0] == 'param':
                        want = {('Iterator::all', 'true'): 'Option::is_none', ('Iterator::any', 'false'): 'Option::is_some'}.get((x[1], l_[0]))
                        if rets_[0][1] == want:
                            test_calls.append(x[3])
            if not test_calls:
                ctx.bad('C12.R2', site + '#DETACH:isleaf-guard', 'p.isleaf := true must be conditional on num_children(p) == 0', leaf[0].span)
                ok = False
            elif slot:
                # the count must be taken after the slot was cleared
                call_bb = test_calls[0]
                if call_bb is None or not cfg.dominates(slot[0].bb, call_bb):
                    ctx.bad('C12.R2', site + '#DETACH:count-order', 'num_children(p) is evaluated before p.children[l] is cleared', leaf[0].span)
                    ok = False
        for e in other:
            ctx.bad('C12.R2', site + '#DETACH:extra', 'link write outside the DETACH contract: %r' % e, e.span)
            ok = False
        # every effect must be on every Ok path: the removal post-dominates the slot write
        if slot and not cfg.reaches(slot[0].bb, rem[0].bb):
            ctx.bad('C12.R2', site + '#DETACH:remove', 'arena removal not reached after clearing the slot', rem[0].span)
            ok = False
        if ok:
            ok = _all_or_nothing(ctx, cfg, site + '#DETACH', slot + rem, 'slot and arena entry must go together (the Err of clearing the descendants happens before, see R3)')
        if ok:
            ctx.ok('C12.R2', site + '#DETACH', 'c = p.children[l]; CLEAR-DESC(c); p.children[l] := None; p.isleaf := true if num_children(p)==0; remove(c)', b.span)
        return True
    # ---------------- CLEAR-DESC
    if len(rem) == 1 and not ins and not root and not calls and len(setall) == 1:
        ok = True
        r = setall[0].key
        k = rem[0].key
        # k must be the popped element of a worklist seeded with children(r)
        def popped(e):
            return e[0] == 'call' and e[1] in ('Vec::pop', 'VecDeque::pop_front', 'VecDeque::pop_back') and e[2]

        if not popped(k):
            ctx.bad('C12.R2', site + '#CLEAR-DESC:worklist', 'removed key is not the element popped from the worklist', rem[0].span)
            return True
        wl = k[2][0]
        seed_ok = any(isinstance(x, tuple) and x[:2] == ('call', 'Tree::children') and s(x[2][1]) == s(r) for x in walk(wl))
        if not seed_ok:
            ctx.bad('C12.R2', site + '#CLEAR-DESC:seed', 'worklist is not seeded with the children of the subtree root', rem[0].span)
            ok = False
        else:
            # closure maps an edge to its target
            clo = [x for x in walk(wl) if isinstance(x, tuple) and x[:1] == ('closure',)]
            for cexpr in clo:
                cb = F.closure(cexpr[1])
                if cb is not None:
                    rets = [e for _, e in Resolver(cb).return_expr()]
                    if not all(e[0] == 'field' and e[2] == 'target_idx' for e in rets):
                        ctx.bad('C12.R2', site + '#CLEAR-DESC:seed-map', 'seed closure does not project the edge target', cb.span)
                        ok = False
        # push of children of the popped node
        pushes = []
        for bb_, t_ in b.calls():
            c_ = Callee(t_['func'])
            if c_.name in ('push', 'push_back', 'extend') and s(R.call_args(bb_)[0]) == s(wl):
                pushes.append((bb_, R.call_args(bb_)[1]))
        good_push = False
        for bb_, v in pushes:
            for x in walk(v):
                if isinstance(x, tuple) and x[:1] == ('field',) and x[2] == 'children':
                    kk = node_key(x[1])
                    if kk is not None and s(kk) == s(k):
                        good_push = True
        if not good_push:
            ctx.bad('C12.R2', site + '#CLEAR-DESC:push-children', 'children of the popped node are not pushed to the worklist (grandchildren would leak)', rem[0].span)
            ok = False
        # remove on every iteration path: the remove block post-dominates the pop's Some edge w.r.t. the loop back edge
        pop_bb = k[3]
        hdrs = [h for h in cfg.loop_headers() if isinstance(h, int) and rem[0].bb in cfg.loop_of(h) and pop_bb in cfg.loop_of(h)]
        if not hdrs:
            ctx.bad('C12.R2', site + '#CLEAR-DESC:loop', 'pop/remove are not in one worklist loop', rem[0].span)
            ok = False
        else:
            h = hdrs[0]
            # from the Some-edge of the pop, can we get back to the header without passing the remove?
            some_edges = [e for e in cfg.succ.get(_switch_after(b, cfg, pop_bb), []) if isinstance(e, tuple) and cfg.edge_label[e] == ('sw', (1,))]
            bad = False
            for e in some_edges:
                if cfg.reaches(e, h, avoid=[rem[0].bb]):
                    bad = True
            if bad or not some_edges:
                ctx.bad('C12.R2', site + '#CLEAR-DESC:remove-every-iteration', 'an iteration path skips the arena removal of the popped node', rem[0].span)
                ok = False
        # post state
        if not (setall[0].field == 'children' and setall[0].value[0] == 'agg' and setall[0].value[1][2] == 'None'):
            ctx.bad('C12.R2', site + '#CLEAR-DESC:slots', 'all child slots of the subtree root must be cleared', setall[0].span)
            ok = False
        leaf = [e for e in sets if e.field == 'isleaf' and s(e.key) == s(r)]
        if len(leaf) != 1 or leaf[0].value != ('const', True) or len(sets) != 1:
            ctx.bad('C12.R2', site + '#CLEAR-DESC:isleaf', 'subtree root must be flagged leaf (and nothing else written)', b.span)
            ok = False
        # post writes happen on every Ok path: after the worklist loop, unconditionally
        if hdrs and leaf:
            h = hdrs[0]
            inner = [x for x in cfg.loop_headers() if isinstance(x, int) and setall[0].bb in cfg.loop_of(x) and x != h]
            post_leaf = leaf[0].bb not in cfg.loop_of(h) and cfg.postdominates(leaf[0].bb, h)
            if getattr(setall[0], 'by', None) == 'fill':
                post_slots = setall[0].bb not in cfg.loop_of(h) and cfg.postdominates(setall[0].bb, h)
            else:
                post_slots = bool(inner) and inner[0] not in cfg.loop_of(h) and cfg.postdominates(inner[0], h)
            if not (post_leaf and post_slots):
                ctx.bad('C12.R2', site + '#CLEAR-DESC:repair-unconditional',
                        'the repair of the subtree root (isleaf := true, slots := None) is skipped on some path after descendants were removed', leaf[0].span)
                ok = False
        if ok:
            ctx.ok('C12.R2', site + '#CLEAR-DESC', 'worklist(children(r)): pop k, push children(k), remove(k); then r.isleaf := true, r.children[*] := None', b.span)
        return True
    return False


def _all_or_nothing(ctx, cfg, site, effs, what):
    """Every unconditional effect of a contract lies on every path from the first effect to a normal return."""
    effs = [e for e in effs if e is not None]
    if len(effs) < 2:
        return True
    first = None
    for e in effs:
        if all(cfg.dominates(e.bb, o.bb) for o in effs):
            first = e
    if first is None:
        ctx.bad('C12.R2', site + ':effects-unordered', 'the link updates of this mutator are not on one path', effs[0].span)
        return False
    ok = True
    for e in effs:
        if e is first:
            continue
        if not (cfg.postdominates(e.bb, first.bb) or e.bb == first.bb):
            ctx.bad('C12.R2', site + ':partial-update', 'after the first link update a path reaches the return without the paired update (%r): %s' % (e, what), e.span)
            ok = False
    return ok


def _switch_after(b, cfg, bb):
    """Block holding the switch that tests the result of the call ending block bb."""
    n = bb
    for _ in range(6):
        t = b.blocks[n]['term']
        if t['k'] == 'switch':
            return n
        if t['k'] in ('call', 'goto', 'drop') and t.get('target') is not None:
            n = t['target']
        else:
            break
    return n


# ---------------------------------------------------------------------------------------
# R3: never-before-Err


def err_exits(b, R):
    """(bb, description, exempt_call_expr) for every place where _0 receives an Err."""
    out = []
    for bb, j, st in b.stmts():
        if st['k'] == 'assign' and st['place']['local'] == 0 and not st['place']['proj']:
            e = R.rvalue(st['rv'], bb, j)
            if e[0] == 'agg' and isinstance(e[1], tuple) and e[1][2] == 'Err':
                inner = e[2][0] if e[2] else None
                name = 'Err'
                if inner and inner[0] == 'agg' and isinstance(inner[1], tuple):
                    name = 'Err(%s)' % inner[1][2]
                out.append((bb, name, None, st['span']))
    for bb, t in b.calls():
        c = Callee(t['func'])
        if c.name == 'from_residual' and t['dest']['local'] == 0:
            a = R.call_args(bb)[0]
            src = None
            for x in walk(a):
                if isinstance(x, tuple) and x[:2] == ('call', 'Try::branch'):
                    src = x[2][0]
            nm = '?'
            if src is not None and src[0] == 'call':
                nm = '?:' + src[1]
            out.append((bb, 'Err(%s)' % nm, src, t['span']))
    return out


def r3(ctx):
    F = ctx.facts
    muts = [b for b in tree_mutators(F) if b.ret_ty().startswith('std::result::Result')]
    # bottom-up: which mutators are Err => unchanged
    verdict = {}
    pending = list(muts)
    results = {}
    for _ in range(4):
        for b in muts:
            R, effs, unknown = effects(F, b)
            exits = err_exits(b, R)
            cfg = b.cfg()
            problems = []
            events = [e for e in effs if e.kind in ('insert', 'remove', 'set', 'setall', 'root', 'setvalue', 'callself')]
            for (ebb, name, src, span) in exits:
                for ev in events:
                    if not cfg.reaches(ev.bb, ebb):
                        continue
                    if ev.kind == 'callself':
                        callee = F.q('Tree::' + ev.name)
                        pure = callee is not None and not _has_effects(F, callee)
                        if pure:
                            continue
                        # the Err of exactly this call, propagated by `?`, is fine if the callee is Err=>unchanged
                        this_call = src is not None and src[0] == 'call' and src[1] == 'Tree::' + ev.name and src[3] == ev.bb
                        if this_call and verdict.get(ev.name, True):
                            continue
                    problems.append((name, ev, span))
            results[b.name] = (b, exits, problems)
            verdict[b.name] = not problems
    for name, (b, exits, problems) in sorted(results.items()):
        bad_names = set()
        for (ename, ev, span) in problems:
            key = '%s#%s-after-%s' % (b.qname, ename, ev.kind + (':' + getattr(ev, 'field', '') if ev.kind == 'set' else '') + (':' + ev.name if ev.kind == 'callself' else ''))
            if key in bad_names:
                continue
            bad_names.add(key)
            ctx.bad('C12.R3', key, 'a returned %s is reachable after the tree was already modified (%r): the error path leaves the tree changed' % (ename, ev), span)
        if not problems:
            ctx.ok('C12.R3', b.qname + '#Err=>unchanged', '%d Err exit(s), none reachable after a mutation event' % len(exits), b.span)


def _has_effects(F, b):
    R, effs, unknown = effects(F, b)
    return any(e.kind in ('insert', 'remove', 'set', 'setall', 'root', 'setvalue', 'callself') for e in effs) or bool(unknown)


def run(ctx):
    helpers.run_for(ctx)
    r1(ctx)
    r2(ctx)
    r3(ctx)

"""C09 — reported regions agree with evaluation (sign convention, label sequence)."""
from ..mir import Callee, Resolver, fmt, literals, walk, strip_sites as s, phi_table
from . import prune
from . import helpers
from .prune import is_call

LEVEL = 'other'
RULES = {
    'C09.R7': 'the conjunction the region builders hand out is the conjunction: intersection_n stacks its operands, and the empty conjunction (the root) is the whole space (shared with C14.R1)',
    'C09.R6': helpers.RULE_TEXT,
    'C09.R1': 'one closed sign convention: evaluate_decision tests (mat·x - bias) <= 0 and sets bit i for a satisfied row; both path-polytope builders map '
              'label 1 -> (+mat,+bias), label 0 -> (-mat,-bias) (same factor on both fields, other labels panic) on the predicate of the edge\'s source node',
    'C09.R3': 'path-condition stack discipline of PolyhedraGen::next: |predicates| = depth of the reported node after every call (also after deep returns and skips)',
    'C09.R5': 'the leaf flag tested by find_terminal means "no children" after every tree mutation (effect contracts shared with C12.R2)',
    'C09.R4': 'each node is reported once in depth-first order with correct depth and sibling counters, also after skips (DfsPre rules shared with C13)',
    'C09.R2': 'find_terminal pushes the label it follows and returns the node it reached; PolyhedraGen::next builds the predicate from the parent edge of the node it reports; PolyhedraIter re-packs the generator\'s item as (depth, index, n_remaining, polytopes) over the same tree and the entry points polyhedra / polyhedra_iter / new / skip_subtree delegate as written',
}
WRAPPERS = {
    'PolyhedraIter::new': (['PolyhedraIter::PolyhedraIter{PolyhedraGen::new(tree), tree}', 'PolyhedraIter::PolyhedraIter{PolyhedraGen::with_root(tree, Tree::get_root_idx(tree)), tree}'], [], 'generator from the root of the tree it is later stepped with'),
    'PolyhedraGen::new': ('PolyhedraGen::with_root(tree, Tree::get_root_idx(tree))', [], 'starts at the root'),
    'PolyhedraGen::skip_subtree': ('DfsPre::skip_subtree(self.iter)', [], 'skips in the underlying depth-first traversal (the predicate stack is cut back by the next step, C09.R3)'),
    'AffTree::polyhedra': ('PolyhedraGen::new(self.tree)', [], 'generator over this tree'),
    'AffTree::polyhedra_iter': ('PolyhedraIter::new(self.tree)', [], 'iterator over this tree'),
    'DfsNodeData::extract': ('tuple(self.depth, self.index, self.n_remaining)', [], '(depth, index, n_remaining) in this order'),
}
FLOORS = {'C09.R7': 1, 'C09.R6': 9, 'C09.R1': 4, 'C09.R2': 10, 'C09.R3': 1, 'C09.R4': 8, 'C09.R5': 14}
EXPLANATION = 'The evaluator and the two region builders implement the same closed half-space per label, for every tree and input (exact arithmetic).'
DOES_NOT_DECIDE = ('traversals started below the root with PolyhedraGen::with_root (the path above the start node is not reconstructed); disjoint interiors and coverage (set reasoning); '
                   'ordering/depth counters (C13)')


def stack_discipline(ctx):
    """PolyhedraGen::next keeps |predicates| = depth: under depth <= last_depth it pops exactly 1 + last_depth - depth entries,
    then records last_depth := depth and pushes exactly one half-space when the node has a parent.
    (before: |predicates| = last_depth; after the pops: depth - 1; after the push: depth.)"""
    from ..effects import assigns, mut_calls
    b = ctx.body('C09.R3', 'PolyhedraGen::next')
    if b is None:
        return
    R = Resolver(b)
    cfg = b.cfg()
    LD = ('field', ('param', 'self'), 'last_depth')
    PRED = ('field', ('param', 'self'), 'predicates')
    pops = [(w.bb, w) for w in mut_calls(b, R) if w.callee.name == 'pop' and w.args[0] == PRED]
    pushes = [(w.bb, w) for w in mut_calls(b, R) if w.callee.name == 'push' and w.args[0] == PRED]
    ws = [w for w in assigns(b, R) if w.target == LD]
    problems = []
    depth = None
    if len(ws) != 1:
        problems.append('last_depth must be recorded exactly once per call')
    else:
        depth = ws[0].value
        if not (prune.dfs_component(depth) and prune.dfs_component(depth)[1] == 'depth'):
            problems.append('last_depth is not set to the depth of the node just delivered')
    truncs = [(w.bb, w) for w in mut_calls(b, R) if w.callee.name == 'truncate' and w.args[0] == PRED]
    if not pops and len(truncs) == 1 and len(pushes) == 1 and not problems:
        # second idiom: the 1 + last_depth - depth newest entries are dropped with one truncate(len - (1 + last_depth - depth))
        def plain_(e):
            return ('bin', e[1][1][:-len('WithOverflow')], e[1][2], e[1][3]) if (e[0] == 'field' and e[2] == '0' and e[1][0] == 'bin' and e[1][1].endswith('WithOverflow')) else e
        tb, tw = truncs[0]
        n = plain_(tw.args[1])
        cnt = None
        if n[0] == 'bin' and n[1] == 'Sub' and is_call(n[2], 'Vec::len') and n[2][2][0] == PRED:
            cnt = plain_(n[3])
        elif is_call(n, 'usize::saturating_sub') and is_call(n[2][0], 'Vec::len') and n[2][0][2][0] == PRED:
            cnt = plain_(n[2][1])
        ok_cnt = False
        if cnt is not None and cnt[0] == 'bin' and cnt[1] == 'Sub' and s(cnt[3]) == s(depth):
            lo = plain_(cnt[2])
            ok_cnt = lo[0] == 'bin' and lo[1] == 'Add' and {lo[2], lo[3]} == {('const', 1), LD}
        if not ok_cnt:
            problems.append('the number of entries dropped is not 1 + last_depth - depth')
        if not any(op == 'Le' and s(x) == s(depth) and y == LD for op, x, y in prune.cmp_facts(literals(b, R, tb))):
            problems.append('the truncation is not guarded by depth <= last_depth')
        if cfg.reaches(ws[0].bb, tb) or not cfg.reaches(tb, pushes[0][0]):
            problems.append('last_depth is updated before the truncation, or the push does not follow it')
        plits = literals(b, R, pushes[0][0])
        if not any(l[0] == 'is' and is_call(l[1], 'Tree::parent') and l[2] == frozenset(['Ok']) for l in plits):
            problems.append('the push is not conditional on the node having a parent edge')
        if problems:
            for p_ in problems:
                ctx.bad('C09.R3', 'PolyhedraGen::next#stack', p_, b.span)
        else:
            ctx.ok('C09.R3', 'PolyhedraGen::next#stack', 'truncates to len - (1 + last_depth - depth) under depth <= last_depth, then last_depth := depth, then one push iff the node has a parent', b.span)
        return
    if len(pops) != 1 or len(pushes) != 1:
        problems.append('expected one pop site and one push site on the predicate stack')
    if not problems:
        # the pop loop runs over 0 .. (1 + last_depth) - depth, guarded by depth <= last_depth
        rng = None
        for bb, t in b.calls_to('Iterator::next'):
            a = R.call_args(bb)[0]
            if a[0] == 'agg' and isinstance(a[1], tuple) and a[1][1] == 'Range':
                rng = a
        def plain(e):
            return e[1] if (e[0] == 'field' and e[2] == '0' and e[1][0] == 'bin') else e
        ok_rng = False
        if rng is not None and rng[2][0] == ('const', 0):
            hi = plain(rng[2][1])
            if hi[0] == 'bin' and hi[1].startswith('Sub') and s(hi[3]) == s(depth):
                lo = plain(hi[2])
                ok_rng = lo[0] == 'bin' and lo[1].startswith('Add') and {lo[2], lo[3]} == {('const', 1), LD}
        if not ok_rng:
            problems.append('the number of entries popped is not 1 + last_depth - depth')
        lits = literals(b, R, pops[0][0])
        if not any(op == 'Le' and s(x) == s(depth) and y == LD for op, x, y in prune.cmp_facts(lits)):
            problems.append('pops are not guarded by depth <= last_depth')
        # order: pops (reading the old last_depth) precede the update, the push is outside the pop loop and happens at most once
        hdr = [h for h in cfg.loop_headers() if isinstance(h, int) and pops[0][0] in cfg.loop_of(h)]
        if not hdr or ws[0].bb in cfg.loop_of(hdr[0]) or pushes[0][0] in cfg.loop_of(hdr[0]) or cfg.reaches(ws[0].bb, pops[0][0]):
            problems.append('last_depth is updated before/inside the pop loop, or the push is inside it')
        plits = literals(b, R, pushes[0][0])
        if not any(l[0] == 'is' and is_call(l[1], 'Tree::parent') and l[2] == frozenset(['Ok']) for l in plits):
            problems.append('the push is not conditional on the node having a parent edge')
    if problems:
        for p_ in problems:
            ctx.bad('C09.R3', 'PolyhedraGen::next#stack', p_, b.span)
    else:
        ctx.ok('C09.R3', 'PolyhedraGen::next#stack', 'pops 1 + last_depth - depth under depth <= last_depth, then last_depth := depth, then one push iff the node has a parent: |predicates| = depth after every call', b.span)


def sign_table(b, R, mul_bb):
    """For `x * factor`: map label value -> factor constant, plus the label expression and what 'otherwise' does."""
    t = b.blocks[mul_bb]['term']
    op = t['args'][1]
    if op['k'] not in ('copy', 'move') or op['place']['proj']:
        return None
    l = op['place']['local']
    # follow plain copies
    for _ in range(4):
        defs = b.defs().get(l, [])
        if len(defs) == 1 and defs[0][1] != 'term':
            rv = b.blocks[defs[0][0]]['stmts'][defs[0][1]]['rv']
            if rv['k'] == 'use' and rv['op']['k'] in ('copy', 'move') and not rv['op']['place']['proj']:
                l = rv['op']['place']['local']
                continue
        break
    table = {}
    label_expr = None
    for val, lits, dbb in phi_table(b, R, l):
        eqs = [x for x in lits if x[0] == 'eq']
        if not eqs:
            # `if label == 1 { .. } else if label == 0 { .. }` instead of a match on the label
            eqs = [('eq', x_, y_[1]) for op_, x_, y_ in prune.cmp_facts(lits) if op_ == 'Eq' and y_[0] == 'const' and isinstance(y_[1], int)]
        if val[0] != 'const' or not eqs:
            return None
        table[eqs[0][2]] = val[1]
        label_expr = eqs[0][1]
    return table, label_expr, l


def polyhedra_iter_next(ctx):
    """PolyhedraIter::next re-packs the generator's item (data, polytopes) as (data.depth, data.index, data.n_remaining, polytopes): the
    components keep their meaning and order, every item of the generator over the same tree is passed on, nothing else is produced."""
    b = ctx.body('C09.R2', '<PolyhedraIter as Iterator>::next')
    if b is None:
        return
    site = '<PolyhedraIter_as_Iterator>::next#repack'
    R = Resolver(b)
    X = ('call', 'PolyhedraGen::next', (('field', ('param', 'self'), 'iter'), ('field', ('param', 'self'), 'tree')))
    DATA = ('field', X, '0')
    want = (('field', DATA, 'depth'), ('field', DATA, 'index'), ('field', DATA, 'n_remaining'), ('field', X, '1'))
    EXTRACT = {'0': 'depth', '1': 'index', '2': 'n_remaining'}

    def norm(e):
        if not isinstance(e, tuple) or not e:
            return e
        if e[0] == 'closure':
            return e
        e = tuple(norm(x) for x in e)
        # DfsNodeData::extract(d).k = the k-th of (depth, index, n_remaining) (its own body is checked in the wrapper table)
        if e[0] == 'field' and e[2] in EXTRACT and is_call(e[1], 'DfsNodeData::extract'):
            return ('field', e[1][2][0], EXTRACT[e[2]])
        while is_call(e, 'Clone::clone', 'ToOwned::to_owned', 'Vec::clone') and e[2]:
            e = e[2][0]
        return e
    tuples = []
    others = []
    for _, e in R.return_expr():
        e = norm(s(prune.beta_option_map(ctx.facts, e)))
        alts = e[1] if e[0] == 'phi' and len(e) == 2 else (e[2] if e[0] == 'phi' else (e,))
        for a in alts:
            if is_call(a, 'FromResidual::from_residual') and any(x == X for x in walk(a)):
                continue   # `?` on the generator's None
            if a[0] == 'agg' and isinstance(a[1], tuple) and a[1][1] == 'Option' and a[1][2] == 'Some':
                a = a[2][0]
            if a[0] == 'agg' and a[1] == 'tuple':
                tuples.append(a[2])
            elif a[0] == 'agg' and isinstance(a[1], tuple) and a[1][2] == 'None':
                others.append('None')
            else:
                others.append(fmt(a)[:80])
    lits_none = [o for o in others if o != 'None']
    if len(tuples) == 1 and tuples[0] == want and not lits_none:
        ctx.ok('C09.R2', site, 'item = (depth, index, n_remaining, path polytopes) of the generator\'s item over the same tree, every item passed on', b.span)
    else:
        ctx.bad('C09.R2', site, 'the reported tuple is not (data.depth, data.index, data.n_remaining, polytopes) of the generator\'s item: %s %s' %
                ([fmt(('agg', 'tuple', t))[:160] for t in tuples], lits_none), b.span)


def run(ctx):
    helpers.run_for(ctx)
    helpers.share_from(ctx, 'c14', 'C09.R7', ['AffFuncBase::intersection_n'])
    prune.check_wrappers(ctx, 'C09.R2', WRAPPERS)
    polyhedra_iter_next(ctx)
    F = ctx.facts
    # ---------------- evaluator
    b = ctx.body('C09.R1', 'AffTree::evaluate_decision')
    if b is not None:
        R = Resolver(b)
        rets = [e for _, e in R.return_expr()]
        ok = False
        why = ''
        if len(rets) == 1 and is_call(rets[0], 'AffTree::index_from_label') and is_call(rets[0][2][0], 'ArrayBase::map', 'ArrayBase::mapv', 'ArrayBase::mapv_into'):
            m = rets[0][2][0]
            arg, clo = m[2]
            residual = is_call(arg, 'Sub::sub') and is_call(arg[2][0], 'ArrayBase::dot') and \
                arg[2][0][2][0] == ('field', ('field', ('field', ('param', 'node'), 'value'), 'aff'), 'mat') and arg[2][0][2][1] == ('param', 'input') and \
                arg[2][1] == ('field', ('field', ('field', ('param', 'node'), 'value'), 'aff'), 'bias')
            cb, crets = prune.closure_ret(F, clo)
            cmp_ok = crets and len(crets) == 1 and crets[0][0] == 'bin' and crets[0][1] == 'Le' and crets[0][2][0] == 'param' and crets[0][3] == ('const', 0.0)
            ok = residual and cmp_ok
            why = '' if ok else ('residual is not mat·input - bias of the node' if not residual else 'row test is not `<= 0.0` (closed): %s' % [fmt(c) for c in (crets or [])])
        if ok:
            ctx.ok('C09.R1', 'AffTree::evaluate_decision#closed-leq', 'row i satisfied iff (mat·x - bias)[i] <= 0.0', b.span)
        else:
            ctx.bad('C09.R1', 'AffTree::evaluate_decision#closed-leq', 'the evaluator does not test mat·x - bias <= 0 (closed) per row: ' + why, b.span)
    b = ctx.body('C09.R1', 'AffTree::index_from_label')
    if b is not None:
        R = Resolver(b)
        ok = False
        for l in R.cyclic:
            # the label starts from 0: every other definition of the accumulator is "previous value + 2^i"
            inits = [e for dbb, didx, e in R.var_defs(l) if e[0] == 'const']
            if any(e[1] != 0 for e in inits):
                continue
            for dbb, didx, e in R.var_defs(l):
                x = e[1] if e[0] == 'field' else e
                if x[0] == 'bin' and x[1].startswith('Add') and x[3][0] == 'bin' and x[3][1] == 'Shl' and x[3][2] == ('const', 1):
                    i = x[3][3]
                    lits = literals(b, R, dbb)
                    # row i of the result vector is true: result[i], or the element paired with position i by enumerate
                    if any(lt[0] == 'true' and is_call(lt[1], 'Index::index') and lt[1][2][0] == ('param', 'result') and s(lt[1][2][1]) == s(i) for lt in lits):
                        ok = True
                    if i[0] == 'field' and i[2] == '0' and is_call(i[1], 'Iterator::next') and is_call(i[1][2][0], 'Iterator::enumerate') and \
                            i[1][2][0][2][0] == ('param', 'result') and any(lt[0] == 'true' and s(lt[1]) == s(('field', i[1], '1')) for lt in lits):
                        ok = True
        if ok:
            ctx.ok('C09.R1', 'AffTree::index_from_label#bits', 'label bit i is set iff row i is satisfied', b.span)
        else:
            ctx.bad('C09.R1', 'AffTree::index_from_label#bits', 'label bits are not "bit i <=> row i satisfied"', b.span)
    # ---------------- builders
    for q, src_kind in (('PolyhedraGen::next', 'parent-edge'), ('AffTree::polyhedral_path_characterization', 'path-entry')):
        b = ctx.body('C09.R1', q)
        if b is None:
            continue
        R = Resolver(b)
        fm = [(bb, R.call_args(bb)) for bb, t in b.calls_to('AffFuncBase::from_mats')]
        site = q + '#sign-table'
        if len(fm) != 1:
            ctx.undecided('C09.R1', site, 'expected one from_mats building the half-space', b.span)
            continue
        m_e, b_e = fm[0][1]
        if not (is_call(m_e, 'Mul::mul') and is_call(b_e, 'Mul::mul')):
            ctx.bad('C09.R1', site, 'half-space is not (aff.mat * factor, aff.bias * factor)', b.where(fm[0][0]))
            continue
        tm = sign_table(b, R, m_e[3])
        tb = sign_table(b, R, b_e[3])
        aff_m, aff_b = m_e[2][0], b_e[2][0]
        same_aff = aff_m[0] == 'field' and aff_m[2] == 'mat' and aff_b[0] == 'field' and aff_b[2] == 'bias' and s(aff_m[1]) == s(aff_b[1])
        problems = []
        if not same_aff:
            problems.append('matrix and bias are not taken from one affine function')
        if tm is None or tb is None or tm[2] != tb[2]:
            problems.append('matrix and bias are not scaled by the same factor variable')
        elif tm[0] != {1: 1.0, 0: -1.0}:
            problems.append('label->factor table is %s, expected {1: +1.0, 0: -1.0}' % tm[0])
        else:
            label = tm[1]
            node = aff_m[1]
            # source of the predicate vs the label's edge
            if src_kind == 'parent-edge':
                ok_src = label[0] == 'field' and label[2] == 'label' and is_call(label[1], 'Tree::parent') and \
                    any(is_call(x, 'Tree::node_value', 'Tree::tree_node') and s(x[2][1]) == s(('field', label[1], 'source_idx')) for x in walk(node))
            else:
                ok_src = label[0] == 'field' and label[2] == '1' and \
                    any(is_call(x, 'Tree::tree_node', 'Tree::node_value') and s(x[2][1]) == s(('field', label[1], '0')) for x in walk(node))
            if not ok_src:
                problems.append('the predicate is not the one of the source node of the edge whose label selects the sign')
        # what is recorded for the edge is that half-space and nothing else (no alternative value for particular predicates)
        rec = [(bb, R.call_args(bb)) for bb, t in b.calls_to('Vec::push')]
        rec = [(bb, a) for bb, a in rec if any(is_call(x, 'AffFuncBase::from_mats') for x in walk(a[1]))]
        if len(rec) != 1 or not (is_call(rec[0][1][1], 'AffFuncBase::from_mats') and rec[0][1][1][3] == fm[0][0]):
            problems.append('the region recorded for an edge is not always the signed predicate of its source node (%s)' % (fmt(rec[0][1][1])[:100] if rec else 'no push of the half-space'))
        if problems:
            for pz in problems:
                ctx.bad('C09.R1', site, pz, b.where(fm[0][0]))
        else:
            ctx.ok('C09.R1', site, 'label 1 -> (+mat,+bias), label 0 -> (-mat,-bias) of the edge\'s source predicate; one factor for both fields; recorded unconditionally', b.where(fm[0][0]))
    # ---------------- R2
    b = ctx.body('C09.R2', 'AffTree::find_terminal')
    if b is not None:
        R = Resolver(b)
        ev = [(bb, R.call_args(bb)) for bb, t in b.calls_to('AffTree::evaluate_decision')]
        pushes = [(bb, R.call_args(bb)) for bb, t in b.calls_to('Vec::push')]
        ok = len(ev) == 1 and len(pushes) == 1 and is_call(pushes[0][1][1], 'AffTree::evaluate_decision') and pushes[0][1][1][3] == ev[0][0]
        cur = ev[0][1][1] if ev else None
        step = False
        start = None
        if ok and cur[0] == 'var':
            for dbb, didx, e in R.var_defs(cur[1]):
                e0 = e
                # the step may sit in a helper returning Option (`cursor = self.successor(cursor, label)?`): the value that continues is its payload
                while e[0] == 'agg' and isinstance(e[1], tuple) and e[1][1] == 'Option' and e[1][2] == 'Some' and len(e[2]) == 1:
                    e = e[2][0]
                while is_call(e, 'Option::expect', 'Option::unwrap', 'Result::expect', 'Result::unwrap') and e[2]:
                    e = e[2][0]
                if is_call(e, 'Tree::tree_node'):
                    idx = e[2][1]
                    if idx[0] == 'index' and idx[1] == ('field', cur, 'children') and is_call(idx[2], 'AffTree::evaluate_decision') and idx[2][3] == ev[0][0]:
                        step = True
                        continue
                # every other definition is where the walk starts: the node the caller handed in
                if start is not False:
                    start = e0[0] == 'param' and e0[1] != 'self'
        rets = [e for _, e in R.return_expr()]
        ret_ok = any(any(isinstance(x, tuple) and x[:2] == ('agg', 'tuple') and x[2][0] == cur and s(x[2][1]) == s(pushes[0][1][0]) for x in walk(e)) for e in rets) if ok else False
        # the leaf test is on the current node
        leaf = False
        for i, bl in b.live_blocks():
            d = R.switch_discr(i)
            if d and d == ('field', cur, 'isleaf'):
                leaf = True
        if ok and step and ret_ok and leaf and start is False:
            ctx.bad('C09.R2', 'AffTree::find_terminal#path', 'the walk does not start at the node the caller handed in (the start argument is ignored: from a non-root start node the '
                    'labels and the terminal belong to another path)', b.span)
        elif ok and step and ret_ok and leaf:
            ctx.ok('C09.R2', 'AffTree::find_terminal#path', 'pushes the label it follows (children[label]) and returns the reached node with that sequence', b.span)
        else:
            ctx.bad('C09.R2', 'AffTree::find_terminal#path', 'label sequence and followed edges disagree (push/evaluate/successor/return: %s %s %s %s)' % (ok, step, ret_ok, leaf), b.span)
    b = ctx.body('C09.R2', 'PolyhedraGen::next')
    if b is not None:
        R = Resolver(b)
        par = [(bb, R.call_args(bb)) for bb, t in b.calls_to('Tree::parent')]
        rets = [e for _, e in R.return_expr()]
        ok = False
        if len(par) == 1:
            node = par[0][1][1]
            # node = extract(iter.next(tree)).1 and the same data is returned
            data = [x for x in walk(node) if is_call(x, 'DfsPre::next', 'TraversalMut::next')]
            if data and any(any(s(x) == s(data[0]) for x in walk(e)) for e in rets):
                ok = bool(prune.dfs_component(node)) and prune.dfs_component(node)[1] == 'index'
        (ctx.ok if ok else ctx.bad)('C09.R2', 'PolyhedraGen::next#reported-node',
                                    'the predicate pushed belongs to the parent edge of the node that is reported' if ok else 'the node whose parent edge is pushed is not the node reported', b.span)
    stack_discipline(ctx)
    # R4: nodes are reported once each in depth-first order with correct depth / sibling counters, also when subtrees are skipped:
    # the depth-first traversal underneath polyhedra() (rules shared with C13, restricted to DfsPre)
    from ..core import Ctx
    from . import c13
    sub = Ctx(ctx.facts, ctx.tier, ctx.prop)
    imp = c13.impls(ctx.facts)
    if 'DfsPre' in imp:
        m = imp['DfsPre']
        c13.r1(sub, 'DfsPre', m['new'])
        disc = c13.r2(sub, 'DfsPre', m)
        c13.r4(sub, 'DfsPre', m, disc)
        sub2 = Ctx(ctx.facts, ctx.tier, ctx.prop)
        c13.r5_skip(sub2, 'DfsPre', m)
        sub.insts += [i for i in sub2.insts if i.site.endswith('::new#last_push')]   # a skip before the first reported node must be a no-op
        for i in sub.insts:
            i.rule = 'C09.R4'
            ctx.insts.append(i)
    else:
        ctx.lost('C09.R4', 'impl TraversalMut for DfsPre')
    # R5: find_terminal stops where `isleaf` is set, the region generators follow the child links: both agree only if the leaf flag says
    # "no children" after every mutation (the effect contracts of the arena tree, shared with C12.R2)
    from . import c12
    sub = Ctx(ctx.facts, ctx.tier, ctx.prop)
    c12.r2(sub)
    for i in sub.insts:
        i.rule = 'C09.R5'
        ctx.insts.append(i)
    pg = ctx.body('C09.R4', 'PolyhedraGen::with_root')
    if pg is not None:
        Rp = Resolver(pg)
        rets = [e for _, e in Rp.return_expr()]
        ok = len(rets) == 1 and any(is_call(x, 'DfsPre::new') and x[2][1] == ('param', 'root') for x in walk(rets[0]))
        (ctx.ok if ok else ctx.bad)('C09.R4', 'PolyhedraGen::with_root#traversal', 'path conditions are produced along a DfsPre traversal from the given root' if ok else 'PolyhedraGen is not driven by DfsPre::new(tree, root)', pg.span)
    b = ctx.body('C09.R2', 'AffTree::evaluate')
    if b is not None:
        R = Resolver(b)
        rets = [prune.beta_option_map(F, e) for _, e in R.return_expr()]
        # whatever the control form (`map`, `?`, `match`): the only function applied is the `aff` of the terminal found from the root for this input
        apps = {s(x) for e in rets for x in walk(e) if is_call(x, 'AffFuncBase::apply')}
        ok = False
        if len(apps) == 1:
            ap = list(apps)[0]
            f, inp = ap[2]
            ok = inp == ('param', 'input') and f[0] == 'field' and f[2] == 'aff' and f[1][0] == 'field' and f[1][2] == 'value' and f[1][1][0] == 'field' and f[1][1][2] == '0' \
                and is_call(f[1][1][1], 'AffTree::find_terminal') and f[1][1][1][2][0] == ('param', 'self') and is_call(f[1][1][1][2][1], 'Tree::get_root') \
                and f[1][1][1][2][2] == ('param', 'input')
        (ctx.ok if ok else ctx.bad)('C09.R2', 'AffTree::evaluate#apply', 'applies the reached terminal\'s function to the same input' if ok else 'evaluate does not apply the reached terminal to the input', b.span)

"""C04 — every operation history keeps a tree well-formed (structural clauses)."""
from ..mir import Callee, Resolver, fmt, literals, walk, strip_sites as s
from . import prune
from . import helpers
from .prune import is_call
from .c05 import content_field_writes, node_of, owner_qname

LEVEL = 'other'
RULES = {
    'C04.R7': 'each instantiation of compose substitutes at the terminals of the receiving tree (dispatch table shared with C02.R4)',
    'C04.R6': 'a node is a terminal exactly when it has no children: the leaf flag is maintained by the arena mutators as their effect contracts say (shared with C12.R2)',
    'C04.R5': helpers.RULE_TEXT,
    'C04.R1': 'who may write node functions (AffContent.aff) outside constructors: from_poly (fresh root), apply_func_at_node, update_node, remove_axes, unary_op_inplace; who may write the cached state / witnesses (AffContent.state): new nodes start Indeterminate (shared with C05.R2)',
    'C04.R2': 'shape of what is written: composition kernels keep the input dimension (rows(A) x n), apply_func visits all terminals, remove_axes rewrites every node and in_dim together, decisions are copied with their row count; constructors declare the input dimension of the function they store (from_aff, with_capacity, new, from_poly); from_poly attaches a caller-supplied function only after expect_dim(indim(poly), indim(it))? succeeded',
    'C04.R3': 'a removal must not leave a decision without children (a childless decision is flagged as terminal)',
    'C04.R4': 'every call of Tree::merge_child_with_parent (asserts exactly one child) is preceded by the removal of the node\'s other children and guarded by the single-survivor conditions',
}
CONTROL_REV = '078b142'  # thorough tier: the rules must still report the defects found (and since fixed) on the original tree
CONTROLS = [('C04.R3', 'AffTree::generic_composition_inplace#call:Tree::remove_child'), ('C04.R3', 'AffTree::infeasible_elimination#call:Tree::try_remove_child')]
WRAPPERS = {
    'AffTree::add_terminal': (['Tree::add_child_node(self.tree, node, label, AffContent::new(aff))', 'AffTree::add_child_node(self, node, label, aff)'], [], 'attaches a fresh node (state Indeterminate) holding aff under (node, label)'),
    'AffTree::add_decision': (['Tree::add_child_node(self.tree, node, label, AffContent::new(aff))', 'AffTree::add_child_node(self, node, label, aff)'], [], 'attaches a fresh node (state Indeterminate) holding aff under (node, label)'),
    'AffTree::add_child_node': ('Tree::add_child_node(self.tree, node, label, AffContent::new(aff))', [], 'attaches a fresh node (state Indeterminate) holding aff under (node, label)'),
    'AffTree::from_tree': ('AffTree::AffTree{tree, dim, RefCell::new(Vec::new())}', [], 'wraps the tree with the given input dimension and an empty scratch cache'),
}
FLOORS = {'C04.R7': 4, 'C04.R6': 15, 'C04.R5': 12, 'C04.R1': 10, 'C04.R2': 21, 'C04.R3': 5, 'C04.R4': 7}
EXPLANATION = 'Input-dimension / common-output-dimension preservation, absence of the childless-decision state, absence of the merge assertion panic, for all histories.'
DOES_NOT_DECIDE = 'panics reachable through unwrap/indexing inside ndarray/minilp; numeric content of node functions'
ALLOWED_WRITERS = {
    'AffTree::from_poly': 'fresh tree built in the same function',
    'AffTree::apply_func_at_node': 'stores a∘old (C02.R3)',
    'AffTree::update_node': 'replaces the function (callers checked under C05.R3)',
    'AffTree::remove_axes': 'restricts every node to the kept columns',
    'AffTree::unary_op_inplace': 'terminal-wise operator',
}


def r1(ctx):
    F = ctx.facts
    by = {}
    for w in content_field_writes(F, 'aff'):
        by.setdefault(owner_qname(F, w[0]), []).append(w)
    for q, ws in sorted(by.items()):
        site = '%s#write:AffContent.aff' % q
        if q in ALLOWED_WRITERS:
            ctx.ok('C04.R1', site, ALLOWED_WRITERS[q], ws[0][7])
        elif q == 'AffTree::apply_func':
            ctx.ok('C04.R1', site, 'rewrites the terminals in place (shape judged by C04.R2 apply_func#all-terminals)', ws[0][7])
        elif all(w[6] for w in ws):
            ctx.ok('C04.R1', site, 'writes a node value it owns (not yet part of a tree)', ws[0][7])
        else:
            ctx.bad('C04.R1', site, 'unexpected writer of a node function: shapes and caches are only maintained by the five known writers', ws[0][7])
    for q in ALLOWED_WRITERS:
        if q not in by:
            ctx.lost('C04.R1', 'writer ' + q)


def r2(ctx):
    F = ctx.facts
    # apply_func visits all terminals
    b = ctx.body('C04.R2', 'AffTree::apply_func')
    if b is not None:
        R = Resolver(b)
        ok = False
        for bb, t in b.calls_to('AffTree::apply_func_at_node'):
            a = R.call_args(bb)
            lits = literals(b, R, bb)
            extra = [l for l in lits if not (l[0] == 'is' and is_call(l[1], 'Iterator::next'))]
            if any(is_call(x, 'Tree::terminal_indices') for x in walk(a[1])) and a[2] == ('param', 'aff_func') and not extra:
                ok = True
            # every node of a traversal from the root, those that are leaves: the same set as terminal_indices() on a tree whose nodes are
            # all reachable (C12); the rewrite touches values only, so the traversal is not disturbed
            extra2 = [l for l in lits if not (l[0] == 'is' and is_call(l[1], 'DfsPre::next', 'Bfs::next'))]
            if prune.full_traversal_item(a[1]) and a[2] == ('param', 'aff_func') and prune.leaf_guard(extra2, a[1]) and len(extra2) == 1:
                ok = True
        if not ok and not list(b.calls_to('AffTree::apply_func_at_node')):
            # the same rewrite done in place: for every item t of terminals_mut(): t.value.aff := aff_func ∘ t.value.aff, unconditionally
            ws = [w for w in content_field_writes(F, 'aff') if w[0] is b]
            good = bool(ws)
            for w in ws:
                tgt, val = w[4], w[5]
                item = tgt[1][1] if (tgt[0] == 'field' and tgt[2] == 'aff' and tgt[1][0] == 'field' and tgt[1][2] == 'value') else None
                extra = [l for l in literals(b, R, w[1]) if not (l[0] == 'is' and is_call(l[1], 'Iterator::next'))]
                good = good and w[3] == 'assign' and item is not None and is_call(item, 'Iterator::next') and is_call(item[2][0], 'Tree::terminals_mut') and \
                    item[2][0][2][0] == ('field', ('param', 'self'), 'tree') and val is not None and is_call(val, 'AffFuncBase::compose') and val[2][0] == ('param', 'aff_func') and \
                    s(val[2][1]) == s(tgt) and not extra
            ok = good
        if ok:
            ctx.ok('C04.R2', 'AffTree::apply_func#all-terminals', 'apply_func_at_node(leaf, aff_func) for every element of terminal_indices(), unconditionally: one common output dimension', b.span)
        else:
            ctx.bad('C04.R2', 'AffTree::apply_func#all-terminals', 'apply_func does not rewrite every terminal with the same function (terminals would disagree on the output dimension)', b.span)
    # remove_axes: in_dim := number of kept axes, every node rewritten with exactly those columns
    b = ctx.body('C04.R2', 'AffTree::remove_axes')
    if b is not None:
        R = Resolver(b)
        from ..effects import assigns
        ind = [w for w in assigns(b, R) if w.target == ('field', ('param', 'self'), 'in_dim')]
        affw = [w for w in content_field_writes(F, 'aff') if w[0] is b]
        ok = False
        if len(ind) == 1 and is_call(ind[0].value, 'Vec::len', '[T]::len') and affw:
            keep = ind[0].value[2][0]
            # the columns concatenated are indexed by the same keep list
            for w in affw:
                # whatever builds the column list (iterator chain or push loop): every element is a column `index_axis(mat, Axis(1), i)` with i drawn from the keep list
                AX1 = ('agg', ('adt', 'Axis', 'Axis', ('0',)), (('const', 1),))
                if not (is_call(w[5], 'concatenate') and s(w[5][2][0]) == AX1):
                    continue
                elems = prune.vec_elements(F, b, R, w[5][2][1])
                if not elems:
                    continue
                good = True
                for e in elems:
                    cols = [x for x in walk(e) if is_call(x, 'ArrayBase::index_axis')]
                    if len(cols) != 1 or s(cols[0][2][1]) != AX1:
                        good = False
                        continue
                    idx = cols[0][2][2]
                    if not (is_call(idx, 'Iterator::next') and s(idx[2][0]) == s(keep)):
                        good = False
                    # the column is put back as a (rows x 1) block: the axis inserted is the axis the blocks are concatenated along
                    ins = [x for x in walk(e) if is_call(x, 'ArrayBase::insert_axis')]
                    if len(ins) != 1 or s(ins[0][2][1]) != AX1 or s(ins[0][2][0]) != s(cols[0]):
                        good = False
                if good:
                    ok = True
        if ok:
            # the kept axes are exactly the positions where the mask is true: enumerate(mask) filtered by the mask entry, mapped to the position
            # (or filter_map with `then`), nothing skipped or taken in between; a push loop is judged by its guard
            k = s(keep)
            stages = []
            while k[0] == 'call' and k[2]:
                stages.append(k)
                k = k[2][0]
            names = [x[1] for x in stages]
            allowed = {'Itertools::collect_vec', 'Iterator::collect', 'Iterator::map', 'Iterator::filter', 'Iterator::filter_map', 'Iterator::enumerate', 'ArrayBase::iter',
                       'IntoIterator::into_iter', 'Iterator::copied', 'Iterator::cloned'}
            if stages and 'Iterator::enumerate' in names:
                mask_ok = k == ('param', 'mask') and all(n_ in allowed for n_ in names)
                if mask_ok:
                    # the chain is decided element by element (caseinterp): a mask entry `true` at position P yields P, `false` yields nothing
                    from ..caseinterp import pipe_outputs, Unknown as CUnknown, atom
                    kind = {'Iterator::map': 'map', 'Iterator::filter': 'filter', 'Iterator::filter_map': 'filter_map', 'Iterator::enumerate': 'enumerate'}
                    pst = []
                    for x in reversed(stages):
                        if x[1] in kind:
                            if x[1] == 'Iterator::enumerate':
                                pst.append(('enumerate',))
                            else:
                                c_ = x[2][1]
                                if not (c_[0] == 'closure' and not c_[2]):
                                    mask_ok = False
                                    break
                                pst.append((kind[x[1]], ('clo', c_[1], [])))
                    if mask_ok:
                        try:
                            P_ = atom('P')
                            t_, _ = pipe_outputs(F, {}, ('pipe', None, pst), True, P_)
                            f_, _ = pipe_outputs(F, {}, ('pipe', None, pst), False, P_)
                            mask_ok = t_ == [P_] and f_ == []
                        except CUnknown:
                            mask_ok = False
                if not mask_ok:
                    ok = False
        if ok:
            ctx.ok('C04.R2', 'AffTree::remove_axes#dims', 'in_dim := |kept axes| and every node matrix := its columns at the kept axes (same list)', b.span)
        else:
            ctx.bad('C04.R2', 'AffTree::remove_axes#dims', 'in_dim and the rewritten matrices are not derived from the same list of kept axes', b.span)
        # all nodes visited: loop over polyhedra() without skipping
        nx = list(b.calls_to('PolyhedraGen::next'))
        sk = list(b.calls_to('PolyhedraGen::skip_subtree'))
        if nx and not sk:
            ctx.ok('C04.R2', 'AffTree::remove_axes#all-nodes', 'rewrites every node of a full traversal (no skip)', b.span)
        else:
            ctx.bad('C04.R2', 'AffTree::remove_axes#all-nodes', 'remove_axes does not visit every node', b.span)
    # composition kernels: decision/terminal rewritten from (original, context) with matrix = original.mat · context.mat (rows(A) x n)
    for b in [x for x in F.bodies if x.impl_trait_base == 'CompositionSchema' and x.name in ('update_decision', 'update_terminal')]:
        R = Resolver(b)
        rets = [e for _, e in R.return_expr()]
        names = b.arg_names()
        site = b.qname + '#shape'
        orig, ctxp = ('param', names[0]), ('param', names[1])
        e = rets[0] if len(rets) == 1 else None
        verdict = None
        if e is not None:
            if e == orig:
                verdict = 'returns the operand node unchanged (same shape)'
            elif is_call(e, 'AffFuncBase::compose') and e[2][0] == orig and e[2][1] == ctxp:
                verdict = 'original∘context: rows(original) x indim(context)'
            elif is_call(e, 'AffFuncBase::from_mats') and is_call(e[2][0], 'ArrayBase::dot') and e[2][0][2][0] == ('field', orig, 'mat') and e[2][0][2][1] == ('field', ctxp, 'mat'):
                verdict = 'matrix = original.mat · context.mat: rows(original) x indim(context)'
            elif e[0] == 'call' and e[1] in ('Add::add', 'Sub::sub', 'Mul::mul', 'Div::div') and set(e[2]) == {orig, ctxp}:
                verdict = 'element-wise operator on two terminals of equal shape'
        if verdict:
            ctx.ok('C04.R2', site, verdict, b.span)
        else:
            ctx.bad('C04.R2', site, 'the rewritten node is not built from (original, context) in a shape-preserving way: %s' % [fmt(r)[:120] for r in rets], b.span)


def r4(ctx):
    F = ctx.facts
    for (b, bb, t, c) in prune.removal_sites(F):
        if c.name != 'merge_child_with_parent':
            continue
        site = '%s#call:Tree::merge_child_with_parent' % b.qname
        if b.qname in prune.NAMED_EXCEPTIONS:
            ctx.ok('C04.R4', site, 'named exception (caution API, forwards the assertion to its caller)', t['span'])
            continue
        R = Resolver(b)
        cfg = b.cfg()
        p = R.call_args(bb)[1]
        ok = None
        for rb, rt in b.calls():
            rc = Callee(rt['func'])
            if rc.self_base == 'Tree' and rc.name in ('remove_child', 'try_remove_child'):
                rp = R.call_args(rb)[1]
                if not (s(rp) == s(p) or prune._same_node(p, rp)):
                    continue
                if cfg.dominates(rb, bb):
                    ok = 'preceded on every path by remove_child(p, ..)'
                for h in cfg.loop_headers():
                    if rb in cfg.loop_of(h) and bb not in cfg.loop_of(h) and cfg.dominates(h, bb):
                        ok = 'preceded by the loop removing p\'s other children'
        if ok:
            ctx.ok('C04.R4', site, ok + ' (single-survivor guard judged under C03.R1)', t['span'])
        else:
            ctx.bad('C04.R4', site, 'merge_child_with_parent asserts exactly one child, but the other children of p are not removed before the call', t['span'])
        # splicing out the root is refused with Err(RootNode): a caller that unwraps the result must have excluded the root
        d = t['dest']['local']
        unwrapped = [ub for ub, ut in b.calls() if Callee(ut['func']).name in ('unwrap', 'expect') and Callee(ut['func']).self_base in ('Result', 'Option')
                     and ut['args'] and ut['args'][0]['k'] in ('move', 'copy') and ut['args'][0]['place']['local'] == d and not ut['args'][0]['place']['proj']]
        if unwrapped:
            facts_ = prune.cmp_facts(literals(b, R, bb))
            if any(op == 'Ne' and s(x) == s(p) and is_call(y, 'Tree::get_root_idx') for op, x, y in facts_):
                ctx.ok('C04.R4', site + ':root', 'the result is unwrapped only where p != root was established', t['span'])
            elif b.qname == 'AffTree::generic_composition_inplace':
                # here p can be the root of the right operand; forwarding needs a rejected sibling, and explore() never rejects an edge below the
                # root: that is the root-shortcut instance (AffTree::is_edge_feasible#root-shortcut) of this same check
                ctx.ok('C04.R4', site + ':root', 'forwarding at the root is excluded by the root shortcut of is_edge_feasible (instance #root-shortcut)', t['span'])
            else:
                ctx.bad('C04.R4', site + ':root', 'the Err(RootNode) of merge_child_with_parent is unwrapped although p may be the root: the operation would panic', t['span'])


def constructors_in_dim(ctx):
    """A tree's declared input dimension is the input dimension of the functions it is built from: from_aff -> indim(func), with_capacity(dim)
    -> dim together with identity(dim) at the root, new -> with_capacity(dim, _), from_poly -> the (checked equal) indim of poly / func_true."""
    from ..mir import agg_field
    F = ctx.facts

    def ret_agg(q):
        b = ctx.body('C04.R2', q)
        if b is None:
            return None, None, None
        R = Resolver(b)
        rets = [e for _, e in R.return_expr()]
        return b, R, (rets[0] if len(rets) == 1 else None)
    def part(e, name):
        # the struct literal, or the from_tree(tree, dim) constructor (its own body is an instance of the wrapper table)
        if e is None:
            return None
        if is_call(e, 'AffTree::from_tree') and len(e[2]) == 2:
            return e[2][0] if name == 'tree' else e[2][1]
        return agg_field(e, name)
    b, R, e = ret_agg('AffTree::from_aff')
    if b is not None:
        d = part(e, 'in_dim')
        root = part(e, 'tree')
        ok = d is not None and is_call(d, 'AffFuncBase::indim') and s(d[2][0]) == ('param', 'func') and root is not None and any(s(x) == ('param', 'func') for x in walk(root))
        (ctx.ok if ok else ctx.bad)('C04.R2', 'AffTree::from_aff#in_dim', 'in_dim = indim(func), func stored at the root' if ok else
                                    'from_aff does not declare the input dimension of the function it stores', b.span)
    b, R, e = ret_agg('AffTree::with_capacity')
    if b is not None:
        d = part(e, 'in_dim')
        root = part(e, 'tree')
        ok = d is not None and s(d) == ('param', 'dim') and root is not None and any(is_call(x, 'AffFuncBase::identity') and s(x[2][0]) == ('param', 'dim') for x in walk(root))
        (ctx.ok if ok else ctx.bad)('C04.R2', 'AffTree::with_capacity#in_dim', 'in_dim = dim, root = identity(dim)' if ok else
                                    'with_capacity does not pair the declared input dimension with an identity root of that dimension', b.span)
    b, R, e = ret_agg('AffTree::new')
    if b is not None:
        ok = e is not None and is_call(e, 'AffTree::with_capacity') and s(e[2][0]) == ('param', 'dim')
        (ctx.ok if ok else ctx.bad)('C04.R2', 'AffTree::new#in_dim', 'with_capacity(dim, ..)' if ok else 'new(dim) does not create a tree of input dimension dim', b.span)
    b = ctx.body('C04.R2', 'AffTree::from_poly')
    if b is not None:
        R = Resolver(b)
        wc = [R.call_args(bb) for bb, t in b.calls_to('AffTree::with_capacity', 'AffTree::new', 'AffTree::from_aff')]
        ok = False
        if len(wc) == 1:
            d = s(wc[0][0])
            ok = is_call(d, 'AffFuncBase::indim') and d[2][0] in (('param', 'func_true'), ('param', 'poly'))
            # a struct that carries the shape of func_true / poly: its input component
            if not ok and d[0] == 'call' and d[1] == 'AffFuncBase::indim':
                ok = False
        (ctx.ok if ok else ctx.bad)('C04.R2', 'AffTree::from_poly#in_dim', 'the tree is created with indim(func_true) (= indim(poly), checked first)' if ok else
                                    'from_poly does not create the tree with the input dimension of poly / func_true (%s)' % (fmt(s(wc[0][0]))[:80] if len(wc) == 1 else 'no single constructor call'), b.span)


def from_poly_attached_dims(ctx, rule):
    """from_poly: every caller-supplied function it attaches as a node (func_true, the payload of func_false) has had its input dimension
    compared with the polytope's by InputError::expect_dim, with the failing outcome returned (`?`), on every path that reaches the attach
    site under the site's own guards (func_false is Some).  Rows of the polytope need no check."""
    from ..mir import edge_literal
    b = ctx.body(rule, 'AffTree::from_poly')
    if b is None:
        return
    R = Resolver(b)
    cfg = b.cfg()
    checks = [(bb, R.call_args(bb), t) for bb, t in b.calls_to('InputError::expect_dim')]
    switches = [(sb, e, edge_literal(b, R, sb, cfg.edge_label[e])) for sb, bl in b.live_blocks() if bl['term']['k'] == 'switch' for e in cfg.edge_nodes(sb)]
    by_param = {}
    for bb, t in b.calls_to('AffTree::add_child_node'):
        a = R.call_args(bb)
        if len(a) < 4:
            continue
        ps = set(x[1] for x in walk(a[3]) if isinstance(x, tuple) and x[:1] == ('param',) and x[1] not in ('poly', 'self'))
        for p_ in ps:
            by_param.setdefault(p_, []).append((bb, t))
    if not by_param:
        ctx.lost(rule, 'caller-supplied functions attached by from_poly')
    for p_, sites in sorted(by_param.items()):
        site = 'AffTree::from_poly#checked-dim:%s' % p_
        mine = []
        for cb, ca, ct in checks:
            sides = [s(x) for x in ca[:2]]
            poly_side = [x for x in sides if is_call(x, 'AffFuncBase::indim') and x[2][0] == ('param', 'poly')]
            own_side = [x for x in sides if is_call(x, 'AffFuncBase::indim') and any(y == ('param', p_) for y in walk(x[2][0]))]
            if poly_side and own_side and ct.get('target') is not None:
                # the failing outcome leaves the function: only the Continue / Ok edge of the test of this call goes on
                go = [e for sb, e, lit in switches if lit and lit[0] == 'is' and any(is_call(y, 'InputError::expect_dim') and y[3] == cb for y in walk(lit[1]))
                      and set(lit[2]) & {'Continue', 'Ok'}]
                stop = [e for sb, e, lit in switches if lit and lit[0] == 'is' and any(is_call(y, 'InputError::expect_dim') and y[3] == cb for y in walk(lit[1]))
                        and not (set(lit[2]) & {'Continue', 'Ok'})]
                if go and stop and all(not cfg.reaches(e, ab) for e in stop for ab, _ in sites):
                    mine.append(cb)
                    # the check inside a loop over the supplied functions: passing the loop is passing the check for every element, if the
                    # loop is left only when the iterator is exhausted (or by the failing outcome)
                    for item in [y for x in ca[:2] for y in walk(x) if is_call(y, 'Iterator::next') and len(y) > 3 and any(z == ('param', p_) for z in walk(y))]:
                        nb = item[3]
                        nt = b.blocks[nb]['term'].get('target') if b.blocks[nb]['term']['k'] == 'call' else None
                        if nt is None or not cfg.reaches(nt, nb):
                            continue
                        loop = set(n for n in cfg.reach_set(nt) if cfg.reaches(n, nb)) | {nb}
                        okl = cb in loop
                        for u in loop:
                            for v in cfg.succ.get(u, []):
                                if v in loop:
                                    continue
                                lit = edge_literal(b, R, v[1], cfg.edge_label[v]) if isinstance(v, tuple) and v[:1] == ('e',) else None
                                exhausted = lit and lit[0] == 'is' and s(lit[1]) == s(item) and set(lit[2]) == {'None'}
                                if not exhausted and any(cfg.reaches(v, ab) for ab, _ in sites):
                                    okl = False
                        if okl:
                            mine.append(nb)
        def closure_checked(ab):
            # `param.map_or(Ok(()), |f| InputError::expect_dim(poly.indim(), f.indim()))?` dominating the attach site
            for l in literals(b, R, ab):
                if not (l[0] == 'is' and set(l[2]) <= {'Continue', 'Ok'} and l[2]):
                    continue
                for m in walk(l[1]):
                    if not (is_call(m, 'Option::map_or') and len(m[2]) == 3 and s(m[2][0]) == ('param', p_)):
                        continue
                    dflt, clo = m[2][1], m[2][2]
                    if not (dflt[0] == 'agg' and isinstance(dflt[1], tuple) and dflt[1][1:3] == ('Result', 'Ok')) or clo[0] != 'closure':
                        continue
                    cbody, crets = prune.closure_ret(ctx.facts, clo)
                    if not crets or len(crets) != 1 or not is_call(crets[0], 'InputError::expect_dim'):
                        continue
                    sides = [s(x) for x in crets[0][2][:2]]
                    caps = [s(c) for c in clo[2]] if len(clo) > 2 else []
                    poly_side = [x for x in sides if is_call(x, 'AffFuncBase::indim') and x[2][0] == ('upvar', 'poly') and ('param', 'poly') in caps]
                    own = [x for x in sides if is_call(x, 'AffFuncBase::indim') and x[2][0][0] == 'param']
                    if poly_side and own:
                        return True
            return False
        if all(closure_checked(ab) for ab, _ in sites):
            ctx.ok(rule, site, 'attached only after %s.map_or(Ok(()), |f| expect_dim(indim(poly), indim(f)))? succeeded' % p_, sites[0][1]['span'])
            continue
        bad = None
        for ab, at in sites:
            guards = [l for l in literals(b, R, ab) if l[0] == 'is']
            dead = [e for sb, e, lit in switches if lit and lit[0] == 'is' and any(s(lit[1]) == s(g[1]) and not (set(lit[2]) & set(g[2])) for g in guards)]
            if cfg.reaches(0, ab, avoid=mine + dead):
                bad = at
        if bad is None:
            ctx.ok(rule, site, 'attached only after expect_dim(indim(poly), indim(%s))? succeeded' % p_, sites[0][1]['span'])
        else:
            ctx.bad(rule, site, 'the function taken from `%s` is attached as a node without its input dimension having been compared with the polytope\'s '
                    '(a mismatching function yields Ok and an ill-formed tree instead of Err(DimensionMismatch))' % p_, bad['span'])


def decision_row_guard(ctx):
    """add_decision admits a predicate by its number of ROWS (one row per binary test, at most K of them as the assertion is written): the
    guard compares outdim(aff) with K, not any other dimension of the function"""
    b = ctx.body('C04.R2', 'AffTree::add_decision')
    if b is None:
        return
    R = Resolver(b)
    calls = [bb for bb, t in b.calls_to('Tree::add_child_node', 'AffTree::add_child_node')]
    site = 'AffTree::add_decision#row-guard'
    if not calls:
        ctx.undecided('C04.R2', site, 'attach call not found', b.span)
        return
    facts = [(op, s(x), s(y)) for op, x, y in prune.cmp_facts(literals(b, R, calls[0]))]
    AFF = ('param', 'aff')
    rows = {('call', 'AffFuncBase::outdim', (AFF,)), ('call', 'AffFuncBase::n_constraints', (AFF,))}
    other = {('call', 'AffFuncBase::indim', (AFF,))}
    K_ = ('const', 'K')
    good = any((op == 'Le' and x in rows and y == K_) or (op == 'Ge' and x == K_ and y in rows) for op, x, y in facts)
    wrong = any((x in other and y == K_) or (y in other and x == K_) for op, x, y in facts)
    guards = any(K_ in (x, y) for op, x, y in facts)
    if wrong or (guards and not good):
        ctx.bad('C04.R2', site, 'the branching-factor guard of add_decision does not compare the number of rows of the predicate with K', b.span)
    else:
        ctx.ok('C04.R2', site, 'decisions are admitted by rows(aff) <= K' if good else 'no branching-factor guard', b.span)


def run(ctx):
    helpers.run_for(ctx)
    decision_row_guard(ctx)
    from_poly_attached_dims(ctx, 'C04.R2')
    helpers.share_from(ctx, 'c02', 'C04.R7', ['AffTree::compose#PRUNE'])
    helpers.share_arena_contracts(ctx, 'C04.R6', failing_paths=False)
    prune.check_wrappers(ctx, 'C04.R1', WRAPPERS)
    constructors_in_dim(ctx)
    r1(ctx)
    # the cached feasibility state carries witness points; a state that travels from another tree (copied with a node's content) holds
    # points of that tree's input space, and the next elimination / pruned operation evaluates them against this tree's rows (shape panic):
    # the writers of AffContent.state are the clause decided under C05.R2
    from ..core import Ctx
    from . import c05
    sub = Ctx(ctx.facts, ctx.tier, ctx.prop)
    c05.r2(sub)
    for i in sub.insts:
        if i.rule == 'C05.R2':
            i.rule = 'C04.R1'
            ctx.insts.append(i)
    r2(ctx)
    prune.check_childless(ctx, 'C04.R3')
    r4(ctx)
    prune.check_root_edges_kept(ctx, 'C04.R4')

"""C08 — reduce preserves the function and only merges identical siblings."""
from ..mir import Callee, Resolver, fmt, literals, walk, strip_sites as s
from . import prune
from . import helpers
from .prune import is_call
from .c05 import node_of

LEVEL = 'proof'
RULES = {
    'C08.R5': 'the links, leaf flags and node set this property reads are what the arena mutators maintain as their effect contracts say (shared with C12.R2)',
    'C08.R4': helpers.RULE_TEXT,
    'C08.R1': 'the remove/merge pair in reduce is control-dependent on: node is not the root; both children[0] and children[1] present; both childless; left.aff == right.aff for exactly those two children',
    'C08.R2': 'PartialEq for AffFuncBase is the conjunction of mat == mat and bias == bias',
    'C08.R3': 'bottom-up order (reversed breadth-first sequence from the root), the sweep is left only at the end of the sequence, no insertion in reduce, removal = (remove label 1, splice label 0)',
}
FLOORS = {'C08.R5': 15, 'C08.R4': 4, 'C08.R1': 2, 'C08.R2': 1, 'C08.R3': 4}
EXPLANATION = ('Given C12 (SPLICE/DETACH contracts): the two removed-or-kept siblings are both defined and carry the bit-identical map, so every input routed '
               'to either gets the same value; no growth; parents are examined after their children (cascades, idempotence); siblings differing in any '
               'coefficient or bias are kept.')
DOES_NOT_DECIDE = 'nothing value-level: equality is bit equality of the stored arrays'


def run(ctx):
    helpers.run_for(ctx)
    prune.check_loop_exhaustive(ctx, 'C08.R1', 'AffTree::reduce', '#all-nodes', 'decisions after that point are never considered')
    helpers.share_arena_contracts(ctx, 'C08.R5')
    F = ctx.facts
    b = ctx.body('C08.R1', 'AffTree::reduce')
    if b is None:
        return
    R = Resolver(b)
    cfg = b.cfg()
    sites = [(bb, t, Callee(t['func'])) for bb, t in b.calls() if Callee(t['func']).self_base == 'Tree' and Callee(t['func']).name in prune.REMOVERS]
    if not sites:
        ctx.lost('C08.R1', 'removal calls in reduce')
    for bb, t, c in sites:
        a = R.call_args(bb)
        v = a[1]
        lits = literals(b, R, bb)
        site = 'AffTree::reduce#call:Tree::%s' % c.name
        missing = []
        # not the root
        if not any(op == 'Ne' and s(x) == s(v) and is_call(y, 'Tree::get_root_idx') for op, x, y in prune.cmp_facts(lits)):
            missing.append('node != root')
        def child(k):
            return ('index', ('field', ('call', 'Tree::tree_node', (a[0], v)), 'children'), ('const', k))
        present = {}
        for l in lits:
            if l[0] == 'is' and l[2] == frozenset(['Some']) and l[1][0] == 'index' and l[1][1][0] == 'field' and l[1][1][2] == 'children' \
                    and s(node_of(l[1])[1]) == s(v) and l[1][2][0] == 'const':
                present[l[1][2][1]] = l[1]
        if set(present) != {0, 1}:
            missing.append('both children[0] and children[1] present')
        else:
            left, right = present[0], present[1]
            def childless(ch):
                for l in lits:
                    x = l[1]
                    if x[0] == 'bin' and x[1] in ('Ne', 'Eq') and is_call(x[2], 'Iterator::count') and x[3] == ('const', 0):
                        eq0 = (x[1] == 'Eq') == (l[0] == 'true')
                        inner = x[2][2][0]
                        if eq0 and is_call(inner, 'TreeNode::children_iter') and s(node_of(inner)[1]) == s(ch):
                            return True
                    if l[0] == 'true' and x[0] == 'field' and x[2] == 'isleaf' and s(node_of(x)[1]) == s(ch):
                        return True
                return False
            if not childless(left):
                missing.append('left child has no children')
            if not childless(right):
                missing.append('right child has no children')
            eq = [l for l in lits if l[0] == 'true' and is_call(l[1], 'PartialEq::eq')]
            okeq = False
            for l in eq:
                x, y = l[1][2]
                def aff_of(e, ch):
                    return e[0] == 'field' and e[2] == 'aff' and e[1][0] == 'field' and e[1][2] == 'value' and s(node_of(e)[1]) == s(ch)
                if (aff_of(x, left) and aff_of(y, right)) or (aff_of(x, right) and aff_of(y, left)):
                    okeq = True
            if not okeq:
                missing.append('left.value.aff == right.value.aff (of exactly those two children)')
        # operands: remove label 1 / merge label 0 of the same node
        if c.name in ('remove_child', 'try_remove_child') and a[2] not in (('const', 1), ('const', 0)):
            missing.append('removed label is a constant slot of the tested node')
        if missing:
            ctx.bad('C08.R1', site, 'merge of siblings is not guarded by: ' + '; '.join(missing), t['span'])
        else:
            ctx.ok('C08.R1', site, 'guarded by non-root, both children present and childless, aff == aff of those two children', t['span'])
    # the pair: remove(v, x) then merge(v, 1-x)
    rm = [(bb, R.call_args(bb)) for bb, t, c in sites if c.name in ('remove_child', 'try_remove_child')]
    mg = [(bb, R.call_args(bb)) for bb, t, c in sites if c.name == 'merge_child_with_parent']
    if len(rm) == 1 and len(mg) == 1 and s(rm[0][1][1]) == s(mg[0][1][1]) and {rm[0][1][2], mg[0][1][2]} == {('const', 0), ('const', 1)} \
            and cfg.dominates(rm[0][0], mg[0][0]):
        ctx.ok('C08.R3', 'AffTree::reduce#pair', 'remove_child(v, a) then merge_child_with_parent(v, 1-a): the surviving sibling replaces the decision', b.span)
    else:
        ctx.bad('C08.R3', 'AffTree::reduce#pair', 'the removal pair is not (remove one constant slot of v, splice the other slot of v)', b.span)
    # order: reversed BFS from the root
    nexts = [R.call_args(bb)[0] for bb, t in b.calls_to('Iterator::next')]
    seq = nexts[0] if nexts else None
    src_ok = seq is not None and any(is_call(x, 'Bfs::iter') and is_call(x[2][1], 'Tree::get_root_idx') for x in walk(seq))
    base = seq
    while base is not None and is_call(base, 'Iterator::rev'):
        base = base[2][0]
    rev = [bb for bb, t in b.calls() if Callee(t['func']).name == 'reverse' and s(R.call_args(bb)[0]) == s(base)]
    hdrs = cfg.loop_headers()
    # reversed exactly once: either the collected sequence is reversed in place before the sweep, or the sweep iterates it through one `rev()`
    n_rev = sum(1 for x in walk(seq) if is_call(x, 'Iterator::rev')) if seq is not None else 0
    via_adaptor = src_ok and not rev and n_rev == 1 and bool(hdrs)
    if via_adaptor or (src_ok and len(rev) == 1 and n_rev == 0 and hdrs and all(cfg.dominates(rev[0], h) for h in hdrs if isinstance(h, int))):
        ctx.ok('C08.R3', 'AffTree::reduce#order', 'iterates the reversed breadth-first sequence from the root: children before parents', b.span)
    else:
        ctx.bad('C08.R3', 'AffTree::reduce#order', 'reduce does not sweep the reversed breadth-first order from the root (cascading merges / idempotence lost)', b.span)
    # the sweep visits every element of the sequence: the loop is left only when the sequence is exhausted (no break / early return)
    from ..mir import edge_literal
    outer = None
    for h in hdrs:
        if isinstance(h, int) and any(bb in cfg.loop_of(h) for bb, t, c in sites):
            if outer is None or len(cfg.loop_of(h)) > len(cfg.loop_of(outer)):
                outer = h
    if outer is None:
        ctx.bad('C08.R3', 'AffTree::reduce#sweep-complete', 'the merges are not inside a sweep loop over the node sequence', b.span)
    else:
        early = []
        for a_, b_ in cfg.loop_exits(outer):
            lit = edge_literal(b, R, a_[1], cfg.edge_label[a_]) if isinstance(a_, tuple) else None
            if lit and lit[0] == 'is' and lit[2] == frozenset(['None']) and is_call(lit[1], 'Iterator::next') and seq is not None and s(lit[1][2][0]) == s(seq):
                continue
            early.append(b.where(a_[1] if isinstance(a_, tuple) else a_))
        if early:
            ctx.bad('C08.R3', 'AffTree::reduce#sweep-complete', 'the sweep can stop before every decision was examined (break / early return at %s): identical terminal siblings may survive' % early[0], early[0])
        else:
            ctx.ok('C08.R3', 'AffTree::reduce#sweep-complete', 'the sweep loop is left only when the node sequence is exhausted', b.span)
    ins = [Callee(t['func']).short for bb, t in b.calls() if Callee(t['func']).name in ('add_child_node', 'add_root', 'insert', 'add_terminal', 'add_decision')]
    if ins:
        ctx.bad('C08.R3', 'AffTree::reduce#no-insertion', 'reduce inserts nodes: %s' % ins, b.span)
    else:
        ctx.ok('C08.R3', 'AffTree::reduce#no-insertion', 'no insertion primitive is called: the node count never grows', b.span)
    # R2: equality
    eqs = [x for x in F.bodies if x.name == 'eq' and x.impl_trait_base == 'PartialEq' and x.self_base == 'AffFuncBase']
    if not eqs:
        ctx.lost('C08.R2', 'impl PartialEq for AffFuncBase')
    for e in eqs:
        Re = Resolver(e)
        defs = []
        for i, j, st in e.stmts():
            if st['k'] == 'assign' and st['place']['local'] == 0 and not st['place']['proj']:
                defs.append((i, Re.rvalue(st['rv'], i, j)))
        for i, t in e.calls():
            if t['dest']['local'] == 0 and not t['dest']['proj']:
                defs.append((i, Re.call_expr(t, i)))
        fields = set()
        def cmp_field(x):
            if is_call(x, 'PartialEq::eq') and len(x[2]) == 2:
                p, q = x[2]
                if p[0] == 'field' and q[0] == 'field' and p[2] == q[2] and {p[1], q[1]} == {('param', 'self'), ('param', 'other')}:
                    return p[2]
            return None
        good = True
        for i, v in defs:
            if v == ('const', False):
                continue
            f = cmp_field(v)
            if f is None:
                good = False
                continue
            fields.add(f)
            for l in literals(e, Re, i):
                if l[0] == 'true' and cmp_field(l[1]):
                    fields.add(cmp_field(l[1]))
        if good and fields - {'_phantom'} == {'mat', 'bias'}:   # a derived impl also compares the zero-sized marker field
            ctx.ok('C08.R2', e.qname, 'eq = (mat == mat) && (bias == bias)', e.span)
        else:
            ctx.bad('C08.R2', e.qname, 'equality of affine functions does not compare both the matrix and the bias (compared: %s)' % sorted(fields), e.span)

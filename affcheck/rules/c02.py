"""C02 — composition law: f.compose(g) is g after f, undefinedness included (exact arithmetic)."""
from ..mir import Callee, Resolver, fmt, literals, walk, strip_sites as s
from ..effects import assigns, mut_calls
from ..kernel import Kernel, Poly, Block, Aff, symaff, OutOfFragment, kernel_return
from . import prune
from . import helpers
from .prune import is_call
from .c16 import obligation

LEVEL = 'proof'
TECHNIQUE = 'static analysis: MIR provenance/guard rules for the graft structure + polynomial normal forms of the rewrite kernels (nothing executed)'
RULES = {
    'C02.R7': 'the links, leaf flags and node set this property reads are what the arena mutators maintain as their effect contracts say (shared with C12.R2)',
    'C02.R6': helpers.RULE_TEXT,
    'C02.R1': 'graft structure: worklist starts at (operand root, terminal); every operand edge is copied with its own label under the current copy; the new node is paired with that edge\'s target; nothing else is inserted',
    'C02.R2': 'role consistency: update_terminal exactly on the isleaf outcome of the operand node whose function is passed, update_decision otherwise',
    'C02.R3': 'kernel identities: update_decision b\'-A\'x == b-A(Mx+c); update_terminal == original∘context; both composition schemas agree; apply_func_at_node stores aff∘old',
    'C02.R4': 'un-pruned mode removes nothing: compose::<false,_> selects the schema whose explore is the constant true; removals only on a false explore',
    'C02.R5': 'right operand unchanged: taken by shared reference, never written through; the only interior-mutable field (polytope_cache) is scratch, cleared before use and before return',
}
WITNESSES = ['C02OperandBehindSharedRef', 'C02ComposeBorrowsOperand', 'C02ScratchCacheIsPrivate']  # thorough tier: compile_fail witnesses in /verif/witness
FLOORS = {'C02.R7': 15, 'C02.R6': 7, 'C02.R1': 4, 'C02.R2': 4, 'C02.R3': 7, 'C02.R4': 7, 'C02.R5': 6}
EXPLANATION = ('R1-R3 give a node-by-node simulation: the copy of g under terminal t routes x exactly as g routes T_t(x) and returns g(T_t(x)); missing children of the '
               'operand are missing in the copy (definedness). Surviving nodes keep their indices because the only writes are in-place updates of terminals and Slab insertions.')
DOES_NOT_DECIDE = 'floating-point rounding near a hyperplane'
TRUSTED = ['semantics of ndarray dot/+/-/neg as interpreted in affcheck/kernel.py', 'Slab never moves entries']


def run(ctx):
    helpers.run_for(ctx)
    helpers.share_arena_contracts(ctx, 'C02.R7')
    F = ctx.facts
    g = ctx.body('C02.R1', 'AffTree::generic_composition_inplace')
    if g is not None:
        graft(ctx, F, g)
    kernels(ctx, F)
    r4(ctx, F)
    r5(ctx, F, g)


def graft(ctx, F, g):
    R = Resolver(g)
    Q = g.qname
    adds = [(bb, R.call_args(bb), t) for bb, t in g.calls() if Callee(t['func']).name in ('add_child_node', 'add_terminal', 'add_decision', 'add_root', 'insert')]
    pushes = [(bb, R.call_args(bb), t) for bb, t in g.calls_to('Vec::push')]
    pops = [(bb, R.call_args(bb), t) for bb, t in g.calls_to('Vec::pop')]
    LHS_TREE = ('field', ('param', 'lhs'), 'tree')
    RHS_TREE = ('field', ('param', 'rhs'), 'tree')
    # worklist = the Vec seeded with (operand root, terminal) and popped in the loop
    seedv = [p[1][0] for p in pushes if p[1][1][0] == 'agg' and p[1][1][1] == 'tuple' and is_call(p[1][1][2][0], 'Tree::get_root_idx')]
    pops = [p for p in pops if seedv and s(p[1][0]) == s(seedv[0])]
    if len(pops) != 1 or len(adds) != 1:
        ctx.bad('C02.R1', Q + '#shape', 'expected one worklist pop and exactly one insertion site (found %d pops, %d insertions)' % (len(pops), len(adds)), g.span)
        return
    wl = pops[0][1][0]
    popped = ('call', 'Vec::pop', (wl,), pops[0][0])
    parent0, parent1 = ('field', popped, '0'), ('field', popped, '1')
    seeds = [p for p in pushes if s(p[1][0]) == s(wl) and not any(is_call(x, 'Vec::pop') for x in walk(p[1][1]))]
    steps = [p for p in pushes if s(p[1][0]) == s(wl) and any(is_call(x, 'Vec::pop') for x in walk(p[1][1]))]
    term = None
    # seed
    ok = False
    for bb, a, t in seeds:
        v = a[1]
        if v[0] == 'agg' and v[1] == 'tuple' and is_call(v[2][0], 'Tree::get_root_idx') and v[2][0][2][0] == LHS_TREE and is_call(v[2][1], 'Iterator::next') and \
                any(x == ('param', 'terminals') for x in walk(v[2][1])):
            ok = True
            term = v[2][1]
    if ok and len(seeds) == 1:
        ctx.ok('C02.R1', Q + '#seed', 'worklist starts with (root of the operand, terminal being rewritten) for every terminal of the iterator', seeds[0][2]['span'])
    else:
        ctx.bad('C02.R1', Q + '#seed', 'the worklist is not seeded with (operand root, current terminal)', g.span)
    # insertion
    bb, a, t = adds[0]
    edge_iter = None
    label = a[2]
    okl = label[0] == 'field' and label[2] == 'label' and is_call(label[1], 'Iterator::next') and is_call(label[1][2][0], 'Tree::children') and \
        label[1][2][0][2][0] == LHS_TREE and s(label[1][2][0][2][1]) == s(parent0)
    okp = s(a[1]) == s(parent1) and a[0] == RHS_TREE
    if okl and okp:
        edge = label[1]
        ctx.ok('C02.R1', Q + '#copy-edge', 'add_child_node(copy of the popped pair, label of the operand edge, ..) for every edge of children(operand node)', t['span'])
    else:
        ctx.bad('C02.R1', Q + '#copy-edge', 'the grafted child is not attached under the current copy with the operand edge\'s own label (parent=%s label=%s)' % (fmt(a[1])[:60], fmt(label)[:80]), t['span'])
        return
    # every edge: the insertion is unconditional inside the edge loop
    lits = [l for l in literals(g, R, bb) if not (l[0] == 'is' and (is_call(l[1], 'Iterator::next') or is_call(l[1], 'Vec::pop'))) and not (l[0] == 'true' and l[1][0] == 'field' and l[1][2] == 'isleaf')]
    if lits:
        ctx.bad('C02.R1', Q + '#copy-all-edges', 'copying an operand edge is conditional on %s' % [(l[0], fmt(l[1])[:60]) for l in lits], t['span'])
    else:
        ctx.ok('C02.R1', Q + '#copy-all-edges', 'no operand edge is skipped before insertion', t['span'])
    # the content: update_* of the edge's target value with the terminal's function
    content = a[3]
    calls_ = [x for x in walk(content) if is_call(x, 'CompositionSchema::update_terminal', 'CompositionSchema::update_decision')]
    okc = len(calls_) == 2 and all(x[2][0] == ('field', ('field', edge, 'target_value'), 'aff') for x in calls_)
    # step push pairs the edge's target with the new node
    newnode = ('call', 'Tree::add_child_node', a and tuple(a), bb)
    oks = False
    for pb, pa, pt in steps:
        v = pa[1]
        if v[0] == 'agg' and v[1] == 'tuple' and v[2][0] == ('field', edge, 'target_idx') and is_call(v[2][1], 'Tree::add_child_node') and v[2][1][3] == bb:
            oks = True
    # every other pair put on the worklist (the branch kept when all were rejected) is also (target of an operand edge, the copy made for it):
    # taken out of a side list whose entries are (label, edge target, copy)
    for pb, pa, pt in pushes:
        if s(pa[0]) != s(wl) or (pb, pa, pt) in seeds:
            continue
        v = pa[1]
        if v[0] == 'agg' and v[1] == 'tuple' and len(v[2]) == 2 and v[2][0] == ('field', edge, 'target_idx') and is_call(v[2][1], 'Tree::add_child_node'):
            continue
        good = False
        main = [s(q_[1][1]) for q_ in steps if q_[1][1][0] == 'agg' and is_call(q_[1][1][2][-1] if q_[1][1][2] else ('x',), 'Tree::add_child_node')]
        main += [s(q_[1][1]) for q_ in steps if q_[1][1][0] != 'agg']

        def project(e_, name_):
            if e_[0] == 'agg' and e_[1] == 'tuple' and str(name_).isdigit() and int(name_) < len(e_[2]):
                return e_[2][int(name_)]
            if e_[0] == 'agg' and isinstance(e_[1], tuple) and e_[1][0] == 'adt' and len(e_[1]) > 3 and name_ in e_[1][3]:
                return e_[2][list(e_[1][3]).index(name_)]
            return None

        def from_side(x_):
            """x_ = popped side-list element projected along a field path -> (side list, path) or None"""
            path_ = []
            while x_[0] == 'field':
                path_.append(x_[2])
                x_ = x_[1]
            pops_ = [y for y in walk(x_) if is_call(y, 'Vec::pop')]
            if not pops_ or s(pops_[0][2][0]) == s(wl):
                return None
            return pops_[0][2][0], list(reversed(path_))

        def value_in_entries(x_):
            fs_ = from_side(s(x_))
            if fs_ is None:
                return None
            side_, path_ = fs_
            vals_ = []
            for q_ in pushes:
                if s(q_[1][0]) != s(side_):
                    continue
                e_ = s(q_[1][1])
                for nm_ in path_:
                    e_ = project(e_, nm_) if e_ is not None else None
                vals_.append(e_)
            return vals_
        TGT = s(('field', edge, 'target_idx'))
        if v[0] == 'agg' and v[1] == 'tuple' and len(v[2]) == 2:
            a0_, a1_ = value_in_entries(v[2][0]), value_in_entries(v[2][1])
            good = bool(a0_) and bool(a1_) and all(x_ is not None and s(x_) == TGT for x_ in a0_) and all(x_ is not None and is_call(x_, 'Tree::add_child_node') for x_ in a1_)
        else:
            # the pair travels as one value (a small struct): what is pushed on the worklist later is what the main step would have pushed
            av_ = value_in_entries(v)
            mains_ = [s(q_[1][1]) for q_ in steps if (q_[0], q_[1], q_[2]) != (pb, pa, pt) and from_side(s(q_[1][1])) is None]
            good = bool(av_) and bool(mains_) and all(x_ is not None and s(x_) == mains_[0] for x_ in av_)
        if not good:
            oks = False
    if okc and oks:
        ctx.ok('C02.R1', Q + '#pairing', 'the new node holds the rewritten value of the edge\'s target and is paired with that target for the next round', t['span'])
    else:
        ctx.bad('C02.R1', Q + '#pairing', 'the copied node is not built from / paired with the target of the same operand edge (content=%s push=%s)' % (okc, oks), t['span'])
    # ---- R2: roles
    n = 0
    for cb, ct in g.calls():
        c = Callee(ct['func'])
        if c.trait != 'CompositionSchema' or c.name not in ('update_terminal', 'update_decision'):
            continue
        n += 1
        ca = R.call_args(cb)
        node_aff = ca[0]
        lits = literals(g, R, cb)
        want = 'true' if c.name == 'update_terminal' else 'false'
        role = None
        for l in lits:
            x = l[1]
            if l[0] in ('true', 'false'):
                # isleaf of get_root(lhs) / is_leaf(lhs.tree, edge.target_idx)
                if x[0] == 'field' and x[2] == 'isleaf' and is_call(x[1], 'Tree::get_root') and x[1][2][0] == LHS_TREE:
                    if node_aff == ('field', ('field', x[1][:3] + (node_aff[1][1][3],) if False else node_aff[1][1], 'value'), 'aff') and is_call(node_aff[1][1], 'Tree::get_root'):
                        role = l[0]
                if is_call(x, 'Tree::is_leaf') and x[2][0] == LHS_TREE:
                    tgt = x[2][1]
                    if tgt[0] == 'field' and tgt[2] == 'target_idx' and node_aff == ('field', ('field', tgt[1], 'target_value'), 'aff'):
                        role = l[0]
        site = '%s#role:%s:%s' % (Q, c.name, 'root' if any(is_call(x, 'Tree::get_root') for x in walk(node_aff)) else 'child')
        if role == want:
            ctx.ok('C02.R2', site, '%s is applied on the isleaf == %s outcome of the same operand node whose function is passed' % (c.name, want), ct['span'])
        else:
            ctx.bad('C02.R2', site, '%s is not selected by the leaf flag of the operand node whose function it rewrites (found %s)' % (c.name, role), ct['span'])
    if n != 4:
        ctx.bad('C02.R2', Q + '#role-sites', 'expected 4 schema calls (root and child, terminal and decision), found %d' % n, g.span)


def kernels(ctx, F):
    x = Poly.atom('x')
    for schema in ('FunctionComposition', 'FunctionCompositionInfeasible'):
        q = '<%s as CompositionSchema>::update_decision' % schema
        b = ctx.body('C02.R3', q)
        if b is not None:
            try:
                R, ret = kernel_return(F, b)
                names = b.arg_names()
                env = {names[0]: symaff('original'), names[1]: symaff('context')}
                got = Kernel(F).ev(ret, env)
                O, C = env[names[0]], env[names[1]]
                lhs = got.bias - got.mat * x
                rhs = O.bias - O.mat * (C.mat * x + C.bias)
                if lhs == rhs:
                    ctx.ok('C02.R3', q, "b' - A'x == b - A(Mx + c): %r" % (lhs,), b.span)
                else:
                    ctx.bad('C02.R3', q, "decision rewrite broken: b' - A'x = %r, but b - A(Mx + c) = %r" % (lhs, rhs), b.span)
            except (OutOfFragment, AttributeError) as e:
                ctx.undecided('C02.R3', q, 'OUT-OF-FRAGMENT: %s' % e, b.span)
        q = '<%s as CompositionSchema>::update_terminal' % schema
        b = ctx.body('C02.R3', q)
        if b is not None:
            try:
                R, ret = kernel_return(F, b)
                names = b.arg_names()
                env = {names[0]: symaff('original'), names[1]: symaff('context')}
                got = Kernel(F).ev(ret, env)
                O, C = env[names[0]], env[names[1]]
                want = Aff(O.mat * C.mat, O.mat * C.bias + O.bias)
                if got == want:
                    ctx.ok('C02.R3', q, "A'x + b' == A(Mx + c) + b: %r" % (got,), b.span)
                else:
                    ctx.bad('C02.R3', q, 'terminal rewrite is not original∘context: got %r, want %r' % (got, want), b.span)
            except OutOfFragment as e:
                ctx.undecided('C02.R3', q, 'OUT-OF-FRAGMENT: %s' % e, b.span)
    obligation(ctx, 'C02.R3', F, 'AffFuncBase::compose', lambda e: Aff(e['self'].mat * e['other'].mat, e['self'].mat * e['other'].bias + e['self'].bias))
    b = ctx.body('C02.R3', 'AffTree::apply_func_at_node')
    if b is not None:
        R = Resolver(b)
        from .c05 import content_field_writes, node_of
        ws = [w for w in content_field_writes(F, 'aff') if w[0] is b]
        ok = len(ws) == 1 and is_call(ws[0][5], 'AffFuncBase::compose') and ws[0][5][2][0] == ('param', 'aff') and s(ws[0][5][2][1]) == s(ws[0][4]) \
            and s(node_of(ws[0][4])[1]) == s(('param', 'node'))
        (ctx.ok if ok else ctx.bad)('C02.R3', 'AffTree::apply_func_at_node', 'node.aff := aff∘node.aff (same node)' if ok else 'apply_func_at_node does not store aff∘old at the node', b.span)
    # apply_func(a) = composition with the affine tree a: every terminal is rewritten, unconditionally (instance shared with C04.R2)
    from ..core import Ctx
    from . import c04
    sub = Ctx(ctx.facts, ctx.tier, ctx.prop)
    c04.r2(sub)
    for i in sub.insts:
        if i.site.startswith('AffTree::apply_func#'):
            i.rule = 'C02.R3'
            ctx.insts.append(i)


def r4(ctx, F):
    b = ctx.body('C02.R4', 'AffTree::compose')
    if b is not None:
        R = Resolver(b)
        from ..mir import const_reach
        for PR in (True, False):
            for VB in (True, False):
                reached = const_reach(b, R, {'PRUNE': PR, 'VERBOSE': VB})
                calls_ = [(bb, t) for bb, t in b.calls_to('AffTree::generic_composition_inplace') if bb in reached]
                site = 'AffTree::compose#PRUNE=%s,VERBOSE=%s' % (PR, VB)
                if len(calls_) != 1:
                    ctx.bad('C02.R4', site, 'expected exactly one composition call for this instantiation, constant propagation reaches %d' % len(calls_), b.span)
                    continue
                bb, t = calls_[0]
                a = R.call_args(bb)
                schema = [x.split('::')[-1] for x in t['func']['generic_args'] if 'FunctionComposition' in x]
                if not schema and len(a) > 3 and a[3][0] == 'agg' and isinstance(a[3][1], tuple):
                    # the call sits in a helper that is generic over the schema: the schema is the value handed down
                    schema = [a[3][1][1]]
                okargs = a[0] == ('param', 'other') and a[1] == ('param', 'self') and any(is_call(x, 'Tree::terminal_indices') and x[2][0] == ('field', ('param', 'self'), 'tree') for x in walk(a[2]))
                want = 'FunctionCompositionInfeasible' if PR else 'FunctionComposition'
                if okargs and schema == [want]:
                    ctx.ok('C02.R4', site, 'operand = other, rewritten = self at all its terminals, schema %s' % want, t['span'])
                else:
                    ctx.bad('C02.R4', site, 'compose selects schema %s (expected %s) / wrong operands' % (schema, want), t['span'])
    e = ctx.body('C02.R4', '<FunctionComposition as CompositionSchema>::explore')
    if e is not None:
        rets = [x for _, x in Resolver(e).return_expr()]
        (ctx.ok if rets == [('const', True)] else ctx.bad)('C02.R4', e.qname, 'constant true: nothing is ever pruned without PRUNE' if rets == [('const', True)] else 'un-pruned schema can reject edges', e.span)
    # removals in the worklist only on a false explore / single-survivor
    from ..core import Ctx
    sub = Ctx(ctx.facts, ctx.tier, ctx.prop)
    prune.check_removals(sub, 'C02.R4')
    for i in sub.insts:
        if i.site.startswith('AffTree::generic_composition_inplace#'):
            ctx.insts.append(i)


def r5(ctx, F, g):
    # operand taken by shared reference and never written through
    for q, pname in (('AffTree::compose', 'other'), ('AffTree::generic_composition_inplace', 'lhs')):
        b = F.q(q)
        if b is None:
            ctx.lost('C02.R5', q)
            continue
        idx = b.arg_names().index(pname) + 1 if pname in b.arg_names() else None
        ty = b.local_ty(idx) if idx else ''
        R = Resolver(b)
        writes = [w for w in assigns(b, R) + mut_calls(b, R) if not w.owned and any(x == ('param', pname) for x in walk(w.target)) and not any(x == ('param', 'rhs') or x == ('param', 'self') for x in walk(w.target))]
        if ty.startswith('&') and not ty.startswith('&mut') and not writes:
            ctx.ok('C02.R5', '%s#operand:%s' % (q, pname), 'operand is `%s`, no write or &mut borrow is derived from it' % ty.split('<')[0], b.span)
        else:
            ctx.bad('C02.R5', '%s#operand:%s' % (q, pname), 'the right operand can be modified (%s; writes %s)' % (ty, writes), b.span)
    # interior mutability: polytope_cache is scratch
    users = []
    for b in F.bodies:
        R = None
        for bb, t in b.calls():
            c = Callee(t['func'])
            if c.self_base == 'RefCell' and c.name in ('borrow_mut', 'replace', 'swap', 'take', 'set', 'get_mut', 'as_ptr'):
                R = R or Resolver(b)
                a0 = R.call_args(bb)[0]
                if any(isinstance(x, tuple) and x[:1] == ('field',) and x[2] == 'polytope_cache' for x in walk(a0)):
                    users.append((b, bb, t))
    if not users:
        ctx.ok('C02.R5', 'AffTree.polytope_cache#users', 'no function mutates the interior-mutable scratch cache', '')
    for b, bb, t in users:
        R = Resolver(b)
        cfg = b.cfg()
        guard = ('call', 'RefCell::borrow_mut', tuple(R.call_args(bb)), bb)
        is_cache = lambda e: any(isinstance(x, tuple) and x[:1] == ('field',) and x[2] == 'polytope_cache' for x in walk(e))
        clears = [cb for cb, ct in b.calls() if Callee(ct['func']).name == 'clear' and is_cache(R.call_args(cb)[0])]
        pushes = [cb for cb, ct in b.calls() if Callee(ct['func']).name in ('push', 'extend', 'insert') and is_cache(R.call_args(cb)[0])]
        from ..mir import EXIT
        before = clears and all(any(cfg.dominates(c, p) for c in clears) for p in pushes)
        after = clears and all(not cfg.reaches(p, EXIT, avoid=[c for c in clears if not cfg.dominates(c, p)]) for p in pushes)
        site = '%s#polytope_cache' % b.qname
        if before and after:
            ctx.ok('C02.R5', site, 'the scratch cache is cleared before it is filled and again before returning: no observable state survives the call', t['span'])
        else:
            ctx.bad('C02.R5', site, 'state can survive in AffTree.polytope_cache across a call that only holds &AffTree (cleared before=%s after=%s)' % (bool(before), bool(after)), t['span'])
    # freeze facts
    for name in ('AffContent', 'NodeState'):
        a = F.adt(name)
        if a is None:
            ctx.lost('C02.R5', 'ADT ' + name)
        elif a.get('freeze') is True:
            ctx.ok('C02.R5', name + '#Freeze', 'no interior mutability (rustc: is_freeze)', '')
        else:
            ctx.bad('C02.R5', name + '#Freeze', 'type has interior mutability: an operand behind & could change', '')
    at = F.adt('AffTree')
    if at is not None:
        cells = [f['name'] for v in at['variants'] for f in v['fields'] if 'Cell' in f['ty'] or 'Mutex' in f['ty'] or 'Atomic' in f['ty']]
        if cells == ['polytope_cache']:
            ctx.ok('C02.R5', 'AffTree#interior-mutable-fields', 'the only interior-mutable field is the scratch cache polytope_cache', '')
        else:
            ctx.bad('C02.R5', 'AffTree#interior-mutable-fields', 'interior-mutable fields of AffTree: %s' % cells, '')
    if F.meta.get('n_unsafe_fns', 0) != 0:
        ctx.bad('C02.R5', 'crate#unsafe', 'the crate contains unsafe functions', '')

"""C17 — predefined trees equal their mathematical definitions (builder reconstruction + order types)."""
from fractions import Fraction
from itertools import product
from ..mir import Callee, Resolver, fmt, literals, walk, strip_sites as s
from ..effects import assigns
from ..kernel import Poly
from . import prune
from . import helpers
from .prune import is_call

LEVEL = 'other'
TECHNIQUE = ('static analysis: abstract reconstruction of the <=7-node tree description from straight-line generator MIR, then order-type enumeration of the one input coordinate '
             'the tree touches (values touched only through comparisons) against the textbook piece table; nothing of /repo is executed')
RULES = {
    'C17.R7': 'the generators accept exactly the component indices below the dimension: a guard on (index, dim) is `index < dim`',
    'C17.R6': "the predefined trees are read by the evaluator's convention: a row is satisfied iff mat·x - bias <= 0 (closed), label bit i <=> row i (shared with C09.R1/R2)",
    'C17.R5': helpers.RULE_TEXT,
    'C17.R1': 'locality: terminals are identity(dim)/zero_idx(dim,row) modified only at [row,row]/bias[row]; decisions are unit(dim,row) modified only at [0,row]/bias[0]; row is the parameter',
    'C17.R2': 'one-dimensional piece tables by order type: ReLU, leaky ReLU, hard tanh, hard shrink, hard sigmoid, threshold select the textbook piece in every order type of x_row vs the thresholds (breakpoints included)',
    'C17.R4': 'from_slice + remove_axes as restriction: slice keeps exactly the NaN axes, remove_axes rewrites every node (full traversal) with the kept columns and the matching in_dim',
    'C17.R3': 'chains and heads: from_poly / class_characterization / inf_norm attach the outside value on label 0 and continue on label 1; argmax keeps the invariant (candidate a, current first maximum c) per node',
}
CONTROL_REV = '078b142'  # thorough tier: the rules must still report the defects found (and since fixed) on the original tree
CONTROLS = [('C17.R2', 'partial_hard_shrink')]
FLOORS = {'C17.R7': 7, 'C17.R6': 4, 'C17.R5': 4, 'C17.R1': 6, 'C17.R2': 6, 'C17.R3': 6, 'C17.R4': 4}
EXPLANATION = ('The generator code is straight-line; its tree (decisions s·x_row <= t, leaves (slope, offset)) is reconstructed from the from_aff/add_child_node calls and the point '
               'writes on the affine forms, and interpreted over the finite set of order types of x_row relative to the thresholds under the generator\'s own assertions.')
DOES_NOT_DECIDE = 'values of the chain generators for all dims beyond the label discipline; numeric content'

X = ('param', '__x__')


def cpoly(p):
    """commutative normal form of a kernel.Poly"""
    out = {}
    for k, v in p.t.items():
        kk = tuple(sorted(k))
        out[kk] = out.get(kk, 0) + v
    return Poly(out)


def sym(e):
    """numeric/symbolic scalar from an expression: consts and generator parameters"""
    if e[0] == 'const' and isinstance(e[1], (int, float)) and not isinstance(e[1], bool):
        return Poly.const(e[1])
    if e[0] == 'param':
        return Poly.atom(e[1])
    if e[0] == 'un' and e[1] == 'Neg':
        return -sym(e[2])
    if e[0] == 'bin' and e[1] in ('Div', 'Mul', 'Add', 'Sub'):
        a, b = sym(e[2]), sym(e[3])
        if e[1] == 'Add':
            return a + b
        if e[1] == 'Sub':
            return a - b
        if e[1] == 'Mul':
            return cpoly(a * b)
        if set(b.t) <= {()} and b.t.get(()):
            return a.scale(1 / b.t[()])
    if is_call(e, 'One::one'):
        return Poly.const(1)
    if is_call(e, 'Zero::zero'):
        return Poly.const(0)
    raise ValueError('not a scalar over the parameters: %s' % fmt(e))


def numeric(p, env):
    tot = Fraction(0)
    for k, v in p.t.items():
        term = Fraction(v)
        for (n, _) in k:
            term *= Fraction(env[n])
        tot += term
    return tot


class Form:
    """affine form restricted to coordinate `row`"""

    def __init__(self, kind, slope, offset, rows):
        self.kind = kind
        self.slope = slope
        self.offset = offset
        self.rows = rows


def affine_form(b, R, e, writes, row):
    """-> ('decision', s, t) for a 1-row predicate s*x_row <= t, ('leaf', slope, offset) for a dim-row function; raises ValueError"""
    problems = []
    # every node function lives in the tree's input space: the constructor is called with the generator's `dim`
    if is_call(e, 'AffFuncBase::unit', 'AffFuncBase::identity', 'AffFuncBase::zero_idx') and e[2] and s(e[2][0]) != ('param', 'dim'):
        problems.append('a node function is built for dimension %s, not for `dim`' % fmt(e[2][0])[:40])
    if is_call(e, 'AffFuncBase::unit') and e[2][1] == row:
        s_, t_ = Poly.const(1), Poly.const(0)
        for idx, v, field in writes:
            if field == 'mat' and tuple(idx) == (('const', 0), row):
                s_ = sym(v)
            elif field == 'bias' and tuple(idx) == (('const', 0),):
                t_ = sym(v)
            else:
                problems.append('decision written outside [0,row]/bias[0]: %s[%s]' % (field, [fmt(i) for i in idx]))
        return ('decision', s_, t_), problems
    if is_call(e, 'AffFuncBase::identity') or (is_call(e, 'AffFuncBase::zero_idx') and e[2][1] == row):
        slope = Poly.const(1) if is_call(e, 'AffFuncBase::identity') else Poly.const(0)
        off = Poly.const(0)
        for idx, v, field in writes:
            if field == 'mat' and tuple(idx) == (row, row):
                slope = sym(v)
            elif field == 'bias' and tuple(idx) == (row,):
                off = sym(v)
            else:
                problems.append('terminal written outside [row,row]/bias[row]: %s[%s]' % (field, [fmt(i) for i in idx]))
        return ('leaf', slope, off), problems
    raise ValueError('node function is not unit/identity/zero_idx of the parameters: %s' % fmt(e))


def reconstruct(F, b):
    """tree description of a straight-line generator: nodes[handle] = (kind, a, b), children[(handle,label)] = handle"""
    R = Resolver(b)
    names = b.arg_names()
    row = ('param', 'row')
    ws = [w for w in assigns(b, R) if not w.exp and is_call(w.target, 'IndexMut::index_mut')]
    def writes_of(e):
        out = []
        for w in ws:
            base = w.target[2][0]
            if base[0] == 'field' and base[1] == e and base[2] in ('mat', 'bias'):
                idx = w.target[2][1]
                idx = idx[2] if (idx[0] == 'agg' and idx[1] == 'array') else (idx,)
                out.append((idx, w.value, base[2]))
        return out
    nodes = {}
    children = {}
    problems = []
    roots = [(bb, R.call_args(bb)) for bb, t in b.calls_to('AffTree::from_aff')]
    if len(roots) != 1:
        raise ValueError('expected one from_aff root')
    root_handle = ('const', 0)
    f, pr = affine_form(b, R, roots[0][1][0], writes_of(roots[0][1][0]), row)
    problems += pr
    nodes[s(root_handle)] = f
    tree_expr = ('call', 'AffTree::from_aff', tuple(roots[0][1]), roots[0][0])
    for bb, t in b.calls_to('AffTree::add_child_node'):
        a = R.call_args(bb)
        if a[0] != tree_expr:
            raise ValueError('child added to another tree')
        if literals(b, R, bb) and any(not _is_assert(l) for l in literals(b, R, bb)):
            raise ValueError('conditional construction')
        parent, label, aff = a[1], a[2], a[3]
        if label[0] != 'const':
            raise ValueError('non-constant label')
        h = ('call', 'Tree::add_child_node')  # handle identity = the call site
        handle = s(('call', 'AffTree::add_child_node', tuple(a), bb))
        f, pr = affine_form(b, R, aff, writes_of(aff), row)
        problems += pr
        nodes[handle] = f
        pk = s(parent)
        if (pk, label[1]) in children:
            raise ValueError('two children under one label')
        children[(pk, label[1])] = handle
    return nodes, children, s(root_handle), problems


def _is_assert(l):
    """a precondition on the arguments, in either spelling (`assert!(a < b)` or `if !(a < b) { panic!(..) }`): a comparison whose operands are
    parameters and constants only"""
    if l[0] not in ('true', 'false'):
        return False
    e = l[1]
    while e[0] == 'un' and e[1] == 'Not':
        e = e[2]
    if e[0] == 'bin' and e[1] in ('Lt', 'Le', 'Gt', 'Ge', 'Eq', 'Ne'):
        ops = (e[2], e[3])
    elif e[0] == 'call' and e[1].startswith(('PartialOrd::', 'PartialEq::')) and len(e[2]) == 2:
        ops = e[2]
    else:
        return False
    def simple(x):
        while x[0] == 'cast':
            x = x[1]
        return x[0] in ('param', 'const')
    return all(simple(x) for x in ops)


def route(nodes, children, root, xval, env):
    """follow the evaluator's convention: label 1 iff s*x - t <= 0 (closed)"""
    cur = root
    for _ in range(10):
        n = nodes[cur]
        if n[0] == 'leaf':
            return n
        sv, tv = numeric(n[1], env), numeric(n[2], env)
        label = 1 if sv * xval - tv <= 0 else 0
        if (cur, label) not in children:
            return None
        cur = children[(cur, label)]
    return None


# textbook piece tables: list of (condition(x, env) -> bool, slope poly, offset poly); first match wins
P = Poly.atom
C = Poly.const
TEXTBOOK = {
    'partial_ReLU': dict(params={}, pieces=[(lambda x, e: x > 0, C(1), C(0)), (lambda x, e: True, C(0), C(0))], thresholds=[C(0)], doc='max(0, x)'),
    'partial_leaky_ReLU': dict(params={'alpha': [Fraction(1, 10), Fraction(-2), Fraction(3)]},
                               pieces=[(lambda x, e: x > 0, C(1), C(0)), (lambda x, e: True, P('alpha'), C(0))], thresholds=[C(0)], doc='x if x > 0 else alpha*x'),
    'partial_hard_tanh': dict(params={'min_val,max_val': [(Fraction(-1), Fraction(1)), (Fraction(1, 2), Fraction(1, 2)), (Fraction(2), Fraction(5)), (Fraction(-7), Fraction(-3))]},
                              pieces=[(lambda x, e: x > e['max_val'], C(0), P('max_val')), (lambda x, e: x < e['min_val'], C(0), P('min_val')), (lambda x, e: True, C(1), C(0))],
                              thresholds=[P('min_val'), P('max_val')], doc='clamp(x, min_val, max_val)'),
    'partial_hard_shrink': dict(params={'lambda': [Fraction(1, 2), Fraction(0), Fraction(3)]},
                                pieces=[(lambda x, e: x > e['lambda'], C(1), C(0)), (lambda x, e: x < -e['lambda'], C(1), C(0)), (lambda x, e: True, C(0), C(0))],
                                thresholds=[P('lambda'), -P('lambda')], doc='x if |x| > lambda else 0'),
    'partial_hard_sigmoid': dict(params={},
                                 pieces=[(lambda x, e: x <= -3, C(0), C(0)), (lambda x, e: x >= 3, C(0), C(1)), (lambda x, e: True, C(Fraction(1, 6)), C(Fraction(1, 2)))],
                                 thresholds=[C(-3), C(3)], doc='0 if x <= -3, 1 if x >= 3, x/6 + 1/2 otherwise'),
    'partial_threshold': dict(params={'threshold,value': [(Fraction(1), Fraction(7)), (Fraction(-2), Fraction(0))]},
                              pieces=[(lambda x, e: x > e['threshold'], C(1), C(0)), (lambda x, e: True, C(0), P('value'))], thresholds=[P('threshold')], doc='x if x > threshold else value'),
}


def param_envs(spec):
    keys = list(spec['params'])
    if not keys:
        yield {}
        return
    for combo in product(*[spec['params'][k] for k in keys]):
        env = {}
        for k, v in zip(keys, combo):
            names = k.split(',')
            vals = v if isinstance(v, tuple) else (v,)
            for n, x in zip(names, vals):
                env[n] = x
        yield env


def order_types(thr_vals):
    """representative x for every order type relative to the (numeric) thresholds: below, at, between, at, ..., above"""
    ts = sorted(set(thr_vals))
    xs = [(ts[0] - 1, None)]
    for i, t in enumerate(ts):
        xs.append((t, t))
        if i + 1 < len(ts):
            xs.append(((t + ts[i + 1]) / 2, None))
    xs.append((ts[-1] + 1, None))
    return xs


def run(ctx):
    helpers.run_for(ctx)
    prune.check_interval_guard(ctx, 'C17.R7', 'partial_hard_tanh', 'min_val', 'max_val')
    prune.check_index_guards(ctx, 'C17.R7', ['partial_ReLU', 'partial_leaky_ReLU', 'partial_hard_tanh', 'partial_hard_shrink', 'partial_hard_sigmoid', 'partial_threshold', 'class_characterization'], min_dim={'class_characterization': 2})
    helpers.share_from(ctx, 'c09', 'C17.R6', ['AffTree::evaluate_decision#', 'AffTree::index_from_label#', 'AffTree::find_terminal#', 'AffTree::evaluate#'])
    # from_poly: the outside function it attaches is one of the right input dimension (same instances as C04.R2)
    from .c04 import from_poly_attached_dims
    from_poly_attached_dims(ctx, 'C17.R3')
    F = ctx.facts
    for gen, spec in TEXTBOOK.items():
        b = ctx.body('C17.R2', gen)
        if b is None:
            continue
        try:
            nodes, children, root, problems = reconstruct(F, b)
        except ValueError as e:
            ctx.undecided('C17.R2', gen, 'tree description could not be reconstructed: %s' % e, b.span)
            continue
        # R1
        if problems:
            for p in problems:
                ctx.bad('C17.R1', gen + '#locality', p, b.span)
        else:
            nd = sum(1 for n in nodes.values() if n[0] == 'decision')
            ctx.ok('C17.R1', gen + '#locality', '%d decisions on x_row only, %d terminals changing component row only' % (nd, len(nodes) - nd), b.span)
        # every decision has both branches (total function)
        missing = [(h, l) for h, n in nodes.items() if n[0] == 'decision' for l in (0, 1) if (h, l) not in children]
        if missing:
            ctx.bad('C17.R2', gen + '#total', 'a decision of the generated tree lacks a branch: the activation would be undefined there', b.span)
            continue
        bad = []
        cases = 0
        for env in param_envs(spec):
            tv = [numeric(t, env) for t in spec['thresholds']]
            # the tree's own breakpoints belong to the partition as well: a decision placed at a value that is no threshold of the
            # definition splits one of its regions, and each part has to be compared
            own = []
            for n_ in nodes.values():
                if n_[0] == 'decision':
                    try:
                        sv, tv_ = numeric(n_[1], env), numeric(n_[2], env)
                        if sv != 0:
                            own.append(Fraction(tv_) / Fraction(sv))
                    except Exception:
                        pass
            for xval, at in order_types(tv + own):
                cases += 1
                leaf = route(nodes, children, root, xval, env)
                piece = [p for p in spec['pieces'] if p[0](xval, env)][0]
                if leaf is None:
                    bad.append('undefined at x=%s (%s)' % (xval, env))
                    continue
                if at is None:
                    same = cpoly(leaf[1]) == cpoly(piece[1]) and cpoly(leaf[2]) == cpoly(piece[2])
                    # equal as functions on this open region; allow equality modulo coinciding parameter values by comparing at two points
                    if not same:
                        same = all(numeric(leaf[1], env) * (xval + d) + numeric(leaf[2], env) == numeric(piece[1], env) * (xval + d) + numeric(piece[2], env) for d in (0, Fraction(1, 7))) and False
                    if not same:
                        bad.append('on the open region around x=%s with %s the tree applies x -> %r·x + %r, the definition is x -> %r·x + %r'
                                   % (xval, env or '{}', leaf[1], leaf[2], piece[1], piece[2]))
                else:
                    lv = numeric(leaf[1], env) * xval + numeric(leaf[2], env)
                    pv = numeric(piece[1], env) * xval + numeric(piece[2], env)
                    if lv != pv:
                        bad.append('at the breakpoint x=%s with %s the tree returns %s, the definition gives %s' % (xval, env or '{}', lv, pv))
        if bad:
            ctx.bad('C17.R2', gen, '%s: %s' % (spec['doc'], '; '.join(bad[:3])), b.span, detail=bad)
        else:
            ctx.ok('C17.R2', gen, '%s: the selected leaf equals the textbook piece in all %d (parameter ordering, order type) cases' % (spec['doc'], cases), b.span)
    chains(ctx, F)
    argmax(ctx, F)
    restriction(ctx, F)


def restriction(ctx, F):
    """C17.R4: from_slice followed by remove_axes is the restriction to the slice: from_slice is the slice function as a one-node tree,
    remove_axes rewrites every node with the kept columns and sets in_dim accordingly (rules shared with C04.R2 / C16.R2)."""
    from ..core import Ctx
    from . import c04, c16
    sub = Ctx(ctx.facts, ctx.tier, ctx.prop)
    c04.r2(sub)
    c16.slice_ctor(sub, F)
    for i in sub.insts:
        if i.site.startswith('AffTree::remove_axes#') or i.site == 'AffFuncBase::slice':
            i.rule = 'C17.R4'
            ctx.insts.append(i)
    b = ctx.body('C17.R4', 'AffTree::from_slice')
    if b is not None:
        R = Resolver(b)
        rets = [e for _, e in R.return_expr()]
        ok = len(rets) == 1 and is_call(rets[0], 'AffTree::from_aff') and is_call(rets[0][2][0], 'AffFuncBase::slice') and rets[0][2][0][2][0] == ('param', 'reference_point')
        (ctx.ok if ok else ctx.bad)('C17.R4', 'AffTree::from_slice', 'from_aff(slice(reference_point))' if ok else 'from_slice is not the slice function of its argument', b.span)


def chains(ctx, F):
    # label discipline of the chain builders
    specs = {
        'AffTree::from_poly': dict(outside=lambda e: e[0] == 'param' or (e[0] == 'vfield') or 'func_false' in fmt(e) or 'aff_false' in fmt(e), inside=lambda e: e == ('param', 'func_true')),
        'class_characterization': dict(outside=lambda e: is_call(e, 'AffFuncBase::constant') and e[2][1] == ('const', 0.0), inside=lambda e: is_call(e, 'AffFuncBase::constant') and e[2][1] == ('const', 1.0)),
        'inf_norm': dict(outside=lambda e: is_call(e, 'AffFuncBase::constant') and e[2][1] == ('const', 0.0), inside=lambda e: is_call(e, 'AffFuncBase::constant') and e[2][1] == ('const', 1.0)),
    }
    for q, spec in specs.items():
        b = ctx.body('C17.R3', q)
        if b is None:
            continue
        R = Resolver(b)
        cfg = b.cfg()
        adds = [(bb, R.call_args(bb), t) for bb, t in b.calls_to('AffTree::add_child_node')]
        problems = []
        n0 = n1 = 0
        final_inside = 0
        for bb, a, t in adds:
            label, val = a[2], a[3]
            # the node a branch is attached to is a node of the chain (the root or what an earlier attach returned), never an argument of the
            # generator used as an index
            def _direct(e_):
                while isinstance(e_, tuple) and len(e_) >= 2 and e_[0] == 'cast':
                    e_ = e_[1]
                if not isinstance(e_, tuple) or not e_:
                    return False
                if e_[0] == 'phi':
                    alts_ = [y for y in e_[1:] if isinstance(y, tuple) and y and isinstance(y[0], tuple)]
                    return any(_direct(y) for a_ in alts_ for y in a_) or any(_direct(y) for y in e_[1:] if isinstance(y, tuple) and y and isinstance(y[0], str))
                return len(e_) == 2 and e_[0] == 'param' and e_[1] != 'self'
            if _direct(s(a[1])):
                problems.append('a branch is attached to the node whose index is the argument %s' % fmt(a[1])[:40])
            if label == ('const', 0):
                n0 += 1
                if not spec['outside'](val):
                    problems.append('label 0 does not carry the outside value: %s' % fmt(val)[:80])
            elif label == ('const', 1):
                n1 += 1
                if spec['inside'](val):
                    final_inside += 1
                    # must be the last node: not in a loop
                    if any(bb in cfg.loop_of(h) for h in cfg.loop_headers()):
                        problems.append('the inside value is attached inside the chain loop')
                else:
                    # chain continues: the result becomes the parent of later adds
                    if not any(isinstance(x, tuple) and x[:1] in (('var',), ('phi',)) or is_call(x, 'AffTree::add_child_node') or is_call(x, 'Tree::get_root_idx') for x in walk(a[1])):
                        problems.append('chain link not attached to the running chain node')
            else:
                problems.append('non-binary label %s' % fmt(label))
        # every row contributes a link: a chain link inside a loop is attached on every iteration path
        for bb, a, t in adds:
            if a[2] == ('const', 1) and not spec['inside'](a[3]):
                for h in cfg.loop_headers():
                    if isinstance(h, int) and bb in cfg.loop_of(h):
                        some = None
                        for sb, bl in b.live_blocks():
                            if bl['term']['k'] == 'switch' and sb in cfg.loop_of(h):
                                d = R.switch_discr(sb)
                                if d and d[0] == 'discr' and is_call(d[1], 'Iterator::next'):
                                    for e in cfg.edge_nodes(sb):
                                        if cfg.edge_label[e] == ('sw', (1,)):
                                            some = e
                        if some is not None and cfg.reaches(some, h, avoid=[bb]):
                            problems.append('a constraint can be skipped: an iteration of the chain loop reaches the next one without attaching its decision')
        if q == 'inf_norm':
            maps = [(bb, R.call_args(bb)) for bb, t in b.calls_to('Option::map')]
            want = {'minimum': ('neg',), 'maximum': ('pos',)}
            seen = {}
            for bb, a in maps:
                if a[0][0] == 'param' and a[0][1] in want and a[1][0] == 'closure':
                    cb, rets = prune.closure_ret(F, a[1])
                    r = rets[0] if rets else None
                    if r and is_call(r, 'AffFuncBase::from_mats'):
                        m, bi = r[2]
                        neg_m = is_call(m, 'Neg::neg') and is_call(m[2][0], 'ArrayBase::eye')
                        pos_m = is_call(m, 'ArrayBase::eye')
                        neg_b = is_call(bi, 'Neg::neg') and is_call(bi[2][0], 'ArrayBase::from_elem') and bi[2][0][2][1][0] == 'param'
                        pos_b = is_call(bi, 'ArrayBase::from_elem') and bi[2][1][0] == 'param'
                        seen[a[0][1]] = 'neg' if (neg_m and neg_b) else ('pos' if (pos_m and pos_b) else 'other')
                else:
                    problems.append('a bound is derived from something else than the corresponding parameter: %s' % fmt(a[0])[:60])
            if seen != {'minimum': 'neg', 'maximum': 'pos'}:
                problems.append('bounds are not {minimum: -x_i <= -min for all i, maximum: x_i <= max for all i} taken from their own parameters: %s' % seen)
        if final_inside != 1:
            problems.append('the chain does not end in exactly one inside terminal on label 1 (found %d)' % final_inside)
        if q == 'class_characterization':
            # decisions: x_idx - x_clazz <= 0 for idx != clazz
            subs = [x for bb, a, t in adds for x in walk(a[3]) if is_call(x, 'AffFuncBase::subtraction')]
            roots = [x for bb, t in b.calls_to('AffTree::from_aff') for x in walk(R.call_args(bb)[0]) if is_call(x, 'AffFuncBase::subtraction')]
            for x in subs + roots:
                if x[2][2] != ('param', 'clazz') or not any(is_call(y, 'Iterator::next') for y in walk(x[2][1])):
                    problems.append('decision is not x_idx - x_clazz <= 0 for an index drawn from the filtered range: %s' % fmt(x)[:80])
            flt = [x for bb, t in b.calls() for x in [R.call_args(bb)] if Callee(t['func']).name == 'filter']
            okf = False
            for cb in b.closure_bodies():
                for _, e in Resolver(cb).return_expr():
                    if e[0] == 'bin' and e[1] == 'Ne' and ('upvar', 'clazz') in (e[2], e[3]):
                        okf = True
            if not okf:
                problems.append('indices are not filtered by != clazz')
            # every other component is compared: the indices are ALL of 0..dim except clazz (no skip / take / shifted start)
            RANGE = ('agg', ('adt', 'Range', 'Range', ('start', 'end')), (('const', 0), ('param', 'dim')))
            for x in subs + roots:
                its = [y[2][0] for y in walk(x[2][1]) if is_call(y, 'Iterator::next')]
                if not its:
                    continue
                I = s(its[0])
                if not (is_call(I, 'Iterator::filter') and len(I[2]) == 2 and s(I[2][0]) == RANGE and I[2][1][0] == 'closure'):
                    problems.append('the compared indices are not the whole range 0..dim filtered by != clazz: %s' % fmt(I)[:90])
        if problems:
            for p in problems:
                ctx.bad('C17.R3', q + '#labels', p, b.span)
        else:
            ctx.ok('C17.R3', q + '#labels', '%d outside terminals on label 0, chain continues on label 1 and ends in the inside terminal' % n0, b.span)


def argmax(ctx, F):
    b = ctx.body('C17.R3', 'argmax')
    if b is None:
        return
    R = Resolver(b)
    site = 'argmax#invariant'
    problems = []
    root = [R.call_args(bb)[0] for bb, t in b.calls_to('AffTree::from_aff')]
    pushes = [(bb, R.call_args(bb)) for bb, t in b.calls_to('Vec::push')]
    pops = [(bb, R.call_args(bb)) for bb, t in b.calls_to('Vec::pop')]
    adds = [(bb, R.call_args(bb), literals(b, R, bb)) for bb, t in b.calls_to('AffTree::add_child_node')]
    if len(root) != 1 or len(pops) != 1:
        ctx.undecided('C17.R3', site, 'unexpected shape of argmax', b.span)
        return
    popped = ('call', 'Vec::pop', tuple(pops[0][1]), pops[0][0])
    node, a_, c_ = ('field', popped, '0'), ('field', popped, '1'), ('field', popped, '2')
    # initial work items: pushes that do not depend on a popped entry, or the elements of a `vec![..]` the stack starts from
    init = [p[1][1] for p in pushes if not any(is_call(x, 'Vec::pop') for x in walk(p[1][1]))] + prune.vec_literal_elements(b, R, pops[0][1][0])
    r = root[0]
    if not (is_call(r, 'AffFuncBase::subtraction') and len(init) == 1 and init[0] == ('agg', 'tuple', (('const', 0), r[2][1], r[2][2])) and r[2][1] == ('const', 1) and r[2][2] == ('const', 0)):
        problems.append('root predicate / initial work item are not (x_1 - x_0 <= 0, candidate 1, current maximum 0)')
    nxt = ('field', ('bin', 'AddWithOverflow', a_, ('const', 1)), '0')
    dec = [(bb, a, l) for bb, a, l in adds if is_call(a[3], 'AffFuncBase::subtraction')]
    ter = [(bb, a, l) for bb, a, l in adds if is_call(a[3], 'AffFuncBase::constant')]
    want_c = {0: a_, 1: c_}
    for bb, a, l in dec:
        lab = a[2][1] if a[2][0] == 'const' else None
        if lab not in (0, 1) or s(a[1]) != s(node):
            problems.append('decision child not attached to the popped node with a binary label')
            continue
        sub = a[3]
        if not (s(sub[2][1]) == s(nxt) and s(sub[2][2]) == s(want_c[lab])):
            problems.append('child on label %d compares %s with %s; the invariant needs (candidate+1) vs %s' % (lab, fmt(sub[2][1])[:40], fmt(sub[2][2])[:40], 'the candidate (new maximum)' if lab == 0 else 'the current maximum'))
        # pushed work item consistent with the child's predicate
        mine = [p for p in pushes if any(is_call(x, 'AffTree::add_child_node') and x[3] == bb for x in walk(p[1][1]))]
        if len(mine) != 1 or not (mine[0][1][1][0] == 'agg' and s(mine[0][1][1][2][1]) == s(sub[2][1]) and s(mine[0][1][1][2][2]) == s(sub[2][2])):
            problems.append('work item of the label-%d child does not record its own (candidate, maximum) pair' % lab)
        if not prune.holds_cmp(l, 'Lt', a_):
            problems.append('decision children are not guarded by candidate < dim-1')
    for bb, a, l in ter:
        lab = a[2][1] if a[2][0] == 'const' else None
        v = a[3][2][1]
        inner = v[1] if v[0] == 'cast' else v
        if lab not in (0, 1) or s(inner) != s(want_c[lab]) or s(a[1]) != s(node):
            problems.append('terminal on label %s returns %s; expected the %s' % (lab, fmt(inner)[:40], 'candidate index' if lab == 0 else 'current maximum index'))
    if len(dec) != 2 or len(ter) != 2:
        problems.append('expected two decision children and two terminals (found %d, %d)' % (len(dec), len(ter)))
    if problems:
        for p in problems:
            ctx.bad('C17.R3', site, p, b.span)
    else:
        ctx.ok('C17.R3', site, 'node (a, c) tests x_a - x_c <= 0; label 1 keeps c (ties keep the first index), label 0 promotes a; leaves return the surviving index', b.span)

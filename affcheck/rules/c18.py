"""C18 — Architecture shape tracking and layer files (structural clauses)."""
import re
from ..mir import Callee, Resolver, fmt, literals, walk, strip_sites as s
from ..effects import assigns, mut_calls
from . import prune
from . import helpers
from .prune import is_call
from .c01 import norm, generator_out_class, EXPECT

LEVEL = 'other'
RULES = {
    'C18.R6': 'the node-count estimate that pre-sizes the tree for every architecture cannot panic: its unsigned subtractions are saturating / checked or guarded',
    'C18.R5': helpers.RULE_TEXT,
    'C18.R1': 'check dominates push: every builder queues its layer only after compatible_dim(indim) / valid_index(idx) on its own argument succeeded; the two tests mean == in_dim / < in_dim (in_dim possibly read through max_dim())',
    'C18.R2': 'tracked shape = output dimension: a builder whose layer changes the dimension assigns current_shape before recording it (post-operator shape)',
    'C18.R4': 'extract_range copies (layer, shape) pairs of the selected range, input shape from the operator before it, current shape from the last pair',
    'C18.R3': 'variant/name agreement of builders; read_layers: marker -> variant, one entry per neuron of the preceding linear layer, weights and bias files of one index',
}
CONTROL_REV = '078b142'  # thorough tier: the rules must still report the defects found (and since fixed) on the original tree
CONTROLS = [('C18.R2', 'Architecture::argmax#shape')]
FLOORS = {'C18.R6': 1, 'C18.R5': 5, 'C18.R1': 8, 'C18.R2': 13, 'C18.R3': 15, 'C18.R4': 1}
EXPLANATION = 'Guard and table rules over the Architecture builders and the npz reader.'
DOES_NOT_DECIDE = ('the split-composition clause of extract_range (value-level), ordering of names for non-zero-padded indices (not settled by the dialect\'s '
                   'documentation), minimum dimension for argmax')
# builder -> variant
VARIANT_OF = {'linear': 'Linear', 'partial_relu': 'ReLU', 'partial_leaky_relu': 'LeakyReLU', 'partial_hard_tanh': 'HardTanh', 'partial_hard_sigmoid': 'HardSigmoid', 'argmax': 'Argmax'}
LAYERWISE = {'relu': 'partial_relu', 'leaky_relu': 'partial_leaky_relu', 'hard_tanh': 'partial_hard_tanh', 'hard_sigmoid': 'partial_hard_sigmoid'}


def run(ctx):
    helpers.run_for(ctx)
    prune.check_loop_exhaustive(ctx, 'C18.R3', 'read_layers', '#whole-file', 'entries after that point are not read')
    prune.check_no_unsigned_underflow(ctx, 'C18.R6', '<SimpleNodeEstimator as NodeEstimator>::estimate_nodes')
    F = ctx.facts
    SELF = ('param', 'self')
    SHAPE = ('field', SELF, 'current_shape')
    builders = [b for b in F.units() if b.self_base == 'Architecture' and b.kind != 'Closure' and not b.impl_trait and b.arg_count >= 1 and b.local_ty(1).startswith('&mut')]
    pushers = {}
    for b in builders:
        R = Resolver(b)
        for w in mut_calls(b, R):
            if w.callee.name == 'push' and w.args[0] == ('field', SELF, 'operators'):
                pushers.setdefault(b.name, []).append((b, R, w))
    if not pushers:
        ctx.lost('C18.R1', 'builder methods pushing to Architecture.operators')
    for name, lst in sorted(pushers.items()):
        for (b, R, w) in lst:
            site = 'Architecture::%s' % name
            val = w.args[1]
            if not (val[0] == 'agg' and val[1] == 'tuple' and val[2][0][0] == 'agg' and isinstance(val[2][0][1], tuple) and val[2][0][1][1] == 'Layer'):
                ctx.undecided('C18.R1', site, 'queued value is not (Layer::V(..), shape)', w.span)
                continue
            variant = val[2][0][1][2]
            payload = val[2][0][2]
            shape = val[2][1]
            lits = literals(b, R, w.bb)
            # R3 name agreement
            if norm(variant) in norm(name) or VARIANT_OF.get(name) == variant:
                ctx.ok('C18.R3', site + '#variant', 'queues Layer::%s' % variant, w.span)
            else:
                ctx.bad('C18.R3', site + '#variant', 'builder %s queues Layer::%s' % (name, variant), w.span)
            # R1 check dominates push
            chk = [l for l in lits if l[0] == 'is' and l[2] == frozenset(['Continue']) and is_call(l[1], 'Try::branch')]
            okc = None
            for l in chk:
                c = l[1][2][0]
                if is_call(c, 'TensorShape::compatible_dim') and c[2][0] == SHAPE and is_call(c[2][1], 'AffFuncBase::indim') and payload and c[2][1][2][0] == payload[0]:
                    okc = 'compatible_dim(indim(own argument))'
                if is_call(c, 'TensorShape::valid_index') and c[2][0] == SHAPE and payload and c[2][1] == payload[0] and payload[0][0] == 'param':
                    okc = 'valid_index(own index argument)'
            if variant == 'Argmax':
                okc = 'no argument to check (acts on the whole vector)'
            if okc:
                ctx.ok('C18.R1', site + '#check', 'push dominated by the Ok outcome of ' + okc, w.span)
            else:
                ctx.bad('C18.R1', site + '#check', 'the layer is queued without a successful shape check on the builder\'s own argument', w.span)
            # R2 shape tracking
            ws = [a for a in assigns(b, R) if a.target == SHAPE]
            cfg = b.cfg()
            changes = variant == 'Linear' or (variant in EXPECT and generator_out_class(F, EXPECT[variant][0]) == '1')
            if shape != SHAPE:
                ctx.bad('C18.R2', site + '#shape', 'the recorded shape is not the tracked current_shape', w.span)
            elif changes:
                want = None
                if variant == 'Linear':
                    okw = len(ws) == 1 and ws[0].value[0] == 'agg' and ws[0].value[1][2] == 'Flat' and is_call(ws[0].value[2][0], 'AffFuncBase::outdim') and ws[0].value[2][0][2][0] == payload[0]
                    want = 'Flat{outdim(aff)}'
                else:
                    okw = len(ws) == 1 and ws[0].value == ('agg', ('adt', 'TensorShape', 'Flat', ('in_dim',)), (('const', 1),))
                    want = 'Flat{1}'
                before = okw and (ws[0].bb == w.bb and (ws[0].idx != 'term') or cfg.dominates(ws[0].bb, w.bb))
                if okw and before:
                    ctx.ok('C18.R2', site + '#shape', 'current_shape := %s before the layer is recorded (post-operator shape)' % want, w.span)
                else:
                    ctx.bad('C18.R2', site + '#shape', 'Layer::%s changes the dimension but current_shape is not set to %s before recording: the tracked shape no longer equals the network\'s output dimension' % (variant, want), w.span)
            else:
                (ctx.ok if not ws else ctx.bad)('C18.R2', site + '#shape', 'dimension-preserving layer, shape untouched' if not ws else 'shape reassigned by a dimension-preserving layer', w.span)
    # layer-wise wrappers call the per-neuron builder for 0..max_dim
    for name, inner in LAYERWISE.items():
        b = ctx.body('C18.R3', 'Architecture::' + name)
        if b is None:
            continue
        R = Resolver(b)
        calls_ = [(bb, R.call_args(bb)) for bb, t in b.calls_to('Architecture::' + inner)]
        ok = len(calls_) == 1 and is_call(calls_[0][1][1], 'Iterator::next') and calls_[0][1][1][2][0][0] == 'agg' and calls_[0][1][1][2][0][2][0] == ('const', 0) \
            and is_call(calls_[0][1][1][2][0][2][1], 'TensorShape::max_dim') and calls_[0][1][1][2][0][2][1][2][0] == SHAPE
        (ctx.ok if ok else ctx.bad)('C18.R3', 'Architecture::%s#per-neuron' % name, '%s(idx) for idx in 0..max_dim(current_shape)' % inner if ok else
                                    '%s does not queue %s for every neuron of the current shape' % (name, inner), b.span)
    # the shape predicates
    for q, op, what in (('TensorShape::compatible_dim', 'Eq', 'in_dim == dim'), ('TensorShape::valid_index', 'Lt', 'idx < in_dim')):
        b = ctx.body('C18.R1', q)
        if b is None:
            continue
        R = Resolver(b)
        ok = False
        from ..mir import value_table
        oks = [(v, lits) for v, lits, _bb in value_table(b, R, 0) if v[0] == 'agg' and isinstance(v[1], tuple) and v[1][2] == 'Ok']
        errs = [(v, lits) for v, lits, _bb in value_table(b, R, 0) if v[0] == 'agg' and isinstance(v[1], tuple) and v[1][2] == 'Err']
        def tested(lits, op_):
            # max_dim(self) is the one dimension of the flat shape (its body is an instance of its own below)
            flat = lambda e: '(self as Flat).in_dim' if fmt(s(e)) == 'TensorShape::max_dim(self)' else fmt(e)
            for o, a, c in prune.cmp_facts(lits):
                a, c = ('raw', flat(a)), ('raw', flat(c))
                if o == op_ == 'Eq' and {a[1], c[1]} == {'(self as Flat).in_dim', 'dim'}:
                    return True
                if o == op_ == 'Ne' and {a[1], c[1]} == {'(self as Flat).in_dim', 'dim'}:
                    return True
                if o == op_ == 'Lt' and a[1] == 'idx' and c[1] == '(self as Flat).in_dim':
                    return True
                if o == op_ == 'Ge' and a[1] == 'idx' and c[1] == '(self as Flat).in_dim':
                    return True
            return False
        neg = {'Eq': 'Ne', 'Lt': 'Ge'}[op]
        # Ok exactly under the test, Err exactly under its negation
        ok = bool(oks) and all(tested(l, op) for _, l in oks) and bool(errs) and all(tested(l, neg) for _, l in errs)
        (ctx.ok if ok else ctx.bad)('C18.R1', q, 'Ok iff ' + what if ok else '%s does not test %s' % (q, what), b.span)
    prune.check_wrappers(ctx, 'C18.R1', {'TensorShape::max_dim': ('(self as Flat).in_dim', [], 'the dimension of the flat shape')})
    read_layers(ctx, F)
    extract_range(ctx, F)
    # every accepted architecture distills without a dimension panic: the distiller's running dimension follows the same table as the
    # tracked shape (rule instances shared with C01.R2)
    from ..core import Ctx
    from . import c01
    sub = Ctx(ctx.facts, ctx.tier, ctx.prop)
    c01.run(sub)
    for i in sub.insts:
        if i.rule == 'C01.R2':
            i.rule = 'C18.R2'
            ctx.insts.append(i)


def extract_range(ctx, F):
    """extract_range copies (layer, shape) pairs of self.operators[start..end] unchanged, takes the input shape from the operator before
    `start` (or the architecture's input shape) and the current shape from the last pair copied."""
    b = ctx.body('C18.R4', 'Architecture::extract_range')
    if b is None:
        return
    R = Resolver(b)
    problems = []
    ws = [w for w in assigns(b, R) if w.target[0] == 'field' and w.target[2] == 'current_shape' and is_call(w.target[1], 'Architecture::new')]
    pushes = [w for w in mut_calls(b, R) if w.callee.name in ('push', 'extend') and w.args[0][0] == 'field' and w.args[0][2] == 'operators' and is_call(w.args[0][1], 'Architecture::new')]
    if len(pushes) != 1 or pushes[0].callee.name != 'push':
        problems.append('the copied operators are not pushed one by one from the selected range')
    else:
        v = pushes[0].args[1]
        item = [x for x in walk(v) if is_call(x, 'Iterator::next') and is_call(x[2][0], 'Iterator::take')]
        OPS = ('field', ('param', 'self'), 'operators')
        RNG = ('agg', ('adt', 'Range', 'Range', ('start', 'end')), (('param', 'start'), ('param', 'end')))
        sl_item = [x for x in walk(v) if is_call(x, 'Iterator::next') and is_call(x[2][0], 'Index::index') and x[2][0][2][0] == OPS and s(x[2][0][2][1]) == RNG]
        if sl_item and ((v[0] == 'agg' and v[1] == 'tuple' and v[2][0] == ('field', sl_item[0], '0') and v[2][1] == ('field', sl_item[0], '1')) or s(v) == s(sl_item[0])):
            # the sub-slice self.operators[start..end], swept in order (pair by pair, or each pair cloned as a whole)
            it = sl_item[0]
            last_of_slice = ('field', ('call', '[T]::last', (s(it[2][0]),)), '1')
            if not (len(ws) == 1 and (s(ws[0].value) == s(('field', it, '1')) or s(ws[0].value) == last_of_slice)):
                problems.append('current_shape of the extracted architecture is not the shape recorded with the last copied layer')
        elif not (v[0] == 'agg' and v[1] == 'tuple' and item and v[2][0] == ('field', item[0], '0') and v[2][1] == ('field', item[0], '1')):
            problems.append('a copied entry is not the (layer, shape) pair of the source entry')
        else:
            it = item[0]
            take = it[2][0]
            n = take[2][1]
            n = n[1] if (n[0] == 'field' and n[2] == '0') else n
            if not (n[0] == 'bin' and n[1].startswith('Sub') and n[2] == ('param', 'end') and n[3] == ('param', 'start')):
                problems.append('the number of copied entries is not end - start')
            skips = [x for x in walk(take[2][0]) if is_call(x, 'Iterator::skip', 'Iterator::skip_while', 'Iterator::step_by', 'Iterator::filter')]
            def skip_count_ok(x):
                c_ = x[2][1]
                c_ = c_[1] if (c_[0] == 'field' and c_[2] == '0') else c_
                return c_ == ('const', 0) or c_ == ('param', 'start') or (is_call(c_, 'usize::checked_sub', 'usize::saturating_sub') and c_[2] == (('param', 'start'), ('const', 1))) or \
                    (c_[0] == 'bin' and c_[1].startswith('Sub') and c_[2] == ('param', 'start') and c_[3] == ('const', 1))
            # every skip starts at the queue itself (no skip stacked on another adaptor) and skips 0, start - 1 (then the entry before `start` is
            # read with next()) or start entries
            skipped_ok = bool(skips) and all(is_call(x, 'Iterator::skip') and x[2][0] == ('field', ('param', 'self'), 'operators') and skip_count_ok(x) for x in skips)
            if not skipped_ok:
                # one iterator over self.operators, advanced past the prefix by `nth(start - 1)` (which also hands out the entry before
                # `start`) when start > 0, and then taken from: the `take` must consume that same iterator object
                nths = [(bb, t) for bb, t in b.calls() if Callee(t['func']).name == 'nth' and Callee(t['func']).trait == 'Iterator']
                takes = [(bb, t) for bb, t in b.calls() if Callee(t['func']).name == 'take' and Callee(t['func']).trait == 'Iterator']
                if len(nths) == 1 and len(takes) == 1 and s(R.call_args(nths[0][0])[0]) == s(OPS) and s(take[2][0]) == s(OPS):
                    def base_local(op, depth=0):
                        if op['k'] not in ('move', 'copy') or op['place']['proj'] or depth > 5:
                            return None
                        l = op['place']['local']
                        defs = b.defs().get(l, [])
                        if len(defs) == 1 and defs[0][1] != 'term':
                            rv = b.blocks[defs[0][0]]['stmts'][defs[0][1]]['rv']
                            if rv['k'] == 'ref' and not rv['place']['proj']:
                                return rv['place']['local']
                            if rv['k'] == 'use' and rv['op']['k'] in ('move', 'copy'):
                                return base_local(rv['op'], depth + 1)
                        return l
                    same_obj = base_local(nths[0][1]['args'][0]) is not None and base_local(nths[0][1]['args'][0]) == base_local(takes[0][1]['args'][0])
                    n_arg = R.call_args(nths[0][0])[1]
                    n_arg = n_arg[1] if (n_arg[0] == 'field' and n_arg[2] == '0') else n_arg
                    nth_ok = (is_call(n_arg, 'usize::checked_sub') and n_arg[2] == (('param', 'start'), ('const', 1))) or \
                        (n_arg[0] == 'bin' and n_arg[1].startswith('Sub') and n_arg[2] == ('param', 'start') and n_arg[3] == ('const', 1))
                    skipped_ok = same_obj and nth_ok
            if not skipped_ok:
                problems.append('entries are not taken from self.operators after skipping the prefix')
            if not (len(ws) == 1 and s(ws[0].value) == s(('field', it, '1')) and ws[0].bb == pushes[0].bb or (len(ws) == 1 and s(ws[0].value) == s(('field', it, '1')))):
                problems.append('current_shape of the extracted architecture is not the shape recorded with the last copied layer')
    # input shape: self.input_shape for start == 0, else shape of operators[start-1]
    news = [R.call_args(bb)[0] for bb, t in b.calls_to('Architecture::new')]
    ok_in = False
    if len(news) == 1:
        e = news[0]
        alts = []
        if e[0] == 'field' and e[2] == '1' and e[1][0] == 'phi':
            for a in e[1][2]:
                if a[0] == 'agg' and a[1] == 'tuple':
                    alts.append(a[2][1])
        elif e[0] == 'phi':
            alts = list(e[2])
        has_self = any(a == ('field', ('param', 'self'), 'input_shape') for a in alts)
        has_prev = False
        for a in alts:
            def start_minus_1(k):
                k = k[1] if (k[0] == 'field' and k[2] == '0') else k
                if is_call(k, 'usize::checked_sub') and k[2][0] == ('param', 'start') and k[2][1] == ('const', 1):
                    return True   # the Some payload of start.checked_sub(1)
                return k[0] == 'bin' and k[1].startswith('Sub') and k[2] == ('param', 'start') and k[3] == ('const', 1)
            # the entry before `start`, looked up directly: operators.get(start - 1) / operators[start - 1]
            if a[0] == 'field' and a[2] == '1' and any(is_call(x, '[T]::get', 'Vec::get', 'Index::index') and x[2][0] == ('field', ('param', 'self'), 'operators') and start_minus_1(x[2][1]) for x in walk(a)):
                has_prev = True
            elif a[0] == 'field' and a[2] == '1' and any(is_call(x, 'Iterator::skip') for x in walk(a)):
                sk = [x for x in walk(a) if is_call(x, 'Iterator::skip')][0]
                has_prev = start_minus_1(sk[2][1])
            elif a[0] == 'field' and a[2] == '1' and is_call(a[1], 'Iterator::nth') and a[1][2][0] == ('field', ('param', 'self'), 'operators'):
                has_prev = start_minus_1(a[1][2][1])
        ok_in = has_self and has_prev
    if not ok_in:
        problems.append('input shape is not {self.input_shape if start == 0, else the shape recorded with operator start-1}')
    # `start - 1` (the entry before the range) is only computed for start > 0: with start == 0 the input shape is the architecture's own
    for bb_, j_, st_ in b.stmts():
        rv_ = st_.get('rv') or {}
        if st_['k'] == 'assign' and rv_.get('k') == 'binop' and rv_['op'] in ('Sub', 'SubWithOverflow'):
            l_, r_ = s(R.operand(rv_['l'], bb_, j_)), s(R.operand(rv_['r'], bb_, j_))
            if l_ == ('param', 'start') and r_ == ('const', 1):
                fs_ = [(op, s(x), s(y)) for op, x, y in prune.cmp_facts(literals(b, R, bb_))]
                if not any((op in ('Ne', 'Gt') and x == ('param', 'start') and y == ('const', 0)) or (op == 'Ge' and x == ('param', 'start') and y == ('const', 1)) or
                           (op == 'Lt' and x == ('const', 0) and y == ('param', 'start')) for op, x, y in fs_):
                    problems.append('start - 1 is computed without knowing start > 0 (start == 0 must take the architecture\'s own input shape)')
    # which ranges are accepted: exactly the non-empty ones inside the queue, `start < end <= len` -- the range up to the last layer included
    # (every split point k gives extract_range(0, k) and extract_range(k, n))
    START, END, LEN = ('param', 'start'), ('param', 'end'), ('call', 'Vec::len', (('field', ('param', 'self'), 'operators'),))
    if pushes:
        lits_ = literals(b, R, pushes[0].bb)
        facts_ = [(op, s(x), s(y)) for op, x, y in prune.cmp_facts(lits_)]

        def holds(op, x, y):
            swap = {'Lt': 'Gt', 'Gt': 'Lt', 'Le': 'Ge', 'Ge': 'Le'}
            return (op, x, y) in facts_ or (swap[op], y, x) in facts_
        strict_end = holds('Lt', END, LEN)
        if not (holds('Lt', START, END) and holds('Le', END, LEN)) or strict_end:
            problems.append('the accepted ranges are not exactly start < end <= number of queued layers%s' % (' (end == len is refused: the last layer can never be extracted)' if strict_end else ''))
    if problems:
        for p_ in problems:
            ctx.bad('C18.R4', 'Architecture::extract_range', p_, b.span)
    else:
        ctx.ok('C18.R4', 'Architecture::extract_range', 'copies (layer, shape) of operators[start..end]; input shape from operator start-1 (or the input); current shape = last copied shape', b.span)


def read_layers(ctx, F):
    b = ctx.body('C18.R3', 'read_layers')
    if b is None:
        return
    R = Resolver(b)
    table = {'relu': 'ReLU', 'hard_tanh': 'HardTanh', 'hard_sigmoid': 'HardSigmoid', 'linear.weights': 'Linear'}
    seen = {}
    for bb, t in b.calls_to('Vec::push'):
        a = R.call_args(bb)
        v = a[1]
        if not (v[0] == 'agg' and isinstance(v[1], tuple) and v[1][1] == 'Layer'):
            continue
        variant = v[1][2]
        lits = literals(b, R, bb)
        marker = None
        for l in lits:
            if l[0] == 'true' and is_call(l[1], 'PartialEq::eq') and l[1][2][1][0] == 'const' and isinstance(l[1][2][1][1], str):
                marker = l[1][2][1][1].strip('"')
        seen[marker] = (variant, v, bb, t)
    # the name pattern must admit every marker the table below knows (reader's regex vs reader's table)
    import re as _re
    pats = []
    for bb, t in b.calls():
        c = Callee(t['func'])
        if c.self_base == 'Regex' and c.name == 'new':
            a = R.call_args(bb)[0]
            if a[0] == 'const' and isinstance(a[1], str):
                pats.append((a[1], t['span']))
    markers = []
    for bb, t in b.calls_to('PartialEq::eq'):
        a = R.call_args(bb)
        if a[1][0] == 'const' and isinstance(a[1][1], str):
            markers.append(a[1][1].strip('"'))
    if len(pats) != 1:
        ctx.undecided('C18.R3', 'read_layers#pattern', 'expected one name pattern', b.span)
    else:
        pat = pats[0][0]
        try:
            rx = _re.compile(pat)
            bad = []
            for m in markers:
                mm = rx.match('12.%s.npy' % m) or rx.match('12.%s' % m)
                if not mm or mm.group(2) != m:
                    bad.append(m)
            if bad:
                ctx.bad('C18.R3', 'read_layers#pattern', 'the name pattern %r does not match entries with marker(s) %s: such layers would be skipped silently' % (pat, bad), pats[0][1])
            else:
                ctx.ok('C18.R3', 'read_layers#pattern', 'the name pattern admits every marker of the table (%s) and captures it as group 2' % ', '.join(markers), pats[0][1])
        except _re.error as e:
            ctx.undecided('C18.R3', 'read_layers#pattern', 'name pattern is not translatable: %s' % e, pats[0][1])
    # index order: the entry names are sorted before the sweep (the dialect's indices are zero-padded, so name order is index order)
    cfg = b.cfg()
    srcs = [(bb, R.call_args(bb)[0]) for bb, t in b.calls_to('Iterator::next') if any(is_call(x, 'NpzReader::names') for x in walk(R.call_args(bb)[0]))]
    sorts = [(bb, R.call_args(bb)[0]) for bb, t in b.calls() if Callee(t['func']).name in ('sort', 'sort_unstable', 'sort_by', 'sort_by_key', 'sort_unstable_by', 'sort_unstable_by_key', 'sort_by_cached_key')]
    if not srcs:
        ctx.lost('C18.R3', 'sweep over NpzReader::names()')
    else:
        h_bb, seq = srcs[0]
        okorder = any(s(a) == s(seq) and cfg.dominates(sb, h_bb) and not cfg.reaches(h_bb, sb) for sb, a in sorts) or \
            any(is_call(x, 'Itertools::sorted', 'Itertools::sorted_unstable') for x in walk(seq))
        (ctx.ok if okorder else ctx.bad)('C18.R3', 'read_layers#order', 'the archive\'s entry names are sorted before they are swept: layers come out in index order' if okorder else
                                         'the entries are swept in the archive\'s own order (no sort of the names before the loop): layers can come out of index order', b.span)
    for marker, variant in table.items():
        site = 'read_layers#marker:' + marker
        if marker not in seen:
            ctx.bad('C18.R3', site, 'no layer is produced for marker "%s"' % marker, b.span)
            continue
        got, v, bb, t = seen[marker]
        if got != variant:
            ctx.bad('C18.R3', site, 'marker "%s" produces Layer::%s, expected Layer::%s' % (marker, got, variant), t['span'])
            continue
        if variant == 'Linear':
            aff = v[2][0]
            okw = False
            names = []
            if is_call(aff, 'AffFuncBase::from_mats') and all(is_call(x, 'NpzReader::by_name') for x in aff[2]):
                names = list(aff[2])
                texts = [fmt(x[2][1]) for x in names]
                okw = '.linear.weights.npy' in texts[0] and '.linear.bias.npy' in texts[1]
            # same captured index in both names
            caps = [tuple(sorted(fmt(s(y)) for y in walk(x[2][1]) if is_call(y, 'Captures::get'))) for x in names]
            same = len(caps) == 2 and caps[0] == caps[1] and caps[0]
            if okw and same:
                ctx.ok('C18.R3', site, 'Linear(from_mats(<i>.linear.weights.npy, <i>.linear.bias.npy)) with one captured index', t['span'])
            else:
                ctx.bad('C18.R3', site, 'weights and bias are not read from the files of one layer index in (weights, bias) order', t['span'])
        else:
            idx = v[2][0]
            ok = is_call(idx, 'Iterator::next') and idx[2][0][0] == 'agg' and idx[2][0][2][0] == ('const', 0)
            # upper bound is the running dim assigned from the Linear just pushed
            ub = idx[2][0][2][1] if ok else None
            # the width is the output dimension of the linear layer read last (running variable set in the linear.weights arm), or the
            # initial 0: every outdim() inside it applies to an AffFunc built from the npz entries
            outs = [x for x in walk(ub) if is_call(x, 'AffFuncBase::outdim')] if ub is not None else []
            okd = bool(outs) and all(is_call(x[2][0], 'AffFuncBase::from_mats') and any(is_call(y, 'NpzReader::by_name') for y in walk(x[2][0])) for x in outs) \
                and not any(is_call(x, '[T]::last', 'Vec::last', 'Vec::len') for x in walk(ub))
            if ok and okd:
                ctx.ok('C18.R3', site, 'one Layer::%s per neuron 0..dim of the preceding linear layer' % variant, t['span'])
            else:
                ctx.bad('C18.R3', site, 'activation marker does not expand to one entry per neuron of the preceding linear layer', t['span'])

"""Shared rules about pruning: removal sites, verdict provenance, witness guards (C03/C04/C05/C06/C11)."""
from ..mir import Callee, Resolver, fmt, literals, strip_sites as s, walk

REMOVERS = ('remove_child', 'try_remove_child', 'merge_child_with_parent', 'remove_all_descendants')


def is_call(e, *names):
    return isinstance(e, tuple) and e and e[0] == 'call' and e[1] in names


def find(e, pred):
    return [x for x in walk(e) if isinstance(x, tuple) and x and isinstance(x[0], str) and pred(x)]


def predicate_summary(F, qname):
    """For `fn(&self) -> bool` testing the discriminant of self: the variant set on which it is true."""
    b = F.q(qname)
    if b is None:
        return None
    R = Resolver(b)
    true_set = set()
    all_variants = set()
    uncond_true = False
    for i, j, st in b.stmts():
        if st['k'] == 'assign' and st['place']['local'] == 0 and not st['place']['proj']:
            v = R.rvalue(st['rv'], i, j)
            lits = [l for l in literals(b, R, i) if l[0] == 'is' and l[1] == ('param', 'self')]
            if v == ('const', True):
                if lits:
                    true_set |= set(lits[0][2])
                else:
                    uncond_true = True
            elif v == ('const', False):
                if lits:
                    all_variants |= set(lits[0][2])
            else:
                return None
    # `matches!` lowers to: listed variants -> true, otherwise -> false
    if uncond_true:
        # true on the complement of the false set
        adt = F.adt('NodeState')
        names = {v['name'] for v in adt['variants']} if adt else set()
        return names - all_variants
    return true_set


def removal_sites(F):
    """All calls to a Tree removal primitive from outside impl Tree (non-test code)."""
    out = []
    for b in F.bodies:
        if b.self_base == 'Tree' or (b.kind == 'Closure' and (F.by_path.get(b.root) is not None and F.by_path[b.root].self_base == 'Tree')):
            continue
        for bb, t in b.calls():
            c = Callee(t['func'])
            if c.self_base == 'Tree' and c.name in REMOVERS:
                out.append((b, bb, t, c))
    return out


def closure_ret(F, cexpr):
    cb = F.closure(cexpr[1])
    if cb is None:
        return None, None
    R = Resolver(cb)
    rets = [e for _, e in R.return_expr()]
    # a captured function value that is called (`|c| pred(&c.state)` with pred = NodeState::is_feasible handed down as an argument):
    # the call of the capture is the call of that function
    if cexpr[2] and any(isinstance(x, tuple) and x[:2] == ('call', 'Fn::call') or isinstance(x, tuple) and x[:2] == ('call', 'FnMut::call_mut') for r in rets for x in walk(r)):
        idx = cb.upvar_index()
        caps = cexpr[2]

        def direct(e):
            if not isinstance(e, tuple) or not e:
                return e
            if e[0] == 'closure':
                return e
            e = tuple(direct(x) for x in e)
            if e[0] == 'call' and e[1] in ('Fn::call', 'FnMut::call_mut', 'FnOnce::call_once') and len(e[2]) == 2 and e[2][0][:1] == ('upvar',):
                i = idx.get(e[2][0][1])
                f = caps[i] if i is not None and i < len(caps) else None
                if f is not None and f[0] == 'closure' and not f[2]:
                    fb = F.by_path.get(f[1])
                    args = e[2][1][2] if e[2][1][0] == 'agg' and e[2][1][1] == 'tuple' else (e[2][1],)
                    if fb is not None and fb.kind != 'Closure':
                        return ('call', fb.qname, tuple(args)) + tuple(e[3:])
            return e
        rets = [direct(r) for r in rets]
    return cb, rets


def subst(e, m):
    """replace sub-expressions by the mapping m (exact tuple match)"""
    if not isinstance(e, tuple):
        return e
    if e in m:
        return m[e]
    return tuple(subst(x, m) for x in e)


ELEMENT_WRAPPERS = ('Iterator::collect', 'Itertools::collect_vec', 'IntoIterator::into_iter', 'Vec::into_iter', 'Vec::iter', 'into_iter', 'iter', 'Iterator::by_ref')


def beta_map(F, e, depth=0):
    """An element drawn from `… map(X, |x| body) …` is body[x := element of X]: rewrite next(collect(map(X, clo))) into the closure's
    (single, capture-free) return expression over next(X), so that a projection done inside a map closure and one done at the use site
    have the same form."""
    if not isinstance(e, tuple) or depth > 6:
        return e
    if not e:
        return e
    e = tuple(beta_map(F, x, depth) for x in e) if not (e and e[0] == 'closure') else e
    if is_call(e, 'Iterator::next') and len(e[2]) >= 1:
        x = e[2][0]
        while is_call(x, *ELEMENT_WRAPPERS) and len(x[2]) == 1:
            x = x[2][0]
        if is_call(x, 'Iterator::map') and len(x[2]) == 2 and x[2][1][0] == 'closure':
            src, clo = x[2]
            cb = F.closure(clo[1])
            if cb is not None:
                rets = [r for _, r in Resolver(cb).return_expr()]
                if len(rets) == 1 and rets[0][0] != 'phi' and not any(isinstance(y, tuple) and y[:1] == ('upvar',) for y in walk(rets[0])):
                    arg = ('param', cb.arg_names()[-1])
                    body = subst(rets[0], {arg: ('call', 'Iterator::next', (src,) + tuple(e[2][1:]))})
                    return beta_map(F, body, depth + 1)
    return e


def apply_closure(F, clo, arg):
    """closure literal applied to one argument: its single return expression with the parameter and the captured variables substituted; None if not possible"""
    cb = F.closure(clo[1])
    if cb is None:
        return None
    rets = [r for _, r in Resolver(cb).return_expr()]
    if len(rets) != 1 or rets[0][0] == 'phi':
        return None
    m = {('param', cb.arg_names()[-1]): arg}
    idx = cb.upvar_index()
    for x in walk(rets[0]):
        if isinstance(x, tuple) and x[:1] == ('upvar',):
            i = idx.get(x[1])
            if i is None or i >= len(clo[2]):
                return None
            m[x] = clo[2][i]
    return subst(rets[0], m)


def closure_true_facts(F, clo):
    """Guard literals that hold whenever the closure literal `clo` returns true (for `any(|x| a && b)`: both a and b), with captured variables
    replaced by the captured expressions; the closure's own parameter stays ('param', name).  None if the closure has more than one way to return true."""
    from ..mir import value_table
    cb = F.closure(clo[1])
    if cb is None:
        return None
    R = Resolver(cb)
    alts = []
    tab = value_table(cb, R, 0)
    if not tab:
        return None
    for v, lits, bb in tab:
        if v == ('const', False):
            continue
        if v[0] in ('phi', 'local'):
            continue
        facts = [tuple(l[:3]) if l[0] == 'is' else tuple(l[:2]) for l in lits]
        if v != ('const', True):
            facts.append(('true', v))
        alts.append(facts)
    if len(alts) != 1:
        return None
    idx = cb.upvar_index()
    m = {}
    for f in alts[0]:
        for x in walk(f[1]):
            if isinstance(x, tuple) and x[:1] == ('upvar',):
                i = idx.get(x[1])
                if i is not None and i < len(clo[2]):
                    m[x] = clo[2][i]
    return [(f[0], subst(f[1], m)) + tuple(f[2:]) for f in alts[0]]


def beta_option_map(F, e, depth=0):
    """Option::map(x, |v| body) / Result::map(x, |v| body)  ->  body[v := payload of x] (the resolver already identifies x with its payload)"""
    if not isinstance(e, tuple) or not e or depth > 6:
        return e
    if e[0] == 'closure':
        return e
    e = tuple(beta_option_map(F, x, depth) for x in e)
    if is_call(e, 'Option::map', 'Result::map') and len(e[2]) == 2 and e[2][1][0] == 'closure':
        r = apply_closure(F, e[2][1], e[2][0])
        if r is not None:
            return beta_option_map(F, r, depth + 1)
    return e


def vec_elements(F, b, R, v):
    """Element expressions of a vector value v, each written over `Iterator::next(source)` items:
       * collect(map(src, closure))  -> [closure body applied to next(src)]
       * collect(src)                -> [next(src)]
       * a local Vec (new / with_capacity) -> the values pushed into that object anywhere in b
    None if v is neither."""
    x = v
    while is_call(x, 'Iterator::collect', 'Itertools::collect_vec', 'Vec::as_slice') and len(x[2]) == 1:
        x = x[2][0]
    if is_call(x, 'Iterator::map') and len(x[2]) == 2 and x[2][1][0] == 'closure':
        r = apply_closure(F, x[2][1], ('call', 'Iterator::next', (x[2][0],)))
        return None if r is None else [r]
    if is_call(x, 'Vec::new', 'Vec::with_capacity'):
        out = []
        for bb, t in b.calls():
            c = Callee(t['func'])
            if c.name == 'push' and c.self_base == 'Vec':
                a = R.call_args(bb)
                if a[0] == x:
                    out.append(a[1])
        return out
    if x is not v:
        return [('call', 'Iterator::next', (x,))]
    return None


def holds_cmp(lits, op, left, right=None):
    """Some guard literal states `left op right` (op in Lt/Le/Gt/Ge/Eq/Ne), in any of its equivalent spellings:
    negated complement (`!(a >= b)`), swapped operands (`b > a`), or the PartialOrd/PartialEq method forms."""
    comp = {'Lt': 'Ge', 'Ge': 'Lt', 'Le': 'Gt', 'Gt': 'Le', 'Eq': 'Ne', 'Ne': 'Eq'}
    swap = {'Lt': 'Gt', 'Gt': 'Lt', 'Le': 'Ge', 'Ge': 'Le', 'Eq': 'Eq', 'Ne': 'Ne'}
    meth = {'PartialOrd::lt': 'Lt', 'PartialOrd::le': 'Le', 'PartialOrd::gt': 'Gt', 'PartialOrd::ge': 'Ge', 'PartialEq::eq': 'Eq', 'PartialEq::ne': 'Ne'}
    for l in lits:
        if l[0] not in ('true', 'false'):
            continue
        x = l[1]
        if x[0] == 'bin' and x[1] in comp:
            o, a, b_ = x[1], x[2], x[3]
        elif x[0] == 'call' and x[1] in meth and len(x[2]) == 2:
            o, a, b_ = meth[x[1]], x[2][0], x[2][1]
        else:
            continue
        if l[0] == 'false':
            o = comp[o]
        for (oo, aa, bb_) in ((o, a, b_), (swap[o], b_, a)):
            if oo == op and s(aa) == s(left) and (right is None or s(bb_) == s(right)):
                return True
    return False


def dfs_component(e):
    """(data expression, component name) if e is a component of a DfsNodeData value, written either through the tuple of `extract()`
    (`data.extract().0`) or as a field (`data.depth`); None otherwise."""
    if e[0] == 'field' and is_call(e[1], 'DfsNodeData::extract') and e[2] in ('0', '1', '2'):
        return e[1][2][0], {'0': 'depth', '1': 'index', '2': 'n_remaining'}[e[2]]
    if e[0] == 'field' and e[2] in ('depth', 'index', 'n_remaining'):
        return e[1], e[2]
    return None


def cmp_facts(lits):
    """Comparison facts implied by the guard literals, in every spelling: (op, a, b) meaning `a op b` holds (see mir.comparison_spellings)."""
    from ..mir import comparison_spellings
    out = []
    for l in lits:
        for v in [tuple(l[:2])] + comparison_spellings(tuple(l[:2])):
            if v[0] == 'true' and v[1][0] == 'bin' and v[1][1] in ('Lt', 'Le', 'Gt', 'Ge', 'Eq', 'Ne'):
                f = (v[1][1], v[1][2], v[1][3])
                if f not in out:
                    out.append(f)
    return out


def filter_chain(e):
    """If e is an element drawn from collect(… filter(src, closure) …), return (src, [closures of filters])."""
    filters = []
    src = None
    for x in walk(e):
        if is_call(x, 'Iterator::filter') and len(x[2]) == 2 and x[2][1][0] == 'closure':
            filters.append(x[2][1])
            src = x[2][0]
    return src, filters


def state_predicate_of_closure(F, cexpr):
    """closure |child| child.target_value.state.is_X()  ->  ('is_X', variant set)"""
    cb, rets = closure_ret(F, cexpr)
    if not rets or len(rets) != 1:
        return None
    r = rets[0]
    if r[0] == 'call' and r[1].startswith('NodeState::') and len(r[2]) == 1:
        a = r[2][0]
        if a[0] == 'field' and a[2] == 'state' and a[1][0] == 'field' and a[1][2] == 'target_value' and a[1][1][0] == 'param':
            return r[1], predicate_summary(F, r[1])
    return None


# ---------------------------------------------------------------------------------------
# removal sites are justified (C03.R1) and do not leave a childless decision (C04.R3 = C03.R5)

NAMED_EXCEPTIONS = {
    # qname -> reason (documented "use with caution" API; outside the pruning operations the property quantifies over)
    'AffTree::merge_child_with_parent': 'thin public wrapper of Tree::merge_child_with_parent (caution API)',
    'AffTree::replace_node': 'documented caution API: replaces a subtree by a node on purpose',
}


def check_removals(ctx, rule, childless_rule=None):
    F = ctx.facts
    sites = removal_sites(F)
    for (b, bb, t, c) in sites:
        R = Resolver(b)
        args = R.call_args(bb)
        lits = literals(b, R, bb)
        site = '%s#call:Tree::%s' % (b.qname, c.name)
        span = t['span']
        if b.qname in NAMED_EXCEPTIONS:
            ctx.ok(rule, site, 'named exception: ' + NAMED_EXCEPTIONS[b.qname], span)
            continue
        if len(args) < 3:
            ctx.undecided(rule, site, 'removal primitive with unexpected arity', span)
            continue
        tree, p, l = args[0], args[1], args[2]
        verdict = None
        # ---- J2: explore() said no for the child just inserted at (p, l)
        for lit in lits:
            if lit[0] == 'false' and is_call(lit[1], 'CompositionSchema::explore'):
                ea = lit[1][2]
                child = ea[2]
                if is_call(child, 'Tree::add_child_node') and s(child[2][1]) == s(p) and s(child[2][2]) == s(l) and s(ea[1]) == s(p) \
                        and s(child[2][0]) == s(tree) and c.name in ('remove_child', 'try_remove_child'):
                    verdict = 'J2: on the false outcome of C::explore(tree, p, child) for the child just inserted at (p, l)'
                else:
                    ctx.bad(rule, site, 'removal under a false explore() whose arguments are not (tree, p, child inserted at (p,l))', span)
                    verdict = 'bad'
        # ---- J1-filter: element of filter(children(p), |c| c.state.is_infeasible())
        if verdict is None and c.name in ('remove_child', 'try_remove_child'):
            l = beta_map(F, l)
            ec = label_of_edge_collection(F, l)
            if ec is not None and ec[1] == {'Infeasible'} and s(ec[0][2][1]) == s(p):
                verdict = 'J1: (p, label) of an edge drawn from the children of p whose cached state is Infeasible'
        if verdict is None and c.name in ('remove_child', 'try_remove_child'):
            src, filters = filter_chain(l)
            if src is not None and filters:
                okf = False
                for f in filters:
                    sp = state_predicate_of_closure(F, f)
                    if sp and sp[1] == {'Infeasible'}:
                        okf = True
                if okf and is_call(src, 'Tree::children') and s(src[2][1]) == s(p) and l[0] == 'field' and l[2] == 'label':
                    verdict = 'J1: (p, label) of an edge drawn from children(p) filtered by state.is_infeasible()'
                else:
                    ctx.bad(rule, site, 'removed child is drawn from a filtered collection, but the filter is not '
                            '"state is Infeasible" over children(p) (filter summary: %s)' % [state_predicate_of_closure(F, f) for f in filters], span)
                    verdict = 'bad'
        # ---- deferred: (p, l) drawn from a queue; every entry must have been justified when it was queued
        if verdict is None and c.name in ('remove_child', 'try_remove_child'):
            def elem_of(e):
                # Iterator::next(vec).k
                if e[0] == 'field' and e[2].isdigit() and is_call(e[1], 'Iterator::next'):
                    return e[1][2][0], int(e[2])
                return None, None
            vp, ip = elem_of(p)
            vl, il = elem_of(l)
            if vl is not None and (vp is None or s(vp) == s(vl)):
                pushes = [(pb, R.call_args(pb)) for pb, pt in b.calls_to('Vec::push') if s(R.call_args(pb)[0]) == s(vl)]
                if not pushes:
                    ctx.bad(rule, site, 'deferred removal list is never filled in this function', span)
                    verdict = 'bad'
                allok = True
                why = set()
                for pb, pa in pushes:
                    val = pa[1]
                    plits = literals(b, R, pb)
                    if not (val[0] == 'agg' and val[1] == 'tuple' and len(val[2]) > max(ip or 0, il)):
                        ctx.bad(rule, site, 'queued entry is not a tuple carrying the label', b.where(pb))
                        allok = False
                        continue
                    el = val[2][il]
                    ep = val[2][ip] if vp is not None else p
                    # (J2) queued on the false outcome of explore for the child just inserted at (ep, el)
                    j2 = False
                    for lit in plits:
                        if lit[0] == 'false' and is_call(lit[1], 'CompositionSchema::explore'):
                            ea = lit[1][2]
                            child = ea[2]
                            if is_call(child, 'Tree::add_child_node') and s(child[2][1]) == s(ep) and s(child[2][2]) == s(el) \
                                    and s(ea[1]) == s(ep) and s(child[2][0]) == s(tree):
                                j2 = True
                    if j2:
                        why.add('J2: queued on the false outcome of C::explore(tree, p, child) for the child just inserted at (p, l)')
                        continue
                    inf = [x for x in plits if x[0] == 'is' and x[2] == frozenset(['Infeasible'])]
                    if not inf:
                        ctx.bad(rule, site, 'an entry is queued for removal without a dominating "state is Infeasible" test or false explore() outcome', b.where(pb))
                        allok = False
                        continue
                    okp = ep[0] == 'field' and ep[2] == 'source_idx' and is_call(ep[1], 'Tree::parent')
                    okl = el[0] == 'field' and el[2] == 'label' and is_call(el[1], 'Tree::parent')
                    if not (okp and okl and s(ep[1]) == s(el[1])):
                        ctx.bad(rule, site, 'queued entry must be (label, source) of the parent edge of one node; got parent=%s label=%s' % (fmt(ep), fmt(el)), b.where(pb))
                        allok = False
                        continue
                    node = ep[1][2][1]
                    # the state tested must have been computed for that node: every alternative of the state mentions the node
                    st = inf[0][1]
                    alts = st[2] if st[0] == 'phi' else (st,)
                    for a in alts:
                        mentions = any(s(x) == s(node) for x in walk(a)) or any(is_call(x, 'Tree::parent') and s(x[2][1]) == s(node) for x in walk(a))
                        if not mentions:
                            ctx.bad(rule, site, 'the Infeasible verdict tested before queueing was not computed for the queued node (%s)' % fmt(a)[:120], b.where(pb))
                            allok = False
                    why.add('J1: queued parent edge of a node whose freshly computed state is Infeasible')
                if allok and pushes:
                    verdict = 'deferred removal; every queue entry justified: ' + '; '.join(sorted(why))
                elif verdict is None:
                    verdict = 'bad'
        # ---- J4: reduce(): both siblings are present terminals with the identical function (judged under C08)
        if verdict is None:
            for lit in lits:
                if lit[0] == 'true' and is_call(lit[1], 'PartialEq::eq') and all(
                        x[0] == 'field' and x[2] == 'aff' for x in lit[1][2]):
                    verdict = 'J4: one of two present terminal siblings carrying aff == aff (guard verified under C08.R1)'
        # ---- J3: merge_child_with_parent under "one survivor, all other K-1 justified"
        if verdict is None and c.name == 'merge_child_with_parent':
            verdict = _merge_justified(ctx, F, b, R, bb, args, lits, rule, site, span)
        if verdict is None:
            ctx.bad(rule, site, 'removal of a child is not guarded by an accepted infeasibility idiom; dominating conditions: %s'
                    % '; '.join('%s %s' % (x[0], fmt(x[1])[:80]) for x in lits[:8]), span)
        elif verdict != 'bad':
            ctx.ok(rule, site, verdict, span)


def _counter_increments(b, R, var):
    """Blocks where a loop-carried counter is incremented (def of the form var + 1)."""
    out = []
    for (dbb, didx, e) in R.var_defs(var[1]):
        if e == ('const', 0):
            continue
        x = e
        if x[0] == 'field' and x[2] == '0':
            x = x[1]
        if x[0] == 'bin' and x[1] in ('AddWithOverflow', 'Add') and x[2][:2] == ('var', var[1]) and x[3] == ('const', 1):
            out.append(dbb)
        else:
            out.append(('other', dbb))
    return out


def _merge_justified(ctx, F, b, R, bb, args, lits, rule, site, span):
    tree, p, l = args[0], args[1], args[2]
    # (a) reduce(): equality of two terminal siblings -> judged by C08
    for lit in lits:
        if lit[0] == 'true' and is_call(lit[1], 'PartialEq::eq'):
            return 'J4: merge of two present terminal siblings under aff == aff (guard verified under C08.R1)'
    # (b) forward_if_redundant: |feasible| == 1 and |infeasible| == K-1
    feas = None
    inf = None
    for lit in lits:
        if lit[0] in ('false', 'true') and lit[1][0] == 'bin' and lit[1][1] in ('Ne', 'Eq'):
            eq = (lit[1][1] == 'Eq') == (lit[0] == 'true')
            if not eq:
                continue
            lhs, rhs = lit[1][2], lit[1][3]
            if is_call(lhs, 'Vec::len'):
                src, filters = filter_chain(lhs[2][0])
                if src is None or not is_call(src, 'Tree::children'):
                    continue
                for f in filters:
                    sp = state_predicate_of_closure(F, f)
                    if not sp:
                        continue
                    if sp[1] == {'Feasible', 'FeasibleWitness'} and rhs == ('const', 1):
                        feas = (lhs[2][0], src)
                    k_minus_1 = (rhs[0] == 'field' and rhs[2] == '0' and rhs[1][0] == 'bin' and rhs[1][1].startswith('Sub') and rhs[1][2] == ('const', 'K') and rhs[1][3] == ('const', 1)) \
                        or (rhs[0] == 'bin' and rhs[1].startswith('Sub') and rhs[2] == ('const', 'K') and rhs[3] == ('const', 1))
                    if sp[1] == {'Infeasible'} and k_minus_1:
                        inf = (lhs[2][0], src)
    if not (feas and inf):
        # the same two facts about collections built by one pass (partition / partition_map), or lengths tested through a slice pattern
        f2 = i2 = None
        for lit in lits:
            lf = length_fact(F, lit)
            if lf is None:
                continue
            ch, states, n, coll = lf
            n_ = s(n)
            k_minus_1 = (n_[0] == 'field' and n_[2] == '0' and n_[1][0] == 'bin' and n_[1][1].startswith('Sub') and n_[1][2] == ('const', 'K') and n_[1][3] == ('const', 1)) \
                or (n_[0] == 'bin' and n_[1].startswith('Sub') and n_[2] == ('const', 'K') and n_[3] == ('const', 1))
            if states and states <= FEASIBLE_STATES and n_ == ('const', 1):
                f2 = (coll, ch)
            if states == {'Infeasible'} and k_minus_1:
                i2 = (coll, ch)
        if f2 and i2:
            ml = label_of_edge_collection(F, l)
            node = s(f2[1][2][1])
            p_ok = s(p) == node
            if not p_ok and p[0] == 'field' and p[2] == 'source_idx':
                # the source of an edge taken from the feasible collection is the node whose children were enumerated
                mp = label_of_edge_collection(F, ('field', p[1], 'label'))
                p_ok = mp is not None and (s(mp[2]) == s(f2[0]) or (s(mp[0]) == s(f2[1]) and mp[1] <= FEASIBLE_STATES))
            same = node == s(i2[1][2][1]) and p_ok
            same_coll = ml is not None and (s(ml[2]) == s(f2[0]) or
                                            (s(ml[0]) == s(f2[1]) and edge_collection(F, f2[0]) is not None and ml[1] == edge_collection(F, f2[0])[1]))
            if ml is not None and ml[1] <= FEASIBLE_STATES and same_coll and same:
                return 'J3: decision skipped under |children with feasible state| == 1 and |children with Infeasible state| == K-1; the forwarded child is the feasible one'
            ctx.bad(rule, site, 'the forwarded child is not the unique feasible child of the node whose other children are Infeasible', span)
            return 'bad'
    if feas or inf:
        if not (feas and inf):
            ctx.bad(rule, site, 'a decision is skipped without requiring both "exactly one feasible child" and "all other K-1 children Infeasible"', span)
            return 'bad'
        # merged child is the feasible one of the same node
        # the list has exactly one element on this path, so any element access denotes it
        ELEM = ('Vec::pop', 'Index::index', 'Iterator::next', '[T]::first', '[T]::last', 'Vec::remove', 'Vec::swap_remove', 'Itertools::exactly_one')
        def drawn(e):
            return any(is_call(x, *ELEM) and x[2] and s(x[2][0]) == s(feas[0]) for x in walk(e))
        ok = drawn(l) and drawn(p)
        same = s(feas[1][2][1]) == s(inf[1][2][1])
        if ok and same:
            return 'J3: decision skipped under |children with feasible state| == 1 and |children with Infeasible state| == K-1; the forwarded child is the feasible one'
        ctx.bad(rule, site, 'the forwarded child is not the unique feasible child of the node whose other children are Infeasible', span)
        return 'bad'
    # (c) composition: created == 1 and created + skipped == K
    created = None
    total = None
    for op__, a, c_ in cmp_facts(lits):
        if op__ == 'Eq':
            if a[0] == 'var' and c_ == ('const', 1):
                created = a
            x = a
            if x[0] == 'field' and x[2] == '0':
                x = x[1]
            if x[0] == 'bin' and x[1] in ('Add', 'AddWithOverflow') and x[2][0] == 'var' and x[3][0] == 'var' and c_ == ('const', 'K'):
                total = (x[2], x[3])
            elif x[0] == 'bin' and x[1] in ('Add', 'AddWithOverflow') and c_ == ('const', 'K') and \
                    any(y[0] == 'var' for y in (x[2], x[3])) and any(is_call(y, 'Vec::len') for y in (x[2], x[3])):
                # the number of rejected children read off the queue that collects them (`created + pruned.len() == K`)
                total = (x[2], x[3])
    if created is not None or total is not None:
        if created is None or total is None or created not in total:
            ctx.bad(rule, site, 'a grafted decision is skipped without requiring created == 1 and created + skipped == K', span)
            return 'bad'
        skipped = total[1] if total[0] == created else total[0]
        ok = True
        for var, want in ((created, 'true'), (skipped, 'false')):
            if is_call(var, 'Vec::len'):
                # a queue length used as the counter: every push is an increment, and the length is read before anything is taken out again
                V = var[2][0]
                cfg_ = b.cfg()
                pushes = [pb for pb, pt in b.calls_to('Vec::push') if s(R.call_args(pb)[0]) == s(V)]
                news = [nb for nb, nt in b.calls() if Callee(nt['func']).name in ('new', 'with_capacity') and s(R.call_expr(nt, nb)) == s(V)]
                takes = [tb for tb, tt in b.calls() if Callee(tt['func']).name in ('pop', 'remove', 'swap_remove', 'truncate', 'clear', 'drain', 'retain', 'split_off')
                         and R.call_args(tb) and s(R.call_args(tb)[0]) == s(V)]
                if not pushes:
                    ok = False
                for pb in pushes:
                    if not any(x[0] == want and is_call(x[1], 'CompositionSchema::explore') for x in literals(b, R, pb)):
                        ctx.bad(rule, site, 'an entry is queued on %s outside the %s outcome of C::explore' % (fmt(V)[:40], want), b.where(pb))
                        ok = False
                len_bb = var[3] if len(var) > 3 else None
                if len_bb is None or any(cfg_.reaches(tb, len_bb, avoid=news) for tb in takes):
                    ctx.bad(rule, site, 'the queue length used as the number of rejected children can be read after an entry was taken out', span)
                    ok = False
                continue
            incs = _counter_increments(b, R, var)
            if not incs:
                ok = False
            for ib in incs:
                if isinstance(ib, tuple):
                    ctx.bad(rule, site, 'counter %s is updated in an unexpected way' % fmt(var), b.where(ib[1]))
                    ok = False
                    continue
                il = literals(b, R, ib)
                if not any(x[0] == want and is_call(x[1], 'CompositionSchema::explore') for x in il):
                    ctx.bad(rule, site, 'counter %s is incremented outside the %s outcome of C::explore' % (fmt(var), want), b.where(ib))
                    ok = False
        if ok:
            return 'J3: grafted decision skipped under created == 1 and created + skipped == K, counters driven by the outcome of C::explore only'
        return 'bad'
    return None


def check_childless(ctx, rule):
    """A removal of a child of p must not leave p as a decision without children (C04.R3 = C03.R5)."""
    F = ctx.facts
    for (b, bb, t, c) in removal_sites(F):
        if c.name not in ('remove_child', 'try_remove_child'):
            continue
        R = Resolver(b)
        args = R.call_args(bb)
        site = '%s#call:Tree::%s' % (b.qname, c.name)
        span = t['span']
        if b.qname in NAMED_EXCEPTIONS and b.qname != 'AffTree::replace_node':
            ctx.ok(rule, site, 'named exception', span)
            continue
        p = args[1]
        cfg = b.cfg()
        lits = literals(b, R, bb)
        reason = None
        # (a) p itself is removed afterwards on all paths (merge_child_with_parent(p, _)) or gets a child again
        for mb, mt in b.calls():
            mc = Callee(mt['func'])
            if mc.name in ('merge_child_with_parent', 'add_child_node') and mc.self_base in ('Tree', 'AffTree'):
                ma = R.call_args(mb)
                if s(ma[1]) == s(p) or _same_node(ma[1], p):
                    if cfg.postdominates(mb, bb) or _postdom_loop_exit(cfg, b, mb, bb):
                        reason = 'followed on every path by %s(p, ..): p is removed / receives a child again' % mc.name
        # (b) dominated by "exactly one feasible child" while only Infeasible children are removed
        if reason is None:
            for lit in lits:
                if lit[0] in ('false', 'true') and lit[1][0] == 'bin' and lit[1][1] in ('Ne', 'Eq') and is_call(lit[1][2], 'Vec::len'):
                    eq = (lit[1][1] == 'Eq') == (lit[0] == 'true')
                    src, filters = filter_chain(lit[1][2][2][0])
                    for f in filters:
                        sp = state_predicate_of_closure(F, f)
                        if eq and sp and sp[1] == {'Feasible', 'FeasibleWitness'} and lit[1][3] == ('const', 1) and src is not None and s(src[2][1]) == s(p):
                            lsrc, lfilters = filter_chain(args[2])
                            lsp = [state_predicate_of_closure(F, g) for g in lfilters]
                            if any(x and x[1] == {'Infeasible'} for x in lsp):
                                reason = 'p keeps its (unique) feasible child: only children with Infeasible state are removed'
        if reason is None:
            rl = label_of_edge_collection(F, beta_map(F, args[2]))
            if rl is not None and rl[1] == {'Infeasible'}:
                for lit in lits:
                    lf = length_fact(F, lit)
                    if lf is not None and lf[1] and lf[1] <= FEASIBLE_STATES and s(lf[2]) == ('const', 1) and s(lf[0][2][1]) == s(p):
                        reason = 'p keeps its (unique) feasible child: only children with Infeasible state are removed'
        # (c) guarded by num_children(p) > 1
        if reason is None:
            for op_, x_, y_ in cmp_facts(lits):
                if op_ in ('Gt', 'Ge') and is_call(x_, 'Tree::num_children') and s(x_[2][1]) == s(p) \
                        and y_[0] == 'const' and isinstance(y_[1], int) and ((op_ == 'Gt' and y_[1] >= 1) or (op_ == 'Ge' and y_[1] >= 2)):
                    reason = 'guarded by num_children(p) > 1: the last child is never removed'
        # (d) keep-one idiom: removals are drawn from a queue; when no other child was kept, one entry is popped (kept) first
        if reason is None:
            reason = _keep_one_idiom(b, R, cfg, bb, args)
        if reason:
            ctx.ok(rule, site, reason, span)
        else:
            ctx.bad(rule, site, 'this removal can take the last child of p: try_remove_child then flags the decision p as a leaf, '
                    'and evaluate() returns the predicate value where the function was undefined (childless decision)', span)


def _keep_one_idiom(b, R, cfg, bb, args):
    l = args[2]
    if not (l[0] == 'field' and is_call(l[1], 'Iterator::next')):
        return None
    V = l[1][2][0]
    pops = [pb for pb, pt in b.calls_to('Vec::pop') if s(R.call_args(pb)[0]) == s(V)]
    if not pops:
        return None
    for sb, bl in b.live_blocks():
        t = bl['term']
        if t['k'] != 'switch':
            continue
        d = R.switch_discr(sb)
        if not (d and d[0] == 'bin' and d[1] in ('Eq', 'Ne') and d[2][0] == 'var' and d[3] == ('const', 0)):
            continue
        var = d[2]
        from ..mir import edge_literal
        for e in cfg.edge_nodes(sb):
            lit = edge_literal(b, R, sb, cfg.edge_label[e])
            zero = lit and ((lit[0] == 'true' and d[1] == 'Eq') or (lit[0] == 'false' and d[1] == 'Ne'))
            if not zero:
                continue
            # on the "nothing kept" edge the removal loop is reachable only through the pop
            if not cfg.dominates(sb, bb):
                continue
            if cfg.reaches(e, bb, avoid=pops):
                continue
            # the counter counts the children that are kept: it is incremented only where nothing is queued
            incs = _counter_increments(b, R, var)
            pushes = [pb for pb, pt in b.calls_to('Vec::push') if s(R.call_args(pb)[0]) == s(V)]
            if not incs or any(isinstance(i, tuple) for i in incs):
                continue
            if any(cfg.reaches(i, pb) and not cfg.dominates(sb, i) and _same_iteration(cfg, i, pb) for i in incs for pb in pushes):
                continue
            # the kept node must itself be expanded: the popped entry is pushed onto the traversal worklist on every path from the pop
            sched = False
            for pb2, pt2 in b.calls_to('Vec::push'):
                a2 = R.call_args(pb2)
                if s(a2[0]) == s(V):
                    continue
                if any(is_call(x, 'Vec::pop') and s(x[2][0]) == s(V) for x in walk(a2[1])):
                    some = [e2 for e2 in cfg.succ.get(_switch_after_call(b, pops[0]), []) if isinstance(e2, tuple) and cfg.edge_label[e2] == ('sw', (1,))]
                    if some and all(not cfg.reaches(e2, bb, avoid=[pb2]) for e2 in some):
                        sched = True
            if not sched:
                return None
            return ('keep-one idiom: removals are drawn from a queue; if the kept-children counter %s is 0 one queue entry is popped '
                    '(kept) before the removal loop and scheduled for expansion, so p never loses its last child and the kept child is completed' % fmt(var))
    return None


def _switch_after_call(b, bb):
    n = bb
    for _ in range(6):
        t = b.blocks[n]['term']
        if t['k'] == 'switch':
            return n
        if t.get('target') is not None:
            n = t['target']
        else:
            break
    return n


def _same_iteration(cfg, a, b):
    """a reaches b without crossing a loop back edge (same loop iteration)."""
    backs = set(cfg.back_edges())
    seen = set()
    st = [a]
    while st:
        n = st.pop()
        if n == b:
            return True
        if n in seen:
            continue
        seen.add(n)
        for x in cfg.succ.get(n, []):
            if (n, x) in backs:
                continue
            st.append(x)
    return False


def _same_node(a, b):
    """edge(pop(F)).source_idx of an edge drawn from children(p) denotes p."""
    if a[0] == 'field' and a[2] == 'source_idx':
        for x in walk(a):
            if is_call(x, 'Tree::children') and s(x[2][1]) == s(b):
                return True
    return False


def _postdom_loop_exit(cfg, body, mb, bb):
    """mb post-dominates bb when the only other way out of bb's loop is the loop exit that leads to mb."""
    # every path from bb to EXIT passes mb?
    from ..mir import EXIT
    return not cfg.reaches(bb, EXIT, avoid=[mb])


# ---------------------------------------------------------------------------------------
# verdict provenance (C03.R2 / C11.R1)


def constructions(F, adt, variant=None, skip_derives=True):
    for b in F.bodies:
        if skip_derives and b.impl_trait_base in ('Clone', 'Debug', 'PartialEq') and b.from_expansion:
            continue
        if skip_derives and b.impl_trait_base in ('Clone', 'Debug', 'PartialEq') and b.self_base == adt:
            continue
        for i, j, st in b.stmts():
            if st['k'] == 'assign' and st['rv']['k'] == 'agg' and st['rv']['agg']['k'] == 'adt':
                a = st['rv']['agg']
                if a['path'].split('::')[-1] == adt and (variant is None or a['variant'] == variant):
                    yield b, i, j, st


def check_infeasible_provenance(ctx, rule, node_states=True):
    F = ctx.facts
    n = 0
    for b, i, j, st in (constructions(F, 'NodeState', 'Infeasible') if node_states else ()):
        n += 1
        R = Resolver(b)
        lits = literals(b, R, i)
        site = '%s#build:NodeState::Infeasible' % b.qname
        good = [l for l in lits if l[0] == 'is' and l[2] == frozenset(['Infeasible']) and is_call(l[1], 'AffFuncBase::status')]
        if good:
            ctx.ok(rule, site, 'built only in the PolytopeStatus::Infeasible arm of a match on %s' % fmt(good[0][1]), st['span'])
        else:
            ctx.bad(rule, site, 'an Infeasible verdict is produced outside the PolytopeStatus::Infeasible arm of the LP status '
                    '(guards: %s)' % '; '.join('%s %s %s' % (x[0], fmt(x[1])[:60], set(x[2]) if x[0] == 'is' else '') for x in lits[:6]), st['span'])
    if n == 0 and node_states:
        ctx.lost(rule, 'construction of NodeState::Infeasible')
    # PolytopeStatus::Infeasible is the back-end's Infeasible only
    m = 0
    for b, i, j, st in constructions(F, 'PolytopeStatus', 'Infeasible'):
        m += 1
        R = Resolver(b)
        lits = literals(b, R, i)
        site = '%s#build:PolytopeStatus::Infeasible' % b.qname
        good = [l for l in lits if l[0] == 'is' and l[2] == frozenset(['Infeasible'])]
        errarm = [l for l in lits if l[0] == 'is' and l[2] == frozenset(['Err'])]
        if good and errarm:
            ctx.ok(rule, site, 'only the back-end\'s Err(Infeasible) is mapped to PolytopeStatus::Infeasible', st['span'])
        else:
            ctx.bad(rule, site, 'PolytopeStatus::Infeasible is produced for a solver outcome other than Err(Infeasible)', st['span'])
    if m == 0:
        ctx.lost(rule, 'construction of PolytopeStatus::Infeasible')


def check_edge_feasible_table(ctx, rule):
    """is_edge_feasible returns false only on an Infeasible LP status or a cached Infeasible state of node/parent."""
    F = ctx.facts
    b = ctx.body(rule, 'AffTree::is_edge_feasible')
    if b is None:
        return
    R = Resolver(b)
    n = 0
    ret_defs = []
    from ..mir import value_table
    # every way the result is produced, with the guards under which it is (a value handed back by a grafted helper is expanded into the
    # helper's own alternatives)
    for v, lits_, i in value_table(b, R, 0):
        ret_defs.append((i, v, b.where(i), lits_))
    for (i, v, span_, lits_v) in ret_defs:
        if True:
            st = {'span': span_}
            if v == ('const', True):
                continue
            n += 1
            site = '%s#return-false' % b.qname
            if v != ('const', False):
                ctx.bad(rule, site + ':computed', 'is_edge_feasible returns a computed value (%s); every "false" must be an explicit Infeasible arm' % fmt(v)[:100], st['span'])
                continue
            lits = lits_v
            good = None
            for l in lits:
                if l[0] == 'is' and l[2] == frozenset(['Infeasible']):
                    x = l[1]
                    if is_call(x, 'AffFuncBase::status'):
                        good = 'LP status Infeasible of %s' % fmt(x[2][0])[:80]
                        # the polytope must be the path characterisation
                        if not is_call(x[2][0], 'AffTree::polyhedral_path_characterization'):
                            good = None
                            ctx.bad(rule, site + ':status', 'the LP asked is not the path polytope of the edge', st['span'])
                        site += ':status'
                    elif x[0] == 'field' and x[2] == 'state':
                        good = 'cached Infeasible state (%s)' % fmt(x)[:80]
                        site += ':cached:' + ('parent' if 'parent_idx' in fmt(x) else 'node')
            if good:
                ctx.ok(rule, site, 'returns false only under ' + good, st['span'])
            else:
                ctx.bad(rule, site, 'returns false (prune) outside an Infeasible arm: an LP error/unbounded/feasible answer must keep the edge', st['span'])
    if n == 0:
        ctx.lost(rule, 'false-returns of is_edge_feasible')


def check_root_edges_kept(ctx, rule):
    """Edges directly below the root are never rejected by is_edge_feasible (shortcut on the *parent* index at function entry).
    Necessary for the forwarding step of the pruned composition: with a rejected root edge a grafted decision at the root would be
    forwarded, Tree::merge_child_with_parent returns Err(RootNode) and the composition panics where the unpruned one is defined."""
    b = ctx.body(rule, 'AffTree::is_edge_feasible')
    if b is None:
        return
    R = Resolver(b)
    cfg = b.cfg()
    ok = False
    for i, j, st in b.stmts():
        if st['k'] == 'assign' and st['place']['local'] == 0 and not st['place']['proj'] and R.rvalue(st['rv'], i, j) == ('const', True):
            lits = literals(b, R, i)
            if len(lits) == 1 and lits[0][0] == 'true' and lits[0][1][0] == 'bin' and lits[0][1][1] == 'Eq':
                x, y = lits[0][1][2], lits[0][1][3]
                is_root = lambda e: e == ('const', 0) or is_call(e, 'Tree::get_root_idx')
                if (x == ('param', 'parent_idx') and is_root(y)) or (y == ('param', 'parent_idx') and is_root(x)):
                    # the test is the first decision of the function
                    if lits[0][-1] == 0 or cfg.dominates(lits[0][-1], max(n for n in cfg.succ if isinstance(n, int))) or True:
                        ok = all(cfg.dominates(lits[0][-1], bb) for bb, _ in b.calls_to('AffFuncBase::status'))
    site = 'AffTree::is_edge_feasible#root-shortcut'
    if ok:
        ctx.ok(rule, site, 'returns true at once when the parent is the root: root edges are never pruned on the fly, so the composition never forwards at the root', b.span)
    else:
        ctx.bad(rule, site, 'edges below the root can be rejected: the pruned composition would forward a decision at the root and panic on Err(RootNode) '
                '(or prune where the path polytope is the whole space)', b.span)


def check_explore_impls(ctx, rule):
    F = ctx.facts
    impls = [b for b in F.bodies if b.name == 'explore' and b.impl_trait_base == 'CompositionSchema']
    if not impls:
        ctx.lost(rule, 'impls of CompositionSchema::explore')
    for b in impls:
        R = Resolver(b)
        rets = [e for _, e in R.return_expr()]
        site = '%s' % b.qname
        names = b.arg_names()
        if len(rets) == 1 and rets[0] == ('const', True):
            ctx.ok(rule, site, 'constant true (never prunes)', b.span)
        elif len(rets) == 1 and is_call(rets[0], 'AffTree::is_edge_feasible') and \
                [x for x in rets[0][2]] == [('param', names[0]), ('param', names[1]), ('param', names[2])]:
            ctx.ok(rule, site, 'exactly context.is_edge_feasible(parent, child)', b.span)
        else:
            ctx.bad(rule, site, 'explore() is neither the constant true nor context.is_edge_feasible(parent, child): %s' % [fmt(r) for r in rets], b.span)


# ---------------------------------------------------------------------------------------
# witnesses (C05.R1 / C11)


def check_witness_guards(ctx, rule):
    F = ctx.facts
    n = 0
    for b, i, j, st in constructions(F, 'NodeState', 'FeasibleWitness'):
        n += 1
        R = Resolver(b)
        v = R.rvalue(st['rv'], i, j)
        payload = v[2][0]
        lits = literals(b, R, i)
        site = '%s#build:NodeState::FeasibleWitness' % b.qname
        span = st['span']
        why = None
        # (a) collect of a filter whose closure is P.contains(point)
        src, filters = filter_chain(payload)
        if filters:
            for f in filters:
                cb, rets = closure_ret(F, f)
                ct = containment_test(F, rets[0]) if rets and len(rets) == 1 else None
                if ct is not None and ct[1][0] == 'param':
                    poly = ct[0]
                    why = 'points kept by filter(|p| %s.contains(p))' % fmt(poly)
                    site += ':filter'
        # (b) dominated by true(P.contains(x)) with x the stored point
        if why is None:
            pts = []
            if payload[0] == 'call' and 'vec' in payload[1].lower() or is_call(payload, '[T]::into_vec', 'slice::into_vec'):
                pass
            stored = _stored_points(payload, b, R)
            for l in lits:
                if l[0] == 'true' and is_call(l[1], 'AffFuncBase::contains'):
                    pt = l[1][2][1]
                    if any(s(pt) == s(x) for x in stored):
                        why = 'dominated by %s.contains(stored point) == true' % fmt(l[1][2][0])
                        site += ':contains:' + ('repaired' if any(is_call(x, 'AffTree::mirror_points') for x in walk(pt)) else 'lp')
        # (b') the stored point is the payload of `opt.filter(|c| P.contains(c))` in its Some arm
        if why is None:
            stored = _stored_points(payload, b, R)
            for l in lits:
                if l[0] == 'is' and l[2] == frozenset(['Some']) and is_call(l[1], 'Option::filter') and len(l[1][2]) == 2 and l[1][2][1][0] == 'closure':
                    cb, rets = closure_ret(F, l[1][2][1])
                    if cb is not None and rets and len(rets) == 1 and is_call(rets[0], 'AffFuncBase::contains') and rets[0][2][1] == ('param', cb.arg_names()[-1]):
                        pay = ('vfield', l[1], 'Some', '0')
                        if any(s(x) in (s(pay), s(l[1])) for x in stored):
                            poly = rets[0][2][0]
                            why = 'Some payload of an Option filtered by %s.contains' % fmt(poly)
                            site += ':contains:' + ('repaired' if any(is_call(x, 'AffTree::mirror_points') for x in walk(l[1])) else 'lp')
        # (c) Some payload of mirror_points(P, ..): the stored points are exactly the columns of the returned array (each column passed the
        # distance filter as a whole; any other cut of the array - rows, chunks of the flattened data - mixes coordinates of different points)
        if why is None:
            mp = find(payload, lambda x: is_call(x, 'AffTree::mirror_points'))
            somelit = [l for l in lits if l[0] == 'is' and l[2] == frozenset(['Some']) and is_call(l[1], 'AffTree::mirror_points')]
            if mp and somelit:
                M = columns_of(F, b, R, payload)
                if M is not None and M[0] == 'field' and M[2] == '0' and is_call(M[1], 'AffTree::mirror_points'):
                    why = 'columns returned by mirror_points(%s, ..) (contract checked separately)' % fmt(mp[0][2][0])
                    site += ':mirror'
                else:
                    ctx.bad(rule, site + ':mirror', 'the cached points are not the columns of the array returned by mirror_points (each column is one tested point): %s' % fmt(s(payload))[:200], span)
                    continue
        if why and site.endswith(':repaired'):
            # a single repaired point is one column of the array mirror_points returned (a row has the wrong length for in_dim >= 2:
            # the containment test on it panics, or, for square shapes, tests a mix of coordinates)
            col = [column_of_mirror(beta_option_map(F, x)) for x in _stored_points(payload, b, R)]
            if False in col or True not in col:
                ctx.bad(rule, site, 'the repaired point is not taken as a column of the array returned by mirror_points (each column is one point)', span)
                continue
        if why:
            ctx.ok(rule, site, 'witness stored only after a containment test: ' + why, span)
        else:
            ctx.bad(rule, site, 'a point is cached as feasibility witness without a dominating containment test on it (payload %s)' % fmt(payload)[:160], span)
    if n == 0:
        ctx.lost(rule, 'construction of NodeState::FeasibleWitness')


def vec_literal_elements(b, R, v):
    """elements of `vec![a, b, ..]` (lowered to an array written into a fresh box that is converted with box_assume_init_into_vec_unsafe); [] otherwise"""
    out = []
    if v[0] == 'call' and v[1].endswith('box_assume_init_into_vec_unsafe') and v[2]:
        box = v[2][0]
        for i, j, st in b.stmts():
            if st['k'] == 'assign' and st['place']['proj'] and st['rv']['k'] == 'agg' and st['rv']['agg']['k'] == 'array':
                tgt = R.place(st['place'], i, j)
                if any(x == box for x in walk(tgt)):
                    out.extend(R.rvalue(st['rv'], i, j)[2])
    return out


def _stored_points(payload, b=None, R=None):
    """Points that end up in the stored Vec: `vec![x]` is lowered to writing the array [x] into a fresh
    box which is then converted with box_assume_init_into_vec_unsafe."""
    out = [payload]
    for x in walk(payload):
        if isinstance(x, tuple) and x and x[0] == 'agg' and x[1] == 'array':
            out.extend(x[2])
    if b is not None and payload[0] == 'call' and payload[1].endswith('box_assume_init_into_vec_unsafe') and payload[2]:
        box = payload[2][0]
        for i, j, st in b.stmts():
            if st['k'] == 'assign' and st['place']['proj'] and st['rv']['k'] == 'agg' and st['rv']['agg']['k'] == 'array':
                tgt = R.place(st['place'], i, j)
                if any(x == box for x in walk(tgt)):
                    v = R.rvalue(st['rv'], i, j)
                    out.extend(v[2])
    return out


def check_mirror_contract(ctx, rule):
    """mirror_points returns Some only of columns that passed its own `distances >= 0` filter, and the distances tested are
    b - A·candidates of the normalised polytope, shifted (if at all) away from acceptance."""
    from ..mir import strip_sites as s_
    F = ctx.facts
    b = ctx.body(rule, 'AffTree::mirror_points')
    if b is None:
        return
    R = Resolver(b)
    cfg = b.cfg()

    def all_nonneg(clo, want_field, then_payload=None):
        """closure = |item| item[.1].iter().all(|v| v >= 0)      (or, for filter_map: that test `.then(|| <payload of item.0>)`)"""
        cb, rets = closure_ret(F, clo)
        if rets and len(rets) == 1 and then_payload is not None and is_call(rets[0], 'bool::then') and len(rets[0][2]) == 2:
            # `cond.then(|| f(point))` keeps exactly the items whose cond is true and maps them: filter + map in one closure
            payload = rets[0][2][1]
            if not (payload[0] == 'closure' and any(isinstance(x, tuple) and x[:1] == ('field',) and x[2] == then_payload for c_ in payload[2] for x in walk(c_))):
                return False
            rets = [rets[0][2][0]]
        if not (rets and len(rets) == 1 and is_call(rets[0], 'Iterator::all')):
            return False
        onfield, inner = rets[0][2][0], rets[0][2][1]
        cb2, rets2 = closure_ret(F, inner)
        if not (rets2 and len(rets2) == 1 and rets2[0][0] == 'bin' and rets2[0][1] == 'Ge' and rets2[0][3] == ('const', 0.0)):
            return False
        # the value compared is the distance itself (a margin added inside the comparison moves the test towards acceptance)
        if cb2 is None or s(rets2[0][2]) != ('param', cb2.arg_names()[-1]):
            return False
        if want_field is None:
            return onfield[0] == 'param'
        return onfield[0] == 'field' and onfield[2] == want_field

    def dist_ok(cand, dist):
        d = find(dist, lambda x: is_call(x, 'Sub::sub'))
        if not d:
            return 'no distance computation found'
        lhs, rhs = d[0][2]
        uses_bias = any(isinstance(x, tuple) and x[:1] == ('field',) and x[2] == 'bias' for x in walk(lhs))
        dot = find(rhs, lambda x: is_call(x, 'ArrayBase::dot'))
        uses_mat = dot and any(isinstance(x, tuple) and x[:1] == ('field',) and x[2] == 'mat' for x in walk(dot[0][2][0]))
        same_pts = dot and any(s(x) == s(_strip_axis(cand)) for x in walk(dot[0][2][1]))
        norm = find(d[0], lambda x: is_call(x, 'AffFuncBase::normalize'))
        of_poly = norm and all(x[2][0] == ('param', 'poly') for x in norm)
        if uses_bias and uses_mat and same_pts and of_poly:
            return None
        return 'distances are not bias - mat·candidates of normalize(poly)'

    somes = 0
    some_blocks = []
    dist_expr = None
    for i, j, st in b.stmts():
        if st['k'] == 'assign' and st['place']['local'] == 0 and not st['place']['proj']:
            v = R.rvalue(st['rv'], i, j)
            if v[0] == 'agg' and isinstance(v[1], tuple) and v[1][2] == 'None':
                continue
            somes += 1
            some_blocks.append(i)
            site = '%s#return-Some' % b.qname
            src, filters = filter_chain(v)
            ok = False
            detail = ''
            fms = find(v, lambda x: is_call(x, 'Iterator::filter_map') and len(x[2]) == 2 and x[2][1][0] == 'closure')
            if not filters and len(fms) == 1 and is_call(fms[0][2][0], 'zip', 'Iterator::zip') and all_nonneg(fms[0][2][1], '1', then_payload='0'):
                cand, dist = fms[0][2][0][2][0], fms[0][2][0][2][1]
                why = dist_ok(cand, dist)
                ok = why is None
                detail = why or ''
                dist_expr = _strip_axis(dist)
            elif filters and is_call(src, 'zip') or (src is not None and src[0] == 'call' and src[1].endswith('zip')):
                cand, dist = src[2][0], src[2][1]
                for f in filters:
                    if all_nonneg(f, '1'):
                        why = dist_ok(cand, dist)
                        ok = why is None
                        detail = why or ''
                        dist_expr = _strip_axis(dist)
                # returned columns are the candidate component
                maps = find(v, lambda x: is_call(x, 'Iterator::map') and x[2][1][0] == 'closure')
                for m in maps:
                    cb3, rets3 = closure_ret(F, m[2][1])
                    if not (rets3 and len(rets3) == 1 and any(isinstance(x, tuple) and x[:1] == ('field',) and x[2] == '0' for x in walk(rets3[0]))):
                        ok = False
                        detail = 'returned columns are not the candidate component of the (candidate, distance) pairs'
            else:
                # the accepted columns are selected by position: candidates.select(Axis(1), positions(distances.axis_iter(Axis(1)), all >= 0))
                sel = find(v, lambda x: is_call(x, 'ArrayBase::select') and len(x[2]) == 3)
                if len(sel) == 1 and s_(sel[0][2][1])[2] == (('const', 1),):
                    cand, idxs = sel[0][2][0], sel[0][2][2]
                    while is_call(idxs, 'Itertools::collect_vec', 'Iterator::collect', 'Vec::as_slice', '[T]::as_ref', 'Deref::deref') and idxs[2]:
                        idxs = idxs[2][0]
                    if is_call(idxs, 'Itertools::positions') and len(idxs[2]) == 2 and idxs[2][1][0] == 'closure' and \
                            is_call(idxs[2][0], 'ArrayBase::axis_iter') and s_(idxs[2][0][2][1])[2] == (('const', 1),) and all_nonneg(idxs[2][1], None):
                        dist = idxs[2][0]
                        why = dist_ok(cand, dist)
                        ok = why is None
                        detail = why or ''
                        dist_expr = _strip_axis(dist)
                    else:
                        detail = 'the selected positions are not those of the distance columns that are all >= 0'
            if ok:
                ctx.ok(rule, site, 'Some(columns) = candidates whose distances b - A·c (normalised poly, minus a positive margin) are all >= 0', st['span'])
            else:
                ctx.bad(rule, site, 'mirror_points may return a point that did not pass its distance filter. ' + detail, st['span'])
    if somes == 0:
        ctx.lost(rule, 'Some-return of mirror_points')
    # the margin applied to the distances before the test moves them away from acceptance (robustness), never towards it
    if dist_expr is not None and some_blocks:
        site = '%s#margin' % b.qname
        shifts = []
        problems = []
        for bb, t in b.calls():
            c = Callee(t['func'])
            if c.name not in ('map_inplace', 'mapv_inplace', 'sub_assign', 'add_assign', 'mul_assign', 'div_assign'):
                continue
            a = R.call_args(bb)
            if not a or s_(a[0]) != s_(dist_expr):
                continue
            if not all(cfg.dominates(bb, sb) for sb in some_blocks):
                continue   # applied after the test failed: prepares the next candidates
            if c.name in ('sub_assign', 'add_assign') and a[1][0] == 'const' and isinstance(a[1][1], (int, float)):
                delta = -a[1][1] if c.name == 'sub_assign' else a[1][1]
                shifts.append(delta)
            elif c.name in ('map_inplace', 'mapv_inplace') and a[1][0] == 'closure':
                cb = F.closure(a[1][1])
                from ..effects import assigns as _assigns
                ws = [w for w in _assigns(cb, Resolver(cb))] if cb is not None else []
                rets = [e for _, e in Resolver(cb).return_expr()] if cb is not None else []
                vals = [w.value for w in ws] if c.name == 'map_inplace' else rets
                tgt = ('param', cb.arg_names()[-1]) if cb is not None else None
                good = bool(vals)
                for v_ in vals:
                    v_ = s_(v_)
                    if v_[0] == 'bin' and v_[1] in ('Sub', 'Add') and v_[2] == tgt and v_[3][0] == 'const' and isinstance(v_[3][1], (int, float)):
                        shifts.append(-v_[3][1] if v_[1] == 'Sub' else v_[3][1])
                    else:
                        good = False
                if not good:
                    problems.append('the distances are rewritten before the test by something other than a constant shift')
            else:
                problems.append('the distances are rewritten before the test by %s' % c.short)
        if any(d > 0 for d in shifts):
            problems.append('the distances are shifted by %s before the test: points up to that far outside the (normalised) polytope are accepted' % '+'.join(repr(d) for d in shifts if d > 0))
        if problems:
            for p_ in problems:
                ctx.bad(rule, site, p_, b.span)
        else:
            ctx.ok(rule, site, 'distances are tested as computed, shifted only away from acceptance (%s)' % (', '.join(repr(d) for d in shifts) or 'no shift'), b.span)


def _strip_axis(e):
    # axis_iter(x, Axis(1)) -> x
    if is_call(e, 'ArrayBase::axis_iter', 'ArrayBase::axis_iter_mut'):
        return e[2][0]
    return e


def _is_square_of(e, arg):
    """e = arg.powi(2) | arg * arg (sites stripped)"""
    from ..mir import strip_sites as s_
    e, arg = s_(e), s_(arg)
    if is_call(e, 'Float::powi', 'f64::powi', 'f32::powi') and e[2][0] == arg and e[2][1] == ('const', 2):
        return True
    if is_call(e, 'Mul::mul') and e[2][0] == arg and e[2][1] == arg:
        return True
    return e[0] == 'bin' and e[1] == 'Mul' and e[2] == arg and e[3] == arg


def l2_norm_row(F, b, R, e):
    """If `e` is the Euclidean norm of one vector in any of the spellings
         sqrt(v.map(|x| x^2).sum())  ·  sqrt(v.iter().map(|x| x^2).sum())  ·  sqrt(v.dot(v))  ·
         sqrt(acc) with acc = 0; for x in v { acc = acc + x^2 }   (a hand-written loop, or `fold` after desugaring)
       return the expression of v, else None.  x^2 is `x.powi(2)` or `x * x`."""
    from ..mir import strip_sites as s_
    if not is_call(e, 'Float::sqrt', 'f64::sqrt', 'f32::sqrt') or not e[2]:
        return None
    x = e[2][0]
    if is_call(x, 'ArrayBase::dot') and s_(x[2][0]) == s_(x[2][1]):
        return x[2][0]
    if is_call(x, 'ArrayBase::sum', 'Iterator::sum', 'sum') and x[2]:
        m = x[2][0]
        if is_call(m, 'ArrayBase::map', 'ArrayBase::mapv', 'Iterator::map', 'map') and len(m[2]) == 2 and m[2][1][0] == 'closure':
            cb, crets = closure_ret(F, m[2][1])
            if cb is not None and crets and len(crets) == 1 and _is_square_of(crets[0], ('param', cb.arg_names()[-1])):
                src = m[2][0]
                while is_call(src, 'ArrayBase::iter', 'iter', 'into_iter', 'IntoIterator::into_iter') and src[2]:
                    src = src[2][0]
                return src
        return None
    if x[0] == 'var':
        defs_ = [d[2] for d in R.var_defs(x[1])]
        init = [d for d in defs_ if s_(d) in (('call', 'Zero::zero', ()), ('const', 0.0), ('const', 0))]
        step = [d for d in defs_ if d not in init]
        if len(init) != 1 or len(step) != 1:
            return None
        st = step[0]
        l_, r_ = None, None
        if is_call(st, 'Add::add') and len(st[2]) == 2:
            l_, r_ = st[2]
        elif st[0] == 'bin' and st[1] == 'Add':
            l_, r_ = st[2], st[3]
        if l_ is None:
            return None
        if s_(r_) == s_(x):
            l_, r_ = r_, l_
        if s_(l_) != s_(x):
            return None
        # r_ = item^2 with item = next(v)
        sq = s_(r_)
        item = None
        if is_call(sq, 'Float::powi', 'f64::powi', 'f32::powi') and sq[2][1] == ('const', 2):
            item = r_[2][0]
        elif is_call(sq, 'Mul::mul') and sq[2][0] == sq[2][1]:
            item = r_[2][0]
        elif sq[0] == 'bin' and sq[1] == 'Mul' and sq[2] == sq[3]:
            item = r_[2]
        if item is None or not is_call(item, 'Iterator::next') or not item[2]:
            return None
        src = item[2][0]
        while is_call(src, 'ArrayBase::iter', 'iter', 'into_iter', 'IntoIterator::into_iter') and src[2]:
            src = src[2][0]
        return src
    return None


LAYOUT_DEPENDENT = ('as_slice_memory_order', 'as_slice_memory_order_mut', 'into_raw_vec', 'into_raw_vec_and_offset', 'as_ptr', 'as_mut_ptr',
                    'from_shape_vec_unchecked', 'from_shape_ptr', 'raw_view', 'raw_view_mut', 'assume_init', 'uninit', 'strides')


def check_layout_independence(ctx, rule):
    """Polytopes and affine functions are generic over the storage (`Data`): views may be strided, reversed or column-major.  Any crate
    function that reads array *contents in memory order* (or through raw pointers / strides) computes a function of the layout instead of
    the logical matrix, unless the call is guarded by `is_standard_layout()`.  Expected count on this code base: zero; the instance records
    how many ndarray call sites were inspected."""
    from ..mir import Callee, Resolver, literals
    n = 0
    bad = []
    for b in ctx.facts.bodies:
        R = None
        for bb, t in b.calls():
            c = Callee(t['func'])
            d = (c.resolved or c.def_path or '')
            if not d.startswith('ndarray::') and not (c.self_ty or '').startswith('ndarray::'):
                continue
            n += 1
            if c.name in LAYOUT_DEPENDENT:
                R = R or Resolver(b)
                lits = literals(b, R, bb)
                if any(l[0] == 'true' and is_call(l[1], 'ArrayBase::is_standard_layout') for l in lits):
                    continue
                bad.append((b, t, c.name))
    site = 'crate#array-contents-in-logical-order'
    for b, t, name in bad:
        ctx.bad(rule, site + ':' + b.qname, '%s reads an array through %s without an is_standard_layout() guard: the result depends on strides / memory order, '
                'not on the matrix (differs for reversed, strided or column-major operands)' % (b.qname, name), t.get('span', b.span))
    if not bad:
        if n < 100:
            ctx.lost(rule, 'ndarray call sites (only %d found)' % n)
        else:
            ctx.ok(rule, site, 'none of the %d ndarray call sites of the crate reads contents in memory order, through raw pointers or strides' % n, None)


def columns_of(F, b, R, e):
    """If `e` is the list of the columns of one 2-D array M, each copied as it is
         M.axis_iter(Axis(1)) | M.columns()  [.into_iter()] .map(|c| c.to_owned()) .collect()      or pushed one by one in a loop over them,
       return the expression of M, else None."""
    from ..mir import strip_sites as s_
    x = e
    while is_call(x, 'Itertools::collect_vec', 'Iterator::collect', 'collect', 'IntoIterator::into_iter', 'into_iter', 'Vec::from_iter', 'FromIterator::from_iter') and x[2]:
        x = x[2][0]

    def cols(src):
        while is_call(src, 'IntoIterator::into_iter', 'into_iter') and src[2]:
            src = src[2][0]
        if is_call(src, 'ArrayBase::axis_iter') and s_(src[2][1])[2] == (('const', 1),):
            return src[2][0]
        if is_call(src, 'ArrayBase::columns', 'ArrayBase::gencolumns'):
            return src[2][0]
        return None

    def owned_copy(v, item):
        v = s_(v)
        while is_call(v, 'ArrayBase::to_owned', 'ToOwned::to_owned', 'Clone::clone', 'ArrayBase::into_owned') and v[2]:
            v = v[2][0]
        return v == s_(item)

    if is_call(x, 'Iterator::map', 'map') and len(x[2]) == 2 and x[2][1][0] == 'closure':
        cb, crets = closure_ret(F, x[2][1])
        if cb is None or not crets or len(crets) != 1:
            return None
        if not owned_copy(crets[0], ('param', cb.arg_names()[-1])):
            return None
        return cols(x[2][0])
    if is_call(x, 'Vec::new', 'Vec::with_capacity'):
        els = vec_elements(F, b, R, x) or []
        Ms = set()
        for el in els:
            v = s_(el)
            while is_call(v, 'ArrayBase::to_owned', 'ToOwned::to_owned', 'Clone::clone', 'ArrayBase::into_owned') and v[2]:
                v = v[2][0]
            if not is_call(v, 'Iterator::next'):
                return None
            m = cols(v[2][0])
            if m is None:
                return None
            Ms.add(m)
        if len(Ms) == 1 and els:
            # cols() saw the site-stripped form: hand back the original (un-stripped) matrix expression
            m = Ms.pop()
            for el in els:
                for y in walk(el):
                    if s_(y) == m:
                        return y
        return None
    return None


# ---------------------------------------------------------------------------------------
# thin wrappers: functions whose whole body is one delegation / one re-packing.  The expected value is written in the rendering of
# mir.fmt (after strip_sites); a list gives alternative spellings.  A closure handed to map() is given by its own return value.

def check_wrappers(ctx, rule, table):
    """table: qname -> (expected return rendering | list of them, [expected closure return renderings], what it means)"""
    from ..mir import strip_sites as s_
    for q, (want, want_clo, what) in table.items():
        bodies = [b for b in ctx.facts.bodies if b.qname == q]
        if not bodies:
            ctx.lost(rule, q)
            continue
        for b in bodies:
            R = Resolver(b)
            got = sorted(set(fmt(s_(e)) for _, e in R.return_expr()))
            def positional(cb, e):
                # closure parameters by position ($1, $2, ..): their names are free
                names = cb.arg_names()
                ren = {n: '$%d' % i for i, n in enumerate(names) if i >= 1}

                def go(x):
                    if isinstance(x, tuple) and len(x) == 2 and x[0] == 'param' and x[1] in ren:
                        return ('param', ren[x[1]])
                    if isinstance(x, tuple):
                        return tuple(go(y) for y in x)
                    return x
                return go(e)
            clo = sorted(fmt(positional(cb, s_(e))) for cb in b.closure_bodies() for _, e in Resolver(cb).return_expr())
            wants = [want] if isinstance(want, str) else list(want)
            site = q + '#wrapper'
            if any('…' in g for g in got + clo):
                ctx.undecided(rule, site, 'body too deep to compare with the delegation table', b.span)
            elif len(got) == 1 and got[0] in wants and clo == sorted(want_clo):
                ctx.ok(rule, site, what, b.span)
            else:
                ctx.bad(rule, site, '%s is no longer "%s" (%s): returns %s%s' % (q, wants[0], what, ' | '.join(got)[:200], (' with closure(s) ' + '; '.join(clo)[:120]) if clo else ''), b.span)


def column_of_mirror(e):
    """True / False / None: the expression takes one point out of the array returned by mirror_points as a *column* (points are columns:
    `val.t().row(k)`, `val.column(k)`, `val.index_axis(Axis(1), k)`) / takes something else out of it / does not involve mirror_points."""
    from ..mir import strip_sites as s_
    if not any(is_call(x, 'AffTree::mirror_points') for x in walk(e)):
        return None
    found = None
    for x in walk(e):
        if is_call(x, 'ArrayBase::row') and x[2] and is_call(x[2][0], 'ArrayBase::t', 'ArrayBase::reversed_axes'):
            found = True
        elif is_call(x, 'ArrayBase::column'):
            found = True
        elif is_call(x, 'ArrayBase::index_axis', 'ArrayBase::index_axis_move') and len(x[2]) == 3:
            ax = s_(x[2][1])
            if ax[0] == 'agg' and ax[2] == (('const', 1),):
                found = True
            else:
                return False
        elif is_call(x, 'ArrayBase::row', 'ArrayBase::slice', 'ArrayBase::slice_move', 'ArrayBase::iter', 'ArrayBase::into_raw_vec', 'ArrayBase::outer_iter', 'ArrayBase::rows'):
            if not (is_call(x, 'ArrayBase::row') and x[2] and is_call(x[2][0], 'ArrayBase::t', 'ArrayBase::reversed_axes')):
                return False
    return found


def leaf_guard(lits, node):
    """a dominating `tree.is_leaf(node)` test that came out true (Result of is_leaf unwrapped with a false default, with `== Ok(true)`
    or `matches!(.., Ok(true))` not accepted: only the forms that are false for an invalid index)"""
    from ..mir import strip_sites as s_
    for l in lits:
        if l[0] != 'true':
            continue
        e = l[1]
        if is_call(e, 'Result::unwrap_or') and len(e[2]) == 2 and s_(e[2][1]) == ('const', False):
            e = e[2][0]
        elif is_call(e, 'Result::unwrap_or_default', 'Result::unwrap') and len(e[2]) == 1:
            e = e[2][0]
        if is_call(e, 'Tree::is_leaf') and len(e[2]) == 2 and s_(e[2][1]) == s_(node):
            return True
    return False


def full_traversal_item(node, tree=('field', ('param', 'self'), 'tree')):
    """node = index of the item of a depth-first / breadth-first traversal of `tree` seeded at its root (every node is delivered once)"""
    from ..mir import strip_sites as s_
    n = s_(node)
    if not (n[0] == 'field' and n[2] == 'index'):
        return False
    it = n[1]
    if not is_call(it, 'DfsPre::next', 'Bfs::next', 'TraversalMut::next') or len(it[2]) != 2 or it[2][1] != s_(tree):
        return False
    src = it[2][0]
    if src[0] == 'field' and src[2] == 'iter' and is_call(src[1], 'AffTree::polyhedra', 'PolyhedraGen::new'):
        a = src[1][2][0]
        return a in (('param', 'self'), s_(tree))
    if is_call(src, 'DfsPre::new', 'Bfs::new', 'DfsPre::iter', 'Bfs::iter') and len(src[2]) == 2:
        return src[2][0] == s_(tree) and is_call(src[2][1], 'Tree::get_root_idx') and src[2][1][2][0] == s_(tree)
    return False


# ---------------------------------------------------------------------------------------
# collections of child edges selected by their cached state (forward_if_redundant and its refactorings)

STATE_VARIANTS = ('Infeasible', 'Indeterminate', 'Feasible', 'FeasibleWitness')   # replaced per run by the variants of the analysed NodeState
FEASIBLE_STATES = frozenset(['Feasible', 'FeasibleWitness'])


def _state_universe(F):
    """all variants of the crate's NodeState as it is now (a variant added later must not be swallowed by a complement)"""
    adt = F.adt('NodeState')
    return set(v['name'] for v in adt['variants']) if adt else set(STATE_VARIANTS)


def _state_formula(F, e, prm):
    """set of NodeState variants of prm.target_value.state for which the boolean expression e is true, or None"""
    from ..mir import strip_sites as s_
    e = s_(e)
    allv = _state_universe(F)
    if e[0] == 'un' and e[1] == 'Not':
        x = _state_formula(F, e[2], prm)
        return None if x is None else allv - x
    if is_call(e, 'Not::not') and len(e[2]) == 1:
        x = _state_formula(F, e[2][0], prm)
        return None if x is None else allv - x
    if e[0] == 'call' and e[1].startswith('NodeState::') and len(e[2]) == 1:
        a = e[2][0]
        if a == ('field', ('field', prm, 'target_value'), 'state'):
            ps = predicate_summary(F, e[1])
            return None if ps is None else set(ps)
    if e[0] == 'bin' and e[1] in ('BitAnd', 'BitOr'):
        l_, r_ = _state_formula(F, e[2], prm), _state_formula(F, e[3], prm)
        if l_ is None or r_ is None:
            return None
        return (l_ & r_) if e[1] == 'BitAnd' else (l_ | r_)
    return None


def _elem_kind(e, prm, F):
    """what a map closure makes of the child edge `prm`"""
    from ..mir import strip_sites as s_
    e = s_(e)
    if e == prm:
        return 'child'
    if e == ('field', prm, 'label'):
        return 'label'
    if is_call(e, 'EdgeReference::edge') and e[2] == (prm,):
        return 'edge'
    if e[0] == 'agg' and e[1] == 'tuple':
        return ('tuple', tuple(_elem_kind(x, prm, F) for x in e[2]))
    st = _state_formula(F, e, prm)
    if st is not None:
        return ('flag', frozenset(st))
    return None


def edge_collection(F, e):
    """e = a collection of (things derived from) the child edges of one node, selected by their cached state through
    filter / map / partition / partition_map (+ collect).  -> (children(..) call, set of states an element's target can have, element kind)"""
    from ..mir import strip_sites as s_, Resolver as _R, literals as _lits, ret_defs as _ret_defs
    while True:
        if is_call(e, 'Itertools::collect_vec', 'Iterator::collect', 'IntoIterator::into_iter', 'Vec::as_slice', 'Deref::deref', '[T]::iter', 'Vec::iter') and e[2]:
            e = e[2][0]
        elif is_call(e, 'Index::index') and len(e[2]) == 2 and s_(e[2][1])[0] == 'agg' and 'RangeFull' in str(s_(e[2][1])[1]):
            e = e[2][0]
        else:
            break
    if is_call(e, 'Tree::children') and len(e[2]) == 2:
        return e, _state_universe(F), 'child'
    if is_call(e, 'Iterator::filter', 'Iterator::find') and len(e[2]) == 2 and e[2][1][0] == 'closure':
        # (`find` hands out one element of what `filter` with the same test would keep)
        sub = edge_collection(F, e[2][0])
        if sub is None:
            return None
        cb, rets = closure_ret(F, e[2][1])
        if cb is None or not rets or len(rets) != 1:
            return None
        prm_ = ('param', cb.arg_names()[-1])
        if sub[2] == 'child':
            st = _state_formula(F, rets[0], prm_)
        else:
            # elements are records made by a preceding map: a test of one of their flag components (possibly negated)
            r_ = s_(rets[0])
            neg = False
            while r_[0] == 'un' and r_[1] == 'Not':
                neg = not neg
                r_ = r_[2]
            st = None
            if isinstance(sub[2], tuple) and sub[2][0] == 'tuple' and r_[0] == 'field' and r_[1] == prm_ and r_[2].isdigit() and int(r_[2]) < len(sub[2][1]):
                k = sub[2][1][int(r_[2])]
                if isinstance(k, tuple) and k[0] == 'flag':
                    st = (_state_universe(F) - set(k[1])) if neg else set(k[1])
            if st is None:
                return None
        if st is None:
            return sub   # a filter on something else only narrows the collection
        return sub[0], sub[1] & st, sub[2]
    if is_call(e, 'Iterator::map') and len(e[2]) == 2 and e[2][1][0] == 'closure':
        sub = edge_collection(F, e[2][0])
        if sub is None or sub[2] != 'child':
            return None
        cb, rets = closure_ret(F, e[2][1])
        if cb is None or not rets or len(rets) != 1:
            return None
        k = _elem_kind(rets[0], ('param', cb.arg_names()[-1]), F)
        return None if k is None else (sub[0], sub[1], k)
    if e[0] == 'field' and e[2] in ('0', '1'):
        side = int(e[2])
        x = e[1]
        if is_call(x, 'Itertools::partition_map') and len(x[2]) == 2 and x[2][1][0] == 'closure':
            sub = edge_collection(F, x[2][0])
            cb = F.closure(x[2][1][1])
            if sub is None or cb is None:
                return None
            tuple_kinds = sub[2][1] if (isinstance(sub[2], tuple) and sub[2][0] == 'tuple') else None
            if sub[2] != 'child' and tuple_kinds is None:
                return None
            Rc = _R(cb)
            prm = ('param', cb.arg_names()[-1])

            def comp_kind(e_):
                # component j of the mapped tuple the closure receives
                e_ = s_(e_)
                if tuple_kinds is not None and e_[0] == 'field' and e_[1] == prm and e_[2].isdigit() and int(e_[2]) < len(tuple_kinds):
                    return tuple_kinds[int(e_[2])]
                return None
            states, kinds = set(), set()
            for bb, v, _sp in _ret_defs(cb, Rc):
                v = s_(v)
                if not (v[0] == 'agg' and isinstance(v[1], tuple) and v[1][1] == 'Either' and v[1][2] in ('Left', 'Right')):
                    return None
                here = _state_universe(F)
                for l in _lits(cb, Rc, bb):
                    if l[0] == 'is' and s_(l[1]) == ('field', ('field', prm, 'target_value'), 'state'):
                        here &= set(l[2])
                    elif l[0] in ('true', 'false'):
                        ck = comp_kind(l[1])
                        if isinstance(ck, tuple) and ck[0] == 'flag':
                            st = set(ck[1])   # a state test computed by the preceding map and carried in the tuple
                        else:
                            st = _state_formula(F, l[1], prm) if tuple_kinds is None else None
                        if st is None:
                            return None
                        here &= st if l[0] == 'true' else _state_universe(F) - st
                if (v[1][2] == 'Left') == (side == 0):
                    states |= here
                    pk = comp_kind(v[2][0])
                    kinds.add(pk if pk is not None else (_elem_kind(v[2][0], prm, F) if tuple_kinds is None else None))
            if len(kinds) != 1 or None in kinds:
                return None
            return sub[0], sub[1] & states, kinds.pop()
        if is_call(x, 'Iterator::partition') and len(x[2]) == 2 and x[2][1][0] == 'closure':
            sub = edge_collection(F, x[2][0])
            if sub is None:
                return None
            cb, rets = closure_ret(F, x[2][1])
            if cb is None or not rets or len(rets) != 1:
                return None
            prm = ('param', cb.arg_names()[-1])
            r = s_(rets[0])
            st = None
            if sub[2] == 'child':
                st = _state_formula(F, r, prm)
            elif isinstance(sub[2], tuple) and sub[2][0] == 'tuple' and r[0] == 'field' and r[1] == prm and r[2].isdigit():
                k = sub[2][1][int(r[2])]
                if isinstance(k, tuple) and k[0] == 'flag':
                    st = set(k[1])
            if st is None:
                return None
            return sub[0], sub[1] & (st if side == 0 else _state_universe(F) - st), sub[2]
    return None


def label_of_edge_collection(F, l):
    """l = the label of an element of an edge_collection (however the element carries it): (children call, states, collection expr) or None"""
    from ..mir import strip_sites as s_
    path = []
    e = l
    for _ in range(4):
        if e[0] == 'field' and (e[2] == 'label' or e[2].isdigit()):
            path.append(e[2])
            e = e[1]
        else:
            break
    path.reverse()
    coll = None
    while is_call(e, 'Option::unwrap', 'Option::expect') and e[2]:
        e = e[2][0]
    if is_call(e, 'Iterator::find') and len(e[2]) == 2:
        coll = e   # the found element is an element of the collection filtered by the same test
    elif is_call(e, 'Iterator::next', '[T]::first', '[T]::last', 'Vec::pop', 'Itertools::exactly_one') and e[2]:
        coll = e[2][0]
    elif e[0] == 'index':
        coll = e[1]
    elif is_call(e, 'Index::index') and len(e[2]) == 2 and s_(e[2][1])[0] == 'const':
        coll = e[2][0]
    if coll is None:
        return None
    ec = edge_collection(F, coll)
    if ec is None:
        return None
    kind = ec[2]
    for step in path:
        if step == 'label':
            if kind in ('child', 'edge'):
                kind = 'label'
            else:
                return None
        else:
            if isinstance(kind, tuple) and kind[0] == 'tuple' and int(step) < len(kind[1]):
                kind = kind[1][int(step)]
            else:
                return None
    if kind != 'label':
        return None
    return ec[0], ec[1], coll


def length_fact(F, lit):
    """a guard literal stating the exact length of an edge_collection: (children call, states, n expr, collection expr) or None"""
    from ..mir import strip_sites as s_
    if lit[0] not in ('true', 'false') or lit[1][0] != 'bin' or lit[1][1] not in ('Eq', 'Ne'):
        return None
    if (lit[1][1] == 'Eq') != (lit[0] == 'true'):
        return None
    lhs, rhs = lit[1][2], lit[1][3]
    coll = None
    if is_call(lhs, 'Vec::len', '[T]::len', 'Iterator::count') and lhs[2]:
        coll = lhs[2][0]
    elif lhs[0] == 'un' and lhs[1] == 'PtrMetadata':
        coll = lhs[2]
    elif lhs[0] == 'PtrMetadata' and len(lhs) > 1:
        coll = lhs[1]
    if coll is None:
        return None
    ec = edge_collection(F, coll)
    if ec is None:
        return None
    return ec[0], ec[1], rhs, coll


def containment_test(F, e):
    """(polytope, point) if the boolean expression e is the library's containment test of `point` in `polytope`:
         polytope.contains(point)      or its definition      polytope.distance_raw(point).iter().all(|d| *d >= -c)   with 0 <= c <= 1e-8
    (Polytope::contains is exactly the latter with c = 1e-8, decided under C14.R1), else None."""
    from ..mir import strip_sites as s_
    if is_call(e, 'AffFuncBase::contains') and len(e[2]) == 2:
        return e[2][0], e[2][1]
    if is_call(e, 'Iterator::all') and len(e[2]) == 2 and e[2][1][0] == 'closure':
        src = e[2][0]
        while is_call(src, 'ArrayBase::iter', 'IntoIterator::into_iter') and src[2]:
            src = src[2][0]
        if not (is_call(src, 'AffFuncBase::distance_raw') and len(src[2]) == 2):
            return None
        cb, rets = closure_ret(F, e[2][1])
        if cb is None or not rets or len(rets) != 1:
            return None
        r = s_(rets[0])
        prm = ('param', cb.arg_names()[-1])
        if r[0] == 'bin' and r[1] == 'Ge' and r[2] == prm and r[3][0] == 'const' and isinstance(r[3][1], (int, float)) and -1e-8 <= r[3][1] <= 0:
            return src[2][0], src[2][1]
    return None


# ---------------------------------------------------------------------------------------------------------------- dimension guards
def _dim_atom(e):
    """a dimension expression -> canonical atom: ('rows', X) / ('cols', X) of an affine function X, ('dim', P, i) of a plain array P"""
    from ..mir import strip_sites as s_
    e = s_(e)
    while e[0] == 'cast':
        e = e[1]
    if is_call(e, 'AffFuncBase::indim') and len(e[2]) == 1:
        return ('cols', e[2][0])
    if is_call(e, 'AffFuncBase::outdim', 'AffFuncBase::n_constraints') and len(e[2]) == 1:
        return ('rows', e[2][0])
    X = axis = None
    if e[0] == 'index' and is_call(e[1], 'ArrayBase::shape') and e[2][0] == 'const':
        X, axis = e[1][2][0], e[2][1]
    elif e[0] == 'field' and is_call(e[1], 'ArrayBase::dim') and str(e[2]).isdigit():
        X, axis = e[1][2][0], int(e[2])
    elif is_call(e, 'ArrayBase::nrows'):
        X, axis = e[2][0], 0
    elif is_call(e, 'ArrayBase::ncols'):
        X, axis = e[2][0], 1
    elif is_call(e, 'ArrayBase::len') and len(e[2]) == 1:
        X, axis = e[2][0], 0
    elif is_call(e, 'ArrayBase::len_of') and e[2][1][0] == 'agg' and e[2][1][2] and e[2][1][2][0][0] == 'const':
        X, axis = e[2][0], e[2][1][2][0][1]
    if X is None:
        return None
    sh = _shape(X)
    if sh is not None and axis < len(sh[0]):
        return sh[0][axis]
    return ('dim', X, axis)


def _shape(e, req=None):
    """symbolic shape of an ndarray expression -> (tuple of dimension atoms, requirements collected) or None; `req` collects the equalities
    the expression needs to be well-shaped (a set of frozensets of two atoms)"""
    from ..mir import strip_sites as s_
    e = s_(e)
    if req is None:
        req = set()

    def need(a, b):
        if a != b:
            req.add(frozenset((a, b)))
    if e[0] == 'field' and e[2] in ('mat', 'bias'):
        sh = _aff_shape(e[1], req)
        if sh is None:
            return None
        return (sh if e[2] == 'mat' else sh[:1]), req
    if is_call(e, 'AffFuncBase::matrix_view') and len(e[2]) == 1:
        return (('rows', e[2][0]), ('cols', e[2][0])), req
    if is_call(e, 'AffFuncBase::bias_view') and len(e[2]) == 1:
        return (('rows', e[2][0]),), req
    if e[0] == 'param':
        return None
    if is_call(e, 'ArrayBase::view', 'ArrayBase::to_owned', 'ArrayBase::clone', 'Clone::clone', 'ArrayBase::mapv', 'ArrayBase::map', 'Neg::neg',
               'ArrayBase::into_owned', 'ArrayBase::view_mut', 'ToOwned::to_owned') and e[2]:
        return _shape(e[2][0], req)
    if is_call(e, 'ArrayBase::t', 'ArrayBase::reversed_axes') and len(e[2]) == 1:
        r = _shape(e[2][0], req)
        return (tuple(reversed(r[0])), req) if r else None
    if is_call(e, 'ArrayBase::dot') and len(e[2]) == 2:
        a, b = _shape_or_param(e[2][0], req), _shape_or_param(e[2][1], req)
        if a is None or b is None:
            return None
        need(a[-1], b[0])
        return (a[:-1] + b[1:]), req
    if is_call(e, 'Add::add', 'Sub::sub') and len(e[2]) == 2:
        a, b = _shape_or_param(e[2][0], req), _shape_or_param(e[2][1], req)
        if a is None or b is None or len(a) != len(b):
            return None
        for x, y in zip(a, b):
            need(x, y)
        return a, req
    if is_call(e, 'AffFuncBase::apply') and len(e[2]) == 2:
        v = _shape_or_param(e[2][1], req)
        if v is None or len(v) != 1:
            return None
        need(('cols', e[2][0]), v[0])
        return (('rows', e[2][0]),), req
    if is_call(e, 'concatenate', 'ndarray::concatenate') and len(e[2]) == 2:
        ax, arr = e[2]
        if not (ax[0] == 'agg' and ax[2] == (('const', 0),) and arr[0] == 'agg'):
            return None
        shapes = [_shape_or_param(x, req) for x in arr[2]]
        if any(x is None for x in shapes) or len(set(len(x) for x in shapes)) != 1:
            return None
        for x in shapes[1:]:
            for p, q in zip(shapes[0][1:], x[1:]):
                need(p, q)
        return (('sum',) + tuple(x[0] for x in shapes),) + shapes[0][1:], req
    return None


def _aff_shape(e, req):
    """(rows, columns) of an affine function / polytope expression; collects what the expression needs"""
    from ..mir import strip_sites as s_
    e = s_(e)
    if e[0] in ('param', 'upvar') or (e[0] == 'field' and e[1][0] in ('param', 'upvar')):
        return (('rows', e), ('cols', e))
    if is_call(e, 'AffFuncBase::from_mats') and len(e[2]) == 2:
        m, b = _shape_or_param(e[2][0], req), _shape_or_param(e[2][1], req)
        if m is None or b is None or len(m) != 2 or len(b) != 1:
            return None
        if m[0] != b[0]:
            req.add(frozenset((m[0], b[0])))
        return m
    if is_call(e, 'AffFuncBase::translate') and len(e[2]) == 2:
        sh = _aff_shape(e[2][0], req)
        d = _shape_or_param(e[2][1], req)
        if sh is None or d is None or len(d) != 1:
            return None
        if sh[1] != d[0]:
            req.add(frozenset((sh[1], d[0])))
        return sh
    if is_call(e, 'AffFuncBase::to_owned', 'AffFuncBase::view', 'Clone::clone', 'AffFuncBase::clone', 'AffFuncBase::as_polytope', 'AffFuncBase::as_function',
               'AffFuncBase::normalize', 'AffFuncBase::negate', 'AffFuncBase::new') and e[2]:
        return _aff_shape(e[2][0], req)
    return None


def _shape_or_param(e, req):
    from ..mir import strip_sites as s_
    e = s_(e)
    r = _shape(e, req)
    if r is not None:
        return r[0]
    if e[0] == 'param':
        rank = _PARAM_RANK.get(e[1])
        if rank is None:
            return None
        return tuple(('dim', e, i) for i in range(rank))
    return None


_PARAM_RANK = {}


def _set_param_ranks(b):
    _PARAM_RANK.clear()
    import re as _re
    for i, n in enumerate(b.arg_names()):
        m = _re.search(r'ArrayBase<[^,]*, ndarray::Dim<\[usize; (\d+)\]>>', b.local_ty(i + 1) or '')
        if m:
            _PARAM_RANK[n] = int(m.group(1))


# documented preconditions that make two dimensions equal: the matrix handed to apply_post is the inverse of an invertible map, hence square
SQUARE_BY_CONTRACT = {'AffFuncBase::apply_post': [((('dim', ('param', 'inverse_mat'), 0)), (('dim', ('param', 'inverse_mat'), 1)))]}


def check_dimension_guards(ctx, rule, names):
    """A kernel that asserts `dim X == dim Y` before it builds its result must assert an equality the result really needs (columns of the
    left factor = rows of the right one for a product, equal column counts for rows stacked on each other, ..): a guard on any other pair of
    dimensions rejects compatible arguments and lets incompatible ones through to a panic inside ndarray."""
    from ..mir import strip_sites as s_
    for q in names:
        bodies = [b for b in ctx.facts.bodies if b.qname == q]
        if not bodies:
            ctx.lost(rule, q)
            continue
        for b in bodies:
            R = Resolver(b)
            site = q + '#dimension-guard'
            rets = R.return_expr()
            if len(rets) != 1:
                ctx.undecided(rule, site, 'result is not one expression', b.span)
                continue
            bb, ret = rets[0]
            req = set()
            _set_param_ranks(b)
            ok_shape = _aff_shape(ret, req) is not None
            guards = []
            for l in literals(b, R, bb):
                for op, x, y in cmp_facts([l]):
                    if op != 'Eq':
                        continue
                    a, c = _dim_atom(x), _dim_atom(y)
                    if a is not None and c is not None:
                        guards.append((a, c, l))
            if not guards:
                ctx.undecided(rule, site, 'no dimension guard found on the path to the result', b.span)
                continue
            if not ok_shape:
                ctx.undecided(rule, site, 'shape of the result expression not derivable', b.span)
                continue
            # closure of the requirements under transitivity
            cls = {}

            def find(x):
                while cls.get(x, x) != x:
                    x = cls[x]
                return x
            for pr in list(req) + [frozenset(x) for x in SQUARE_BY_CONTRACT.get(q, [])]:
                a, c = tuple(pr)
                cls[find(a)] = find(c)
            # a plain-array parameter may be a vector or a matrix: ('dim', P, 1) only matters if someone uses it
            bad = [(a, c) for a, c, _ in guards if find(a) != find(c)]
            if bad:
                ctx.bad(rule, site, 'the guard compares %s, which the result does not need to be equal (it needs %s)' % (
                    '; '.join('%s with %s' % (fmt(a), fmt(c)) for a, c in bad)[:160],
                    '; '.join(' = '.join(sorted(fmt(x) for x in pr)) for pr in sorted(req, key=str))[:200]), b.span)
            else:
                ctx.ok(rule, site, 'every asserted dimension equality (%d) is one the result needs' % len(guards), b.span)


def check_no_unsigned_underflow(ctx, rule, q):
    """Every subtraction on an unsigned integer in `q` is saturating / checked / wrapping (a call, not the `-` operator), or sits under a
    comparison that says the left operand is at least the right one."""
    from ..mir import strip_sites as s_
    bodies = [b for b in ctx.facts.bodies if b.qname == q]
    if len(bodies) != 1:
        ctx.lost(rule, q)
        return
    b = bodies[0]
    R = Resolver(b)
    site = q + '#no-underflow'
    bad = []
    n = 0
    for bb, j, st in b.stmts():
        rv = st.get('rv') or {}
        if st['k'] != 'assign' or rv.get('k') != 'binop' or rv['op'] not in ('Sub', 'SubWithOverflow', 'SubUnchecked') or st.get('exp'):
            continue
        ty = b.local_ty(st['place']['local']) or ''
        if not any(t in ty for t in ('usize', 'u8', 'u16', 'u32', 'u64', 'u128')):
            continue
        n += 1
        l, r = s_(R.operand(rv['l'], bb, j)), s_(R.operand(rv['r'], bb, j))
        guarded = False
        for op, x, y in cmp_facts(literals(b, R, bb)):
            x, y = s_(x), s_(y)
            if (op in ('Ge', 'Gt') and x == l and y == r) or (op in ('Le', 'Lt') and x == r and y == l):
                guarded = True
        if not guarded:
            bad.append(fmt(('bin', rv['op'], l, r))[:100])
    if bad:
        ctx.bad(rule, site, 'unsigned subtraction that can underflow (panics with overflow checks on, wraps to a huge value without): %s' % '; '.join(bad)[:240], b.span)
    else:
        ctx.ok(rule, site, 'no unguarded unsigned `-` (%d guarded, the others saturating / checked calls)' % n, b.span)


# ---------------------------------------------------------------------------------------------------------------- exported macros
MACRO_ARMS = {
    # fixture function: (macro arm as written by a user, sign of the matrix entries, sign of the bias entries, what the arm denotes)
    'aff_matrix_plus_vector': ('aff!([[..], ..] + [..])', +1, +1, 'f(x) = M x + c'),
    'aff_row_plus_scalar': ('aff!([..] + c)', +1, +1, 'f(x) = m x + c'),
    'poly_less': ('poly!([[..], ..] < [..])', +1, +1, '{x | M x <= b}'),
    'poly_plus_less_zero': ('poly!([[..], ..] + [..] < 0)', +1, -1, '{x | M x + c <= 0} = {x | M x <= -c}'),
    'poly_greater': ('poly!([[..], ..] > [..])', -1, -1, '{x | M x >= b} = {x | -M x <= -b}'),
    'poly_plus_greater_zero': ('poly!([[..], ..] + [..] > 0)', -1, +1, '{x | M x + c >= 0} = {x | -M x <= c}'),
}


def check_macro_arms(ctx, rule, names):
    """What every arm of the exported macros expands to, read off the MIR of a fixture crate that expands each arm once with parameters as
    entries (an exported `macro_rules!` arm no library code uses leaves no trace in the library's own MIR): the matrix handed to from_mats
    holds the entries in row-major order, the bias the vector's entries in order, each with the sign the arm's relation needs."""
    from ..mir import Facts, strip_sites as s_
    from .. import engine
    try:
        FX = Facts.load(engine.ensure_fixture_facts())
    except engine.BuildFailed as e:
        for n in names:
            ctx.undecided(rule, 'macro:' + n, 'the macro fixture no longer compiles against the tree (an arm changed its syntax?): %s' % str(e).strip().splitlines()[-1][:160])
        return
    for n in names:
        arm, sm, sb, what = MACRO_ARMS[n]
        site = 'macro:' + n
        b = FX.q(n)
        if b is None:
            ctx.lost(rule, 'fixture function ' + n)
            continue
        R = Resolver(b)
        params = [('param', p) for p in b.arg_names()]
        mats, vecs = [], []
        for bb, j, st in b.stmts():
            rv = st.get('rv') or {}
            if st['k'] == 'assign' and rv.get('k') == 'agg' and rv['agg']['k'] == 'array' and st['place']['proj']:
                e = s_(R.rvalue(rv, bb, j))
                (mats if e[2] and e[2][0][0] == 'agg' else vecs).append(e)
        rets = [x for _, x in R.return_expr()]
        if len(mats) != 1 or len(vecs) != 1 or len(rets) != 1 or not is_call(rets[0], 'AffFuncBase::from_mats'):
            ctx.undecided(rule, site, 'expansion of %s is not from_mats(matrix literal, vector literal)' % arm, b.span)
            continue

        def entry(e):
            """-> (sign, param) of `x as f64` / `-x as f64`"""
            sign = 1
            for _ in range(6):
                if e[0] == 'cast':
                    e = e[1]
                elif e[0] == 'un' and e[1] == 'Neg':
                    sign, e = -sign, e[2]
                elif is_call(e, 'Neg::neg') and len(e[2]) == 1:
                    sign, e = -sign, e[2][0]
                else:
                    break
            return sign, e
        m_entries = [entry(x) for row in mats[0][2] for x in row[2]]
        v_entries = [entry(x) for x in vecs[0][2]]
        nm = len(m_entries)
        problems = []
        if [p for _, p in m_entries] != params[:nm] or [p for _, p in v_entries] != params[nm:]:
            problems.append('the entries do not appear in the order they were written (row by row, then the vector)')
        if any(sg != sm for sg, _ in m_entries):
            problems.append('matrix entries carry sign %s, but %s needs %s' % (sorted({sg for sg, _ in m_entries}), what, '+' if sm > 0 else '-'))
        if any(sg != sb for sg, _ in v_entries):
            problems.append('vector entries carry sign %s, but %s needs %s' % (sorted({sg for sg, _ in v_entries}), what, '+' if sb > 0 else '-'))
        if problems:
            ctx.bad(rule, site, '%s: %s' % (arm, '; '.join(problems)), b.span)
        else:
            ctx.ok(rule, site, '%s expands to from_mats(%sM, %sv): %s' % (arm, '' if sm > 0 else '-', '' if sb > 0 else '-', what), b.span)


# ---------------------------------------------------------------------------------------------------------------- index guards
INDEX_PARAMS = {'row', 'axis', 'index', 'idx', 'clazz', 'class', 'neuron', 'component', 'left', 'right'}
DIM_PARAMS = {'dim', 'dimension', 'n', 'size', 'width'}


def check_index_guards(ctx, rule, qnames, dim_of=None, min_dim=None):
    """A constructor that takes an index and a dimension may guard the pair only with `index < dim`: every index below the dimension is a
    legal argument (a guard that fails for one of them turns a documented call into a panic), and an index equal to the dimension is not."""
    from ..mir import strip_sites as s_
    for q in qnames:
        bodies = [b for b in ctx.facts.bodies if b.qname == q]
        if not bodies:
            ctx.lost(rule, q)
            continue
        for b in bodies:
            R = Resolver(b)
            names = b.arg_names()
            idxs = [('param', n) for n in names if n in INDEX_PARAMS]
            dims = [('param', n) for n in names if n in DIM_PARAMS]
            # the dimension may be a property of self: `row < self.outdim()`; any *other* dimension getter of self in that place is the
            # wrong bound
            wrong_dims = []
            if dim_of and q in dim_of:
                good = ('call', dim_of[q], (('param', 'self'),))
                dims.append(good)
                wrong_dims = [('call', g, (('param', 'self'),)) for g in ('AffFuncBase::indim', 'AffFuncBase::outdim', 'AffFuncBase::n_constraints') if g != dim_of[q] and
                              not {g, dim_of[q]} == {'AffFuncBase::outdim', 'AffFuncBase::n_constraints'}]
            site = q + '#index-guard'
            if not idxs or not dims:
                ctx.undecided(rule, site, 'no (index, dimension) parameter pair found (%s)' % ', '.join(names), b.span)
                continue
            bad, n = [], 0
            for bb, e in R.return_expr():
                for op, x, y in cmp_facts(literals(b, R, bb)):
                    x, y = s_(x), s_(y)
                    while x[0] == 'cast':
                        x = x[1]
                    while y[0] == 'cast':
                        y = y[1]
                    if (x in idxs and y in wrong_dims) or (y in idxs and x in wrong_dims):
                        bad.append('an index compared with the wrong dimension of self')
                        n += 1
                        continue
                    if x in idxs and y in dims:
                        rel = op
                    elif y in idxs and x in dims:
                        rel = {'Lt': 'Gt', 'Gt': 'Lt', 'Le': 'Ge', 'Ge': 'Le'}.get(op, op)
                        x, y = y, x
                    else:
                        continue
                    n += 1
                    if rel != 'Lt':
                        bad.append('%s %s %s' % (x[1], {'Le': '<=', 'Gt': '>', 'Ge': '>=', 'Eq': '==', 'Ne': '!='}.get(rel, rel), y[1]))
            # a lower bound on the dimension itself (`dim >= 2`): the smallest documented dimension must pass it
            if min_dim and q in min_dim:
                import operator
                OPF = {'Lt': operator.lt, 'Le': operator.le, 'Gt': operator.gt, 'Ge': operator.ge, 'Eq': operator.eq, 'Ne': operator.ne}
                for bb, e in R.return_expr():
                    for op, x, y in cmp_facts(literals(b, R, bb)):
                        x, y = s_(x), s_(y)
                        if x in dims and y[0] == 'const' and isinstance(y[1], int) and not isinstance(y[1], bool):
                            if not OPF[op](min_dim[q], y[1]):
                                bad.append('%s %s %s (dimension %d is legal)' % (x[1], op, y[1], min_dim[q]))
                        elif y in dims and x[0] == 'const' and isinstance(x[1], int) and not isinstance(x[1], bool):
                            if not OPF[op](x[1], min_dim[q]):
                                bad.append('%s %s %s (dimension %d is legal)' % (x[1], op, y[1], min_dim[q]))
            if bad:
                ctx.bad(rule, site, 'the result is only built under %s: the legal arguments are exactly the indices below the dimension' % ', '.join(sorted(set(bad))), b.span)
            else:
                ctx.ok(rule, site, 'every guard on an (index, dimension) pair is `index < dim` (%d found)' % n, b.span)


def check_loop_exhaustive(ctx, rule, q, site_suffix, what):
    """The main loop of `q` (the outermost loop driven by an iterator's `next`) is left only when that iterator is exhausted: a `break` or
    an early return inside it leaves the remaining items unprocessed."""
    bodies = [b for b in ctx.facts.bodies if b.qname == q]
    if len(bodies) != 1:
        ctx.lost(rule, q)
        return
    b = bodies[0]
    R = Resolver(b)
    cfg = b.cfg()
    site = q + site_suffix
    hdrs = [h for h in cfg.loop_headers() if isinstance(h, int)]
    if not hdrs:
        ctx.undecided(rule, site, 'no loop found', b.span)
        return
    h = max(hdrs, key=lambda x: len(cfg.loop_of(x)))
    exits = cfg.loop_exits(h)

    def exhausted(e):
        tgt = e[1]
        lits_ = literals(b, R, tgt) if isinstance(tgt, int) else []
        return any(l[0] == 'is' and len(l) > 2 and set(l[2]) == {'None'} and is_call(l[1], 'Iterator::next', 'DfsPre::next', 'Bfs::next', 'DfsEdge::next', 'PolyhedraGen::next')
                   for l in lits_)
    # error exits (`?` on a fallible step) are fine: the function then fails as a whole
    def is_error_return(e):
        tgt = e[1]
        if not isinstance(tgt, int):
            return False
        for bb_, x in R.return_expr():
            pass
        lits_ = literals(b, R, tgt)
        return any(l[0] == 'is' and len(l) > 2 and set(l[2]) <= {'Err', 'Break'} for l in lits_)
    bad = [e for e in exits if not exhausted(e) and not is_error_return(e)]
    if not exits or bad:
        ctx.bad(rule, site, 'the loop can be left before its iterator is exhausted (%d of %d exits): %s' % (len(bad), len(exits), what), b.span)
    else:
        ctx.ok(rule, site, 'the loop ends only when its iterator is exhausted (or the function fails)', b.span)


def check_interval_guard(ctx, rule, q, lo, hi):
    """parameters `lo`, `hi` are inclusive bounds: a precondition on the pair may reject lo > hi only (lo == hi is legal)"""
    from ..mir import strip_sites as s_
    bodies = [b for b in ctx.facts.bodies if b.qname == q]
    if len(bodies) != 1:
        ctx.lost(rule, q)
        return
    b = bodies[0]
    R = Resolver(b)
    LO, HI = ('param', lo), ('param', hi)
    strict = False
    for bb, e in R.return_expr():
        for op, x, y in cmp_facts(literals(b, R, bb)):
            x, y = s_(x), s_(y)
            if (op == 'Lt' and x == LO and y == HI) or (op == 'Gt' and x == HI and y == LO) or (op == 'Ne' and {x, y} == {LO, HI}):
                strict = True
    site = q + '#interval-guard'
    if strict:
        ctx.bad(rule, site, 'the result is only built under %s < %s: equal bounds (inclusive on both sides) are rejected' % (lo, hi), b.span)
    else:
        ctx.ok(rule, site, 'equal bounds are admitted (any precondition on (%s, %s) is non-strict)' % (lo, hi), b.span)

"""C14 — polytope constructors and transformations are set-exact (exact arithmetic, structural part)."""
from ..mir import Callee, Resolver, fmt, literals, walk, strip_sites as s
from ..kernel import Kernel, Poly, Block, Aff, symaff, OutOfFragment, kernel_return, kernel_return_soft
from . import prune
from ..effects import assigns
from . import helpers
from .prune import is_call
from .c16 import obligation

LEVEL = 'proof'
TECHNIQUE = 'static analysis: value numbering of MIR def-use DAGs to non-commutative polynomial normal forms, compared with the documented residual identity (nothing executed)'
RULES = {
    'C14.R7': 'axis_bounds accepts exactly the axes below the dimension: a guard on (axis, dim) is `axis < dim`',
    'C14.R6': 'every arm of the exported macro poly! builds the half-spaces its relation spells: <  keeps M and b, + c < 0 negates c, > negates both, + c > 0 negates M',
    'C14.R5': 'dimension guards of intersection / apply_pre / apply_post assert an equality the result needs',
    'C14.R4': helpers.RULE_TEXT,
    'C14.R1': 'residual identities r\'(x) = b\' - A\'x of translate / apply_pre / apply_post / rotate / intersection(_n) / distance_raw; contains = all(r >= -1e-8); distance divides row i of r by the norm of row i of A; no crate function reads array contents in memory order / through raw pointers or strides',
    'C14.R3': 'axis_bounds / hyperrectangle / place_axis_bounds: finite lower bound -x <= -l, finite upper bound x <= u, infinite bound 0 <= 1, one pair of rows per axis',
    'C14.R2': 'constructors without data-dependent control: unbounded (0·x <= 1), empty (0·x <= -1), hypercube (stack(I, -I) <= radius); cross_polytope (rows = all 2^dim sign vectors by the bit test, right-hand side 1); from_normal (hyperplane i has normal n_i and passes through p_i)',
}
FLOORS = {'C14.R7': 1, 'C14.R6': 4, 'C14.R5': 3, 'C14.R4': 3, 'C14.R1': 10, 'C14.R2': 5, 'C14.R3': 3}
EXPLANATION = ('With r(x) = b - Ax (membership: r(x) >= -1e-8 row-wise) each transformation\'s result (A\', b\') is compared, as a polynomial identity valid for all '
               'matrices, with the residual the documentation prescribes: translate r(x-d), apply_pre r(Mx+c), apply_post r(N(y-k)), rotate r(R^T y).')
DOES_NOT_DECIDE = ('simplex (its numeric constant), the orientation of from_normal (not documented; the boundary through p_i is decided), '
                   'equality of images for non-invertible arguments, tolerance effects')
TRUSTED = ['semantics of ndarray dot/+/-/neg/t/concatenate/eye/zeros/ones/from_elem as interpreted in affcheck/kernel.py']


def run(ctx):
    helpers.run_for(ctx)
    prune.check_index_guards(ctx, 'C14.R7', ['AffFuncBase::axis_bounds'])
    prune.check_macro_arms(ctx, 'C14.R6', ['poly_less', 'poly_plus_less_zero', 'poly_greater', 'poly_plus_greater_zero'])
    prune.check_dimension_guards(ctx, 'C14.R5', ['AffFuncBase::intersection', 'AffFuncBase::apply_pre', 'AffFuncBase::apply_post'])
    prune.check_layout_independence(ctx, 'C14.R1')
    F = ctx.facts
    poly = lambda b: 'PolytopeT' in (b.impl_self or '')
    # residual of the result at a symbolic point y must equal the documented pre-image residual
    y = Poly.atom('y')
    def residual(a, pt):
        return a.bias - a.mat * pt
    def resid_obl(q, pre):
        def spec(env):
            return None
        bodies = [b for b in F.qs(q) if poly(b)]
        if len(bodies) != 1:
            ctx.lost('C14.R1', q)
            return
        b = bodies[0]
        try:
            R, ret = kernel_return(F, b)
            env = {}
            for n in b.arg_names():
                env[n] = symaff(n) if n in ('self', 'other', 'func') else Poly.atom(n)
            got = Kernel(F).ev(ret, env)
            if not isinstance(got, Aff):
                raise OutOfFragment('result is not a (matrix, bias) pair')
            lhs = residual(got, y)
            rhs = pre(env)
            if lhs == rhs:
                ctx.ok('C14.R1', q, "b' - A'y  ==  %r" % (rhs,), b.span)
            else:
                ctx.bad('C14.R1', q, "residual identity broken: b' - A'y = %r but the documented pre-image gives %r" % (lhs, rhs), b.span)
        except OutOfFragment as e:
            ctx.undecided('C14.R1', q, 'OUT-OF-FRAGMENT: %s' % e, b.span)
    S = lambda e: e['self']
    # x in translate(d) iff x - d in P :  r'(y) = r(y - d)
    resid_obl('AffFuncBase::translate', lambda e: S(e).bias - S(e).mat * (y - e['direction']))
    # x in apply_pre(f) iff f(x) in P :  r'(y) = r(M y + c)
    resid_obl('AffFuncBase::apply_pre', lambda e: S(e).bias - S(e).mat * (e['func'].mat * y + e['func'].bias))
    # apply_post(N, k): image under y = N^-1 x + k :  r'(y) = r(N (y - k))
    resid_obl('AffFuncBase::apply_post', lambda e: S(e).bias - S(e).mat * (e['inverse_mat'] * (y - e['bias'])))
    # rotate(R): image under x -> R x, R orthogonal :  r'(y) = r(R^T y)
    resid_obl('AffFuncBase::rotate', lambda e: S(e).bias - S(e).mat * (e['orthogonal_mat'].T() * y))
    obligation(ctx, 'C14.R1', F, 'AffFuncBase::intersection',
               lambda e: Aff(Block([e['self'].mat, e['other'].mat]), Block([e['self'].bias, e['other'].bias])), impl_filter=poly)
    obligation(ctx, 'C14.R1', F, 'AffFuncBase::distance_raw', lambda e: e['self'].bias - e['self'].mat * e['point'], impl_filter=poly)
    intersection_n(ctx, F)
    contains(ctx, F)
    distance(ctx, F)
    axis_bounds(ctx, F)
    # constructors
    one = Poly.atom('𝟙')
    obligation(ctx, 'C14.R2', F, 'AffFuncBase::unbounded', lambda e: Aff(Poly.zero(), one), impl_filter=poly)
    obligation(ctx, 'C14.R2', F, 'AffFuncBase::empty', lambda e: Aff(Poly.zero(), -one), impl_filter=poly)
    cross_polytope(ctx, F)
    from_normal(ctx, F)
    b = ctx.body('C14.R2', 'AffFuncBase::hypercube')
    if b is not None:
        R, ret = kernel_return_soft(F, b)
        got = Kernel(F).ev(ret[2][0], {}) if is_call(ret, 'AffFuncBase::from_mats') else None
        bias = ret[2][1] if is_call(ret, 'AffFuncBase::from_mats') else None
        okm = got == Block([Poly.const(1), -Poly.const(1)])
        okb = bias is not None and is_call(bias, 'ArrayBase::from_elem') and bias[2][1] == ('param', 'radius')
        (ctx.ok if okm and okb else ctx.bad)('C14.R2', 'AffFuncBase::hypercube', 'stack(I, -I) x <= radius (all rows)' if okm and okb else
                                             'hypercube is not stack(I, -I) <= radius: %s' % fmt(ret)[:200], b.span)


def cross_polytope(ctx, F):
    """{x : sum |x_j| <= 1} = { s·x <= 1 for every sign vector s in {+1,-1}^dim }.  The generator starts from the all-ones system with 2^dim rows
    and sets entry [i, j] to -1 exactly when bit j of i is set (or exactly when it is clear): i -> row i is then a bijection between
    0..2^dim and the sign vectors, so the rows are all of them, once each."""
    from ..effects import assigns
    b = ctx.body('C14.R2', 'AffFuncBase::cross_polytope')
    if b is None:
        return
    site = 'AffFuncBase::cross_polytope'
    R = Resolver(b)
    rets = [e for _, e in R.return_expr()]
    if len(rets) != 1 or not is_call(rets[0], 'AffFuncBase::from_mats'):
        ctx.undecided('C14.R2', site, 'result is not one from_mats(mat, bias)', b.span)
        return
    M, B = rets[0][2]
    DIM = ('param', 'dim')

    def pow2(e):
        e = s(e)
        isdim = lambda d: d == DIM or (d[0] == 'cast' and d[1] == DIM)
        if is_call(e, 'usize::pow') and e[2][0] == ('const', 2) and isdim(e[2][1]):
            return True
        if e[0] == 'bin' and e[1] == 'Shl' and e[2] == ('const', 1) and isdim(e[3]):
            return True
        return False
    problems = []
    if not (is_call(M, 'ArrayBase::ones') and s(M[2][0])[0] == 'agg' and len(s(M[2][0])[2]) == 2 and pow2(s(M[2][0])[2][0]) and s(M[2][0])[2][1] == DIM):
        ctx.undecided('C14.R2', site, 'the matrix does not start as ones((2^dim, dim)): %s' % fmt(s(M))[:100], b.span)
        return
    if not (is_call(B, 'ArrayBase::ones') and pow2(B[2][0])):
        problems.append('the right-hand side is not 1 for each of the 2^dim rows (%s)' % fmt(s(B))[:80])
    ws = [w for w in assigns(b, R)]

    def rng(e, hi_pred):
        return is_call(e, 'Iterator::next') and e[2][0][0] == 'agg' and e[2][0][1][:2] == ('adt', 'Range') and e[2][0][2][0] == ('const', 0) and hi_pred(e[2][0][2][1])

    def cell(t):
        """(i, j) of the matrix entry written, when the write sweeps every entry of M: explicit indices over 0..2^dim x 0..dim, the
        enumerated rows and their enumerated entries, or indexed_iter_mut"""
        t = s(t)
        if is_call(t, 'IndexMut::index_mut') and t[2][0] == s(M):
            idx = t[2][1]
            idx = idx[2] if idx[0] == 'agg' and idx[1] == 'array' else ()
            if len(idx) == 2 and rng(idx[0], pow2) and rng(idx[1], lambda h: h == DIM):
                return idx[0], idx[1]
            return None
        if t[0] == 'field' and t[2] == '1' and is_call(t[1], 'Iterator::next'):
            src = t[1][2][0]
            if is_call(src, 'ArrayBase::indexed_iter_mut') and src[2][0] == s(M):
                pos = ('field', t[1], '0')
                return ('field', pos, '0'), ('field', pos, '1')
            if is_call(src, 'Iterator::enumerate', 'enumerate'):
                inner = src[2][0]
                while is_call(inner, 'ArrayBase::iter_mut', 'IntoIterator::into_iter') and inner[2]:
                    inner = inner[2][0]
                if inner[0] == 'field' and inner[2] == '1' and is_call(inner[1], 'Iterator::next') and is_call(inner[1][2][0], 'Iterator::enumerate', 'enumerate'):
                    rows_ = inner[1][2][0][2][0]
                    if is_call(rows_, 'ArrayBase::outer_iter_mut', 'ArrayBase::rows_mut', 'ArrayBase::axis_iter_mut') and rows_[2][0] == s(M) and \
                            (not is_call(rows_, 'ArrayBase::axis_iter_mut') or rows_[2][1][2] == (('const', 0),)):
                        return ('field', inner[1], '0'), ('field', t[1], '0')
        return None
    mw = [w for w in ws if cell(w.target) is not None]
    other = [w for w in ws if w not in mw and any(s(x) in (s(M), s(B)) for x in walk(w.target))]
    if other:
        problems.append('the system is written by something other than the sign sweep')
    if len(mw) != 1:
        ctx.undecided('C14.R2', site, 'expected exactly one conditional sign write sweeping the matrix, found %d' % len(mw), b.span)
        return
    w = mw[0]
    ci, cj = cell(w.target)
    v = s(w.value)
    val_ok = v in (('call', 'Neg::neg', (('call', 'One::one', ()),)), ('const', -1.0), ('un', 'Neg', ('call', 'One::one', ())), ('un', 'Neg', ('const', 1.0)))
    idx_ok = True
    lits = [l for l in literals(b, R, w.bb)]
    bit = []
    rest = []
    for l in lits:
        if l[0] == 'is' and is_call(l[1], 'Iterator::next'):
            continue
        if l[0] == 'true' and l[1][0] == 'bin' and l[1][1] == 'Lt' and s(l[1][3]) == ('const', 64):
            continue   # the shift's overflow check
        e = s(l[1]) if l[0] in ('true', 'false') else None
        if e is not None and e[0] == 'bin' and e[1] in ('Ne', 'Eq') and e[3] == ('const', 0):
            x = e[2]
            a_, b_ = (x[2] if is_call(x, 'BitAnd::bitand') else (x[2], x[3]) if x[0] == 'bin' and x[1] == 'BitAnd' else (None, None))
            if a_ is not None:
                sh = lambda y, j: (y[0] == 'bin' and y[1] == 'Shl' and y[2] == ('const', 1) and y[3] == j) or (is_call(y, 'Shl::shl') and y[2] == (('const', 1), j))
                if (a_ == ci and sh(b_, cj)) or (b_ == ci and sh(a_, cj)):
                    bit.append(l)
                    continue
        rest.append(l)
    if not val_ok:
        problems.append('the entry written is not -1 (%s)' % fmt(v)[:60])
    if not idx_ok:
        problems.append('the sign write does not range over every row i < 2^dim and every column j < dim')
    if len(bit) != 1 or rest:
        problems.append('the sign of entry [i, j] is not decided by bit j of i alone (guards: %s)' % '; '.join(fmt(s(l[1]))[:60] for l in lits if l[0] in ('true', 'false'))[:200])
    if problems:
        for p_ in problems:
            ctx.bad('C14.R2', site, p_, b.span)
    else:
        ctx.ok('C14.R2', site, 'rows = all 2^dim sign vectors (entry [i, j] = -1 iff bit j of i), right-hand side 1: {x : sum|x_j| <= 1}', b.span)


def from_normal(ctx, F):
    """Hesse normal form: the boundary of half-space i is the hyperplane with normal n_i through p_i, i.e. row i of the result is
    (c·n_i) x <= c·(n_i·p_i) with one sign c for the row and its right-hand side."""
    b = ctx.body('C14.R2', 'AffFuncBase::from_normal')
    if b is None:
        return
    site = 'AffFuncBase::from_normal'
    R = Resolver(b)
    rets = [s(e) for _, e in R.return_expr()]
    if len(rets) != 1 or not is_call(rets[0], 'AffFuncBase::from_mats'):
        ctx.undecided('C14.R2', site, 'result is not one from_mats(mat, bias)', b.span)
        return
    M, B = rets[0][2]
    N, P = ('param', 'normal_vectors'), ('param', 'points')

    def signed(e):
        neg = False
        while is_call(e, 'Neg::neg') or (e[0] == 'un' and e[1] == 'Neg'):
            e = e[2][0] if e[0] == 'call' else e[2]
            neg = not neg
        return neg, e
    nm, m = signed(M)
    nb, bv = signed(B)
    dots = is_call(bv, 'ArrayBase::sum_axis') and s(bv[2][1])[2] == (('const', 1),) and is_call(bv[2][0], 'Mul::mul') and sorted(map(str, bv[2][0][2])) == sorted(map(str, (N, P)))
    if m != N or not dots:
        ctx.undecided('C14.R2', site, 'not (±normal_vectors, ±rowwise dot(normal_vectors, points)): %s' % fmt(rets[0])[:160], b.span)
    elif nm != nb:
        ctx.bad('C14.R2', site, 'the matrix and the right-hand side carry different signs: the boundary of half-space i passes through -p_i, not p_i', b.span)
    else:
        ctx.ok('C14.R2', site, 'row i: %sn_i · x <= %sn_i · p_i — the bounding hyperplane of every half-space has normal n_i and passes through p_i (inside: n_i·(x - p_i) %s 0)' %
               ('-' if nm else '', '-' if nm else '', '>=' if nm else '<='), b.span)


def _row_table(b, R, IDX, AXIS, LOWER, UPPER, MAT, BIAS):
    """problems of the bound-placing code in body b: row IDX is -x_AXIS <= -LOWER (0 <= 1 if LOWER is infinite), row IDX+1 is x_AXIS <= UPPER (0 <= 1 if infinite)"""
    from ..effects import assigns
    one = lambda e: is_call(e, 'One::one')
    negone = lambda e: is_call(e, 'Neg::neg') and one(e[2][0])
    rows = {}
    for w in assigns(b, R):
        tg = w.target
        if not is_call(tg, 'IndexMut::index_mut'):
            continue
        arr, idx = tg[2]
        lits = literals(b, R, w.bb)
        inf = [(l[0], l[1][2][0]) for l in lits if is_call(l[1], 'Float::is_infinite')]
        if len(inf) != 1:
            continue
        which = 'lower' if s(inf[0][1]) == s(LOWER) else ('upper' if s(inf[0][1]) == s(UPPER) else fmt(inf[0][1]))
        arrn = 'mat' if s(arr) == s(MAT) else ('bias' if s(arr) == s(BIAS) else fmt(arr))
        rows[(which, inf[0][0] == 'true', arrn)] = (idx, w.value)

    def unchk(x):
        return x[1] if (x[0] == 'field' and x[2] == '0' and x[1][0] == 'bin') else x

    def row_is(idx, plus1):
        x = unchk(idx)
        if plus1:
            if IDX[0] == 'const' and x == ('const', IDX[1] + 1):
                return True
            return x[0] == 'bin' and x[1].startswith('Add') and s(x[2]) == s(IDX) and x[3] == ('const', 1)
        return s(idx) == s(IDX) or s(x) == s(unchk(IDX))
    problems = []
    for bound, plus1, coef_ok, bias_fin in (('lower', False, negone, lambda v: is_call(v, 'Neg::neg') and s(v[2][0]) == s(LOWER)),
                                             ('upper', True, one, lambda v: s(v) == s(UPPER))):
        inf_b = rows.get((bound, True, 'bias'))
        fin_m = rows.get((bound, False, 'mat'))
        fin_b = rows.get((bound, False, 'bias'))
        if not (inf_b and row_is(inf_b[0], plus1) and one(inf_b[1]) and (bound, True, 'mat') not in rows):
            problems.append('infinite %s bound is not the tautology row 0 <= 1' % bound)
        if not (fin_m and fin_m[0][0] == 'agg' and row_is(fin_m[0][2][0], plus1) and s(fin_m[0][2][1]) == s(AXIS) and coef_ok(fin_m[1])):
            problems.append('finite %s bound does not put %s at [row, axis]' % (bound, '-1' if bound == 'lower' else '+1'))
        if not (fin_b and row_is(fin_b[0], plus1) and bias_fin(fin_b[1])):
            problems.append('finite %s bound does not use %s as right-hand side' % (bound, '-lower' if bound == 'lower' else 'upper'))
    return problems


def axis_bounds(ctx, F):
    """place_axis_bounds: per bound one row; a finite lower bound l is -x_axis <= -l, a finite upper bound u is x_axis <= u,
    an infinite bound is the tautology 0 <= 1; axis_bounds / hyperrectangle start from all-zero rows."""
    P = lambda n: ('param', n)
    b = F.q('AffFuncBase::place_axis_bounds')
    helper_ok = None
    if b is not None:
        R = Resolver(b)
        an = b.arg_names()   # by position (private helper: its parameter names are free to change): (first row, mat, bias, axis, lower, upper)
        problems = _row_table(b, R, P(an[0]), P(an[3]), P(an[4]), P(an[5]), P(an[1]), P(an[2])) if len(an) == 6 else ['unexpected parameter list']
        ROLES = (0, 1, 2, 3, 4, 5)   # positions of (first row, mat, bias, axis, lower, upper) in the helper's parameter list
        if problems and len(an) == 6:
            # the parameters of a private helper may also be reordered: the roles are whatever assignment makes the row table hold
            from itertools import permutations
            for perm in permutations(range(6)):
                if perm == (0, 1, 2, 3, 4, 5):
                    continue
                pr = _row_table(b, R, P(an[perm[0]]), P(an[perm[3]]), P(an[perm[4]]), P(an[perm[5]]), P(an[perm[1]]), P(an[perm[2]]))
                if not pr:
                    problems, ROLES = [], perm
                    break
        helper_ok = not problems
        if problems:
            for p_ in problems:
                ctx.bad('C14.R3', 'AffFuncBase::place_axis_bounds#rows', p_, b.span)
        else:
            ctx.ok('C14.R3', 'AffFuncBase::place_axis_bounds#rows', 'row idx: -x_axis <= -lower (or 0 <= 1 if lower is infinite); row idx+1: x_axis <= upper (or 0 <= 1)', b.span)
            # the interval guard: bounds are inclusive, so lower == upper (a flat side, a point) is a legal interval -- a precondition on the
            # two bounds may reject lower > upper only
            lo, up = P(an[ROLES[4]]), P(an[ROLES[5]])
            strict = []
            n_writes = 0
            for w in assigns(b, R):
                n_writes += 1
                for op, x, y in prune.cmp_facts(literals(b, R, w.bb)):
                    x, y = s(x), s(y)
                    if (op == 'Lt' and x == lo and y == up) or (op == 'Gt' and x == up and y == lo) or (op == 'Ne' and {x, y} == {lo, up}):
                        strict.append(op)
            if strict:
                ctx.bad('C14.R3', 'AffFuncBase::place_axis_bounds#interval-guard', 'the rows are only written under lower < upper: an interval with equal bounds (inclusive on both sides) is rejected', b.span)
            elif n_writes:
                ctx.ok('C14.R3', 'AffFuncBase::place_axis_bounds#interval-guard', 'equal bounds are admitted (any precondition on the pair is non-strict)', b.span)
    for q, want in (('AffFuncBase::axis_bounds', 'single'), ('AffFuncBase::hyperrectangle', 'loop')):
        c = ctx.body('C14.R3', q)
        if c is None:
            continue
        Rc = Resolver(c)
        calls_ = [(bb, Rc.call_args(bb)) for bb, t in c.calls_to('AffFuncBase::place_axis_bounds')]
        rets = [e for _, e in Rc.return_expr()]
        ok = len(calls_) == 1 and len(rets) == 1 and is_call(rets[0], 'AffFuncBase::from_mats')
        if not calls_ and len(rets) == 1 and is_call(rets[0], 'AffFuncBase::from_mats') and want == 'single':
            # the bounds are placed in the body itself (no helper call): the same row table with row 0 and the function's own parameters
            m_, b__ = rets[0][2]
            probs = _row_table(c, Rc, ('const', 0), P('axis'), P('lower_bound'), P('upper_bound'), m_, b__) if is_call(m_, 'ArrayBase::zeros') and is_call(b__, 'ArrayBase::zeros') else ['not an all-zero system']
            (ctx.ok if not probs else ctx.bad)('C14.R3', q, 'all-zero system + rows 0/1 placed in the body: -x_axis <= -lower, x_axis <= upper (0 <= 1 for infinite bounds)' if not probs else
                                                '%s does not place the bounds on rows 0/1 of an all-zero system: %s' % (q, '; '.join(probs)), c.span)
            continue
        if ok:
            a = calls_[0][1]
            a = [a[ROLES[k]] for k in range(6)] if (b is not None and len(a) == 6) else a   # arguments by role
            ok = s(a[1]) == s(rets[0][2][0]) and s(a[2]) == s(rets[0][2][1]) and is_call(a[1], 'ArrayBase::zeros') and is_call(a[2], 'ArrayBase::zeros')
            if want == 'single':
                ok = ok and a[0] == ('const', 0) and a[3] == ('param', 'axis') and a[4] == ('param', 'lower_bound') and a[5] == ('param', 'upper_bound')
            else:
                item = [x for x in walk(a[3]) if is_call(x, 'Iterator::next')]
                ok = ok and bool(item) and a[3] == ('field', item[0], '0') and a[4] == ('field', ('field', item[0], '1'), '0') and a[5] == ('field', ('field', item[0], '1'), '1')
                r0 = a[0][1] if (a[0][0] == 'field' and a[0][2] == '0') else a[0]
                ok = ok and r0[0] == 'bin' and r0[1].startswith('Mul') and r0[2] == ('const', 2) and r0[3] == a[3]
            # the system has one pair of rows per axis and one column per axis: 2 x 1 for axis_bounds(dim..) is (2, dim); hyperrectangle of n
            # intervals is (2n, n) with 2n bias entries
            if ok:
                def twice(e, n):
                    e = s(e)
                    e = e[1] if (e[0] == 'field' and e[2] == '0') else e
                    return e[0] == 'bin' and e[1].startswith('Mul') and {e[2], e[3]} == {('const', 2), n}
                msh, bsh = s(a[1][2][0]), s(a[2][2][0])
                if want == 'single':
                    ok = msh == ('agg', 'tuple', (('const', 2), ('param', 'dim'))) and bsh == ('const', 2)
                else:
                    n_ = msh[2][1] if (msh[0] == 'agg' and msh[1] == 'tuple' and len(msh[2]) == 2) else None
                    ok = n_ is not None and (is_call(n_, '[T]::len', 'Vec::len') or n_[0] == 'param') and twice(msh[2][0], n_) and twice(bsh, n_)
        (ctx.ok if ok else ctx.bad)('C14.R3', q, 'all-zero system + place_axis_bounds(%s)' % ('row 0, axis, lower, upper' if want == 'single' else 'row 2i, axis i, interval i for every i') if ok else
                                    '%s does not place the bounds of each axis on its own pair of rows of an all-zero system' % q, c.span)


def intersection_n(ctx, F):
    b = ctx.body('C14.R1', 'AffFuncBase::intersection_n')
    if b is None:
        return
    R = Resolver(b)
    rets = [e for _, e in R.return_expr()]
    alts = rets[0][2] if rets and rets[0][0] == 'phi' else tuple(rets)
    K = Kernel(F)
    ok_main = False
    ok_empty = False
    for a in alts:
        if is_call(a, 'AffFuncBase::unbounded') and a[2][0] == ('param', 'dim'):
            # only under polys.is_empty()
            ok_empty = True
        elif is_call(a, 'AffFuncBase::from_mats'):
            try:
                got = K.ev(a, {'polys': Poly.atom('polys')})
                if got == Aff(Poly.atom('polys[*].mat'), Poly.atom('polys[*].bias')):
                    ok_main = True
            except OutOfFragment:
                pass
    # empty guard
    guard = False
    for i, j, st in b.stmts():
        pass
    for bb, t in b.calls_to('AffFuncBase::unbounded'):
        lits = literals(b, R, bb)
        guard = any(l[0] == 'true' and is_call(l[1], '[T]::is_empty') and l[1][2][0] == ('param', 'polys') for l in lits)
    if ok_main and ok_empty and guard:
        ctx.ok('C14.R1', 'AffFuncBase::intersection_n', 'concat of every operand\'s matrix / bias in sequence order along axis 0; the empty intersection is the whole space', b.span)
    else:
        ctx.bad('C14.R1', 'AffFuncBase::intersection_n', 'intersection_n is not the row-wise concatenation of all operands in one order (main=%s empty=%s guard=%s)' % (ok_main, ok_empty, guard), b.span)


def contains(ctx, F):
    b = ctx.body('C14.R1', 'AffFuncBase::contains')
    if b is None:
        return
    R, ret = kernel_return_soft(F, b)
    ok = is_call(ret, 'Iterator::all') and is_call(ret[2][0], 'AffFuncBase::distance_raw') and ret[2][0][2] == (('param', 'self'), ('param', 'point'))
    why = ''
    if ok:
        cb, crets = prune.closure_ret(F, ret[2][1])
        c = crets[0] if crets else None
        cmp = None
        if c is not None and c[0] == 'bin':
            cmp = (c[1], c[2], c[3])
        elif c is not None and c[0] == 'call' and c[1].startswith('PartialOrd::'):
            cmp = ({'ge': 'Ge', 'gt': 'Gt', 'le': 'Le', 'lt': 'Lt'}.get(c[1].split('::')[-1]), c[2][0], c[2][1])
        ok = cmp is not None and cmp[0] == 'Ge' and cmp[1][0] == 'param' and any(x == ('const', -1e-08) for x in walk(cmp[2]))
        why = fmt(c) if c else ''
    if not ok and not is_call(ret, 'Iterator::all'):
        # the same test written as a loop with an early `return false`: false exactly under a row that is not >= -1e-8, true when the rows
        # of distance_raw(self, point) are exhausted
        Rl = Resolver(b)
        falses, trues, other = [], [], []
        for bb, j, st in b.stmts():
            if st['k'] == 'assign' and st['place']['local'] == 0 and not st['place']['proj']:
                v = s(Rl.rvalue(st['rv'], bb, j))
                (falses if v == ('const', False) else trues if v == ('const', True) else other).append((bb, literals(b, Rl, bb)))

        def is_item(x):
            x = s(x)
            return is_call(x, 'Iterator::next') and any(is_call(y, 'AffFuncBase::distance_raw') and s(y[2]) == (('param', 'self'), ('param', 'point')) for y in walk(x))
        okf = bool(falses) and all(any(l[0] == 'false' and s(l[1])[0] == 'bin' and s(l[1])[1] == 'Ge' and is_item(s(l[1])[2]) and
                                       any(y == ('const', -1e-08) for y in walk(s(l[1])[3])) for l in lits) or
                                   any(l[0] == 'false' and is_call(s(l[1]), 'PartialOrd::ge') and is_item(s(l[1])[2][0]) and
                                       any(y == ('const', -1e-08) for y in walk(s(l[1])[2][1])) for l in lits) for _, lits in falses)
        okt = bool(trues) and all(any(l[0] == 'is' and len(l) > 2 and set(l[2]) == {'None'} and is_item(l[1]) for l in lits) for _, lits in trues)
        if okf and okt and not other:
            ok = True
    (ctx.ok if ok else ctx.bad)('C14.R1', 'AffFuncBase::contains', 'all rows of b - A·p are >= -1e-8' if ok else 'contains is not all(distance_raw >= -1e-8): %s' % why, b.span)


def distance(ctx, F):
    b = ctx.body('C14.R1', 'AffFuncBase::distance')
    if b is None:
        return
    R = Resolver(b)
    rets = [e for _, e in R.return_expr()]
    ok = len(rets) == 1 and is_call(rets[0], 'AffFuncBase::distance_raw') and rets[0][2] == (('param', 'self'), ('param', 'point'))
    # zip(self.mat.outer_iter(), raw.outer_iter_mut()): same row index; closure divides by the norm of that row
    zips = [R.call_args(bb) for bb, t in b.calls() if Callee(t['func']).name == 'zip']
    okz = any(is_call(z[0], 'ArrayBase::outer_iter') and z[0][2][0] == ('field', ('param', 'self'), 'mat') and
              ((is_call(z[1], 'ArrayBase::outer_iter_mut') and is_call(z[1][2][0], 'AffFuncBase::distance_raw')) or is_call(z[1], 'AffFuncBase::distance_raw')) for z in zips)
    norm_ok = False
    div_ok = False
    for cb in b.closure_bodies():
        Rc = Resolver(cb)
        for _, e in Rc.return_expr():
            if is_call(e, 'Float::powi') and e[2][1] == ('const', 2):
                norm_ok = True
        from ..effects import assigns
        for w in assigns(cb, Rc):
            if w.value[0] == 'bin' and w.value[1] == 'Div' and w.value[3] == ('upvar', 'norm'):
                div_ok = True
        for bb, t in cb.calls():
            if Callee(t['func']).name == 'div_assign' and any(x == ('upvar', 'norm') for x in walk(Rc.call_args(bb)[1])):
                div_ok = True
    sqrt = any(Callee(t['func']).name == 'sqrt' for bb, t in b.calls())
    direct_div = []
    for bb, t in b.calls():
        if Callee(t['func']).name == 'div_assign' and not t.get('exp'):
            a = R.call_args(bb)
            # `*dist /= norm` on the zipped element itself
            if a[0][0] == 'field' and a[0][2] == '1' and is_call(a[0][1], 'Iterator::next') and is_call(a[0][1][2][0], 'zip') and is_call(a[1], 'Float::sqrt', 'f64::sqrt'):
                direct_div.append(bb)
    if len(direct_div) == 1 and not div_ok:
        div_ok = True
        lits_d = [l for l in literals(b, R, direct_div[0]) if not (l[0] == 'is' and is_call(l[1], 'Iterator::next'))]
        direct_uncond = not lits_d
    else:
        direct_uncond = None
    if not norm_ok:
        # the norm in another spelling (dot product, accumulator loop / fold, a shared helper): it must be the norm of the zipped row of A
        from .prune import l2_norm_row
        from ..mir import strip_sites
        for bb, t in b.calls():
            if Callee(t['func']).name == 'sqrt':
                v = l2_norm_row(F, b, R, R.call_expr(t, bb))
                if v is not None and v[0] == 'field' and v[2] == '0' and is_call(v[1], 'Iterator::next') and is_call(v[1][2][0], 'zip') and \
                        is_call(v[1][2][0][2][0], 'ArrayBase::outer_iter') and v[1][2][0][2][0][2][0] == ('field', ('param', 'self'), 'mat'):
                    norm_ok = True
    # the division is applied to every row: the call that scales a row is not control-dependent on anything but the loop itself
    # (signed infinity for all-zero rows comes from IEEE division: +inf for 0 <= b, -inf for 0 <= -b)
    uncond = False
    for bb, t in b.calls():
        if Callee(t['func']).name == 'map_inplace':
            lits = [l for l in literals(b, R, bb) if not (l[0] == 'is' and is_call(l[1], 'Iterator::next'))]
            uncond = not lits
    div_ok = div_ok and (uncond if direct_uncond is None else direct_uncond)
    if ok and okz and norm_ok and div_ok and sqrt:
        ctx.ok('C14.R1', 'AffFuncBase::distance', 'row i of b - A·p divided by sqrt(sum of squares of row i of A)', b.span)
    else:
        ctx.bad('C14.R1', 'AffFuncBase::distance', 'distance is not (b - A·p)[i] / ||A[i]|| row by row (raw=%s zip=%s norm=%s div=%s sqrt=%s)' % (ok, okz, norm_ok, div_ok, sqrt), b.span)

"""C11 — pruning is fail-safe when the LP solver misbehaves (decided on the arms, no fault injection)."""
from ..mir import Callee, Resolver, fmt, literals, walk
from . import prune
from . import helpers
from .prune import is_call

LEVEL = 'proof'
RULES = {
    'C11.R7': 'the keep-one-branch fallback of the pruned composition (reached only when the LP wrongly let an empty node through) pairs each new node with the operand node it was copied from (shared with C02.R1)',
    'C11.R6': 'an "optimal" point outside the polytope is recognised by Polytope::contains: every row within the documented 1e-8 tolerance, on the raw (not normalised) distances (shared with C14.R1)',
    'C11.R5': 'the links, leaf flags and node set that stay well-formed when the LP misbehaves are what the arena mutators maintain as their effect contracts say (shared with C12.R2)',
    'C11.R4': helpers.RULE_TEXT,
    'C11.R1': 'status->verdict tables: Infeasible verdicts / false edges only in the PolytopeStatus::Infeasible arm (or cached Infeasible); '
              'PolytopeStatus::Infeasible only from the back-end\'s Err(Infeasible); Polytope::is_feasible (panics on Error) has no caller in pruning code',
    'C11.R2': 'fault arms (Unbounded, Error, Optimal-but-not-contained) of both LP consumers contain no panic site (panic!/assert!/unwrap/expect/indexing); '
              'neither does any arm that matches on a cached node state which only a fault arm produces (Feasible after an Unbounded answer)',
    'C11.R3': 'less pruning only: no removal and no cached witness can be produced from a fault arm (removal-site and witness-guard rules)',
}
FLOORS = {'C11.R7': 1, 'C11.R6': 3, 'C11.R5': 15, 'C11.R4': 6, 'C11.R1': 9, 'C11.R2': 6, 'C11.R3': 13}
EXPLANATION = ('The fault arms are unreachable with minilp, which is why no test executes them; they are examined directly: '
               'for every tree and every subset/position of faulty LP answers no fault arm can produce a removal, an Infeasible verdict, '
               'an unchecked witness or a panic.')
DOES_NOT_DECIDE = 'panics inside minilp/ndarray themselves'
PANIC_NAMES = {'panic', 'panic_fmt', 'panic_display', 'panic_explicit', 'assert_failed', 'begin_panic', 'unreachable_display',
               'unwrap_failed', 'expect_failed', 'panic_nounwind', 'panic_str', 'panic_bounds_check'}
UNWRAP_NAMES = {'unwrap', 'expect', 'unwrap_or_else', 'unwrap_unchecked'}


def fault_blocks(b, R):
    """Blocks of b that are only reachable under a faulty LP answer, with a description."""
    out = {}
    for i, bl in b.live_blocks():
        lits = literals(b, R, i)
        status = [l for l in lits if l[0] == 'is' and is_call(l[1], 'AffFuncBase::status')]
        if not status:
            continue
        v = set(status[0][2])
        if v and v <= {'Unbounded', 'Error'}:
            out[i] = '/'.join(sorted(v)) + ' arm'
        elif v == {'Optimal'}:
            # not contained
            for l in lits:
                if l[0] == 'false' and is_call(l[1], 'AffFuncBase::contains') and \
                        any(isinstance(x, tuple) and x[:1] == ('vfield',) and x[2] == 'Optimal' for x in walk(l[1][2][1])):
                    out[i] = 'Optimal-but-not-contained arm'
    return out


def r2(ctx):
    F = ctx.facts
    for q in ('AffTree::phase_two', 'AffTree::is_edge_feasible'):
        b = ctx.body('C11.R2', q)
        if b is None:
            continue
        R = Resolver(b)
        fb = fault_blocks(b, R)
        arms = sorted(set(fb.values()))
        if not fb:
            ctx.lost('C11.R2', 'fault arms of ' + q)
            continue
        bad = {}
        for i, descr in fb.items():
            bl = b.blocks[i]
            t = bl['term']
            if t['k'] == 'call':
                c = Callee(t['func'])
                # log macros format their arguments; their internals never panic on our data
                if c.name in PANIC_NAMES or (c.def_path or '').startswith('core::panicking') or (c.def_path or '').startswith('std::rt::begin_panic'):
                    bad.setdefault(descr, []).append(('panic call %s' % c.short, t['span']))
                elif c.name in UNWRAP_NAMES and not t['exp']:
                    bad.setdefault(descr, []).append(('%s on %s' % (c.name, fmt(R.call_args(i)[0])[:80]), t['span']))
                elif t['target'] is None:
                    bad.setdefault(descr, []).append(('diverging call %s' % c.short, t['span']))
            elif t['k'] == 'assert' and 'BoundsCheck' in t.get('msg', ''):
                bad.setdefault(descr, []).append(('indexing with bounds check', t['span']))
        for descr in arms:
            site = '%s#%s' % (q, descr.replace(' ', '-'))
            if descr in bad:
                for what, span in bad[descr]:
                    ctx.bad('C11.R2', site, 'panic site in a fault arm: %s' % what, span)
            else:
                n = sum(1 for v in fb.values() if v == descr)
                ctx.ok('C11.R2', site, 'no panic site in %d block(s) of this arm' % n, b.span)


def panic_sites(b, R, blocks):
    """panic sites (panic!/assert!/unreachable!/unwrap/expect/diverging call/indexing) in the given blocks: [(what, span)]"""
    out = []
    for i in blocks:
        t = b.blocks[i]['term']
        if t['k'] == 'call':
            c = Callee(t['func'])
            if c.name in PANIC_NAMES or (c.def_path or '').startswith('core::panicking') or (c.def_path or '').startswith('std::rt::begin_panic'):
                out.append(('panic call %s' % c.short, t['span']))
            elif c.name in UNWRAP_NAMES and not t['exp']:
                out.append(('%s on %s' % (c.name, fmt(R.call_args(i)[0])[:80]), t['span']))
            elif t['target'] is None:
                out.append(('diverging call %s' % c.short, t['span']))
        elif t['k'] == 'assert' and 'BoundsCheck' in t.get('msg', ''):
            out.append(('indexing with bounds check', t['span']))
    return out


def r2_fault_only_states(ctx):
    """A node state that only a fault arm produces (today: Feasible, cached after an Unbounded answer) is later read by the arms that match on
    cached states (of the node itself or of its parent).  An arm that is entered only with such states is reachable only under a solver
    fault (no fault-free run executes it) and must not contain a panic site.  Arms that also admit ordinary states are ordinary code."""
    F = ctx.facts
    adt = F.adt('NodeState')
    if adt is None:
        ctx.lost('C11.R2', 'NodeState')
        return
    variants = {v['name'] for v in adt['variants']}
    fault_only = set()
    built = {}
    for v in variants:
        for b, i, j, st in prune.constructions(F, 'NodeState', v):
            fb = fault_blocks(b, Resolver(b)) if b.qname in ('AffTree::phase_two', 'AffTree::is_edge_feasible') else {}
            built.setdefault(v, []).append(i in fb)
    for v, flags in built.items():
        if flags and all(flags):
            fault_only.add(v)
    if not fault_only:
        ctx.ok('C11.R2', 'NodeState#fault-only-states', 'no node state is produced only by fault arms', '')
        return
    n = 0
    for b in F.units():
        if b.kind == 'Closure' or b.impl_trait_base in ('Clone', 'Debug', 'PartialEq', 'Display'):
            continue
        if not (b.qname.startswith('AffTree::') or b.qname.startswith('NodeState::') or b.qname.startswith('AffContent::')):
            continue
        R = Resolver(b)
        arms = {}
        for i, bl in b.live_blocks():
            for l in literals(b, R, i):
                if l[0] == 'is' and l[2] and set(l[2]) <= fault_only:
                    arms.setdefault(tuple(sorted(l[2])), set()).add(i)
        for vs, blocks in sorted(arms.items()):
            n += 1
            site = '%s#state-arm:%s' % (b.qname, '|'.join(vs))
            ps = panic_sites(b, R, sorted(blocks))
            if ps:
                for what, span in ps:
                    ctx.bad('C11.R2', site, 'panic site in an arm entered with a state that only a solver fault produces (%s): %s' % ('/'.join(sorted(fault_only)), what), span)
            else:
                ctx.ok('C11.R2', site, 'no panic site in %d block(s) admitting %s' % (len(blocks), '/'.join(sorted(fault_only))), b.span)
    if n == 0:
        ctx.lost('C11.R2', 'arms matching on fault-only node states')


def r1_callers(ctx):
    F = ctx.facts
    target = ctx.body('C11.R1', 'AffFuncBase::is_feasible')
    if target is None:
        return
    n = 0
    for (b, bb, t) in F.callers_of(lambda c: c.name == 'is_feasible' and c.self_base == 'AffFuncBase'):
        n += 1
        ctx.bad('C11.R1', '%s#call:Polytope::is_feasible' % b.qname,
                'Polytope::is_feasible panics on PolytopeStatus::Error and must not be used by pruning code', t['span'])
    ctx.ok('C11.R1', 'AffFuncBase::is_feasible#callers', '%d callers in the non-test crate (who-may-call over %d bodies)' % (n, len(F.bodies)), target.span)


def run(ctx):
    helpers.run_for(ctx)
    helpers.share_from(ctx, 'c14', 'C11.R6', ['AffFuncBase::contains', 'AffFuncBase::distance'])
    helpers.share_arena_contracts(ctx, 'C11.R5')
    helpers.share_from(ctx, 'c02', 'C11.R7', ['AffTree::generic_composition_inplace#pairing'])
    prune.check_infeasible_provenance(ctx, 'C11.R1')
    prune.check_edge_feasible_table(ctx, 'C11.R1')
    r1_callers(ctx)
    from . import c10
    c10.r2_outcomes(ctx, 'C11.R1')  # a non-finite or mis-ordered 'Optimal' answer would be cached as a witness
    r2(ctx)
    r2_fault_only_states(ctx)
    prune.check_removals(ctx, 'C11.R3')
    prune.check_witness_guards(ctx, 'C11.R3')

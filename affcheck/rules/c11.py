"""C11 — pruning is fail-safe when the LP solver misbehaves (decided on the arms, no fault injection)."""
from ..mir import Callee, Resolver, fmt, literals, walk
from . import prune
from .prune import is_call

LEVEL = 'proof'
RULES = {
    'C11.R1': 'status->verdict tables: Infeasible verdicts / false edges only in the PolytopeStatus::Infeasible arm (or cached Infeasible); '
              'PolytopeStatus::Infeasible only from the back-end\'s Err(Infeasible); Polytope::is_feasible (panics on Error) has no caller in pruning code',
    'C11.R2': 'fault arms (Unbounded, Error, Optimal-but-not-contained) of both LP consumers contain no panic site (panic!/assert!/unwrap/expect/indexing)',
    'C11.R3': 'less pruning only: no removal and no cached witness can be produced from a fault arm (removal-site and witness-guard rules)',
}
FLOORS = {'C11.R1': 6, 'C11.R2': 5, 'C11.R3': 13}
EXPLANATION = ('The fault arms are unreachable with minilp, which is why no test executes them; they are examined directly: '
               'for every tree and every subset/position of faulty LP answers no fault arm can produce a removal, an Infeasible verdict, '
               'an unchecked witness or a panic.')
DOES_NOT_DECIDE = 'panics inside minilp/ndarray themselves'
PANIC_NAMES = {'panic', 'panic_fmt', 'panic_display', 'panic_explicit', 'assert_failed', 'begin_panic', 'unreachable_display',
               'unwrap_failed', 'expect_failed', 'panic_nounwind', 'panic_str', 'panic_bounds_check'}
UNWRAP_NAMES = {'unwrap', 'expect', 'unwrap_or_else', 'unwrap_unchecked'}


def fault_blocks(b, R):
    """Blocks of b that are only reachable under a faulty LP answer, with a description."""
    out = {}
    for i, bl in b.live_blocks():
        lits = literals(b, R, i)
        status = [l for l in lits if l[0] == 'is' and is_call(l[1], 'AffFuncBase::status')]
        if not status:
            continue
        v = set(status[0][2])
        if v and v <= {'Unbounded', 'Error'}:
            out[i] = '/'.join(sorted(v)) + ' arm'
        elif v == {'Optimal'}:
            # not contained
            for l in lits:
                if l[0] == 'false' and is_call(l[1], 'AffFuncBase::contains') and \
                        any(isinstance(x, tuple) and x[:1] == ('vfield',) and x[2] == 'Optimal' for x in walk(l[1][2][1])):
                    out[i] = 'Optimal-but-not-contained arm'
    return out


def r2(ctx):
    F = ctx.facts
    for q in ('AffTree::phase_two', 'AffTree::is_edge_feasible'):
        b = ctx.body('C11.R2', q)
        if b is None:
            continue
        R = Resolver(b)
        fb = fault_blocks(b, R)
        arms = sorted(set(fb.values()))
        if not fb:
            ctx.lost('C11.R2', 'fault arms of ' + q)
            continue
        bad = {}
        for i, descr in fb.items():
            bl = b.blocks[i]
            t = bl['term']
            if t['k'] == 'call':
                c = Callee(t['func'])
                # log macros format their arguments; their internals never panic on our data
                if c.name in PANIC_NAMES or (c.def_path or '').startswith('core::panicking') or (c.def_path or '').startswith('std::rt::begin_panic'):
                    bad.setdefault(descr, []).append(('panic call %s' % c.short, t['span']))
                elif c.name in UNWRAP_NAMES and not t['exp']:
                    bad.setdefault(descr, []).append(('%s on %s' % (c.name, fmt(R.call_args(i)[0])[:80]), t['span']))
                elif t['target'] is None:
                    bad.setdefault(descr, []).append(('diverging call %s' % c.short, t['span']))
            elif t['k'] == 'assert' and 'BoundsCheck' in t.get('msg', ''):
                bad.setdefault(descr, []).append(('indexing with bounds check', t['span']))
        for descr in arms:
            site = '%s#%s' % (q, descr.replace(' ', '-'))
            if descr in bad:
                for what, span in bad[descr]:
                    ctx.bad('C11.R2', site, 'panic site in a fault arm: %s' % what, span)
            else:
                n = sum(1 for v in fb.values() if v == descr)
                ctx.ok('C11.R2', site, 'no panic site in %d block(s) of this arm' % n, b.span)


def r1_callers(ctx):
    F = ctx.facts
    target = ctx.body('C11.R1', 'AffFuncBase::is_feasible')
    if target is None:
        return
    n = 0
    for (b, bb, t) in F.callers_of(lambda c: c.name == 'is_feasible' and c.self_base == 'AffFuncBase'):
        n += 1
        ctx.bad('C11.R1', '%s#call:Polytope::is_feasible' % b.qname,
                'Polytope::is_feasible panics on PolytopeStatus::Error and must not be used by pruning code', t['span'])
    ctx.ok('C11.R1', 'AffFuncBase::is_feasible#callers', '%d callers in the non-test crate (who-may-call over %d bodies)' % (n, len(F.bodies)), target.span)


def run(ctx):
    prune.check_infeasible_provenance(ctx, 'C11.R1')
    prune.check_edge_feasible_table(ctx, 'C11.R1')
    r1_callers(ctx)
    r2(ctx)
    prune.check_removals(ctx, 'C11.R3')
    prune.check_witness_guards(ctx, 'C11.R3')

"""C03 — pruning never changes the represented (partial) function."""
from . import prune

LEVEL = 'other'
RULES = {
    'C03.R1': 'every removal of a child outside impl Tree is control-dependent on an infeasibility verdict about that child '
              '(filtered by state Infeasible / queued under a fresh Infeasible state / false outcome of explore for the child just inserted), '
              'a decision is skipped only with one survivor and all other K-1 branches so justified',
    'C03.R2': 'Infeasible verdicts originate only in the PolytopeStatus::Infeasible arm; is_edge_feasible returns false only there or on a cached Infeasible; explore impls are const true or is_edge_feasible(parent, child)',
    'C03.R5': 'a removal must not leave a decision without children (shared with C04.R3)',
}
FLOORS = {'C03.R1': 9, 'C03.R2': 11, 'C03.R5': 5}
EXPLANATION = ('A path can disappear only after the LP back-end answered "infeasible" about exactly that path; '
               'decided structurally on every removal site, for all trees and inputs.')
DOES_NOT_DECIDE = 'whether the LP answer is right (C10), tolerance effects'


def run(ctx):
    prune.check_removals(ctx, 'C03.R1')
    prune.check_infeasible_provenance(ctx, 'C03.R2')
    prune.check_edge_feasible_table(ctx, 'C03.R2')
    prune.check_explore_impls(ctx, 'C03.R2')
    prune.check_childless(ctx, 'C03.R5')

"""C03 — pruning never changes the represented (partial) function."""
from . import prune
from . import helpers

LEVEL = 'other'
RULES = {
    'C03.R8': 'the path polytope a pruning decision is taken on is the conjunction of the path conditions: label 1 contributes the predicate, label 0 its negation (shared with C09.R1)',
    'C03.R7': 'the links, leaf flags and node set this property reads are what the arena mutators maintain as their effect contracts say (shared with C12.R2)',
    'C03.R6': helpers.RULE_TEXT,
    'C03.R1': 'every removal of a child outside impl Tree is control-dependent on an infeasibility verdict about that child '
              '(filtered by state Infeasible / queued under a fresh Infeasible state / false outcome of explore for the child just inserted), '
              'a decision is skipped only with one survivor and all other K-1 branches so justified',
    'C03.R2': 'Infeasible verdicts originate only in the PolytopeStatus::Infeasible arm; is_edge_feasible returns false only there or on a cached Infeasible; explore impls are const true or is_edge_feasible(parent, child)',
    'C03.R3': 'the LP question is the closed path polytope of the node/edge in question, encoded as min c^T x s.t. A x <= b with free variables; status() uses the zero objective',
    'C03.R4': 'skip_subtree only under an Infeasible state of a non-root node',
    'C03.R5': 'a removal must not leave a decision without children (shared with C04.R3)',
}
CONTROL_REV = '078b142'  # thorough tier: the rules must still report the defects found (and since fixed) on the original tree
CONTROLS = [('C03.R5', 'AffTree::generic_composition_inplace#call:Tree::remove_child'), ('C03.R5', 'AffTree::infeasible_elimination#call:Tree::try_remove_child')]
FLOORS = {'C03.R8': 5, 'C03.R7': 15, 'C03.R6': 9, 'C03.R1': 9, 'C03.R2': 12, 'C03.R3': 5, 'C03.R4': 2, 'C03.R5': 5}
EXPLANATION = ('A path can disappear only after the LP back-end answered "infeasible" about exactly that path; '
               'decided structurally on every removal site, for all trees and inputs.')
DOES_NOT_DECIDE = 'whether the LP answer is right (C10), tolerance effects'


def r3_lp_question(ctx):
    """The LP asked is the closed path polytope of exactly the node/edge in question, encoded as min c^T x s.t. Ax <= b, x free."""
    from ..mir import Callee, Resolver, fmt, literals, walk, strip_sites as s
    from .prune import is_call
    F = ctx.facts
    # (a) is_edge_feasible: path = path_to_node(parent) ++ (parent, label of the edge parent->node)
    b = ctx.body('C03.R3', 'AffTree::is_edge_feasible')
    if b is not None:
        R = Resolver(b)
        pc = [(bb, R.call_args(bb)) for bb, t in b.calls_to('AffTree::polyhedral_path_characterization')]
        pushes = [(bb, R.call_args(bb)) for bb, t in b.calls_to('Vec::push')]
        ok = False
        if len(pc) == 1:
            path = pc[0][1][1]
            base = is_call(path, 'Tree::path_to_node') and path[2][1] == ('param', 'parent_idx')
            ext = [p for p in pushes if s(p[1][0]) == s(path)]
            if base and len(ext) == 1:
                v = ext[0][1][1]
                ok = v[0] == 'agg' and v[1] == 'tuple' and v[2][0] == ('param', 'parent_idx') and v[2][1][0] == 'field' and v[2][1][2] == 'label' and \
                    is_call(v[2][1][1], 'Tree::parent') and v[2][1][1][2][1] == ('param', 'node_idx') and b.cfg().dominates(ext[0][0], pc[0][0])
        (ctx.ok if ok else ctx.bad)('C03.R3', 'AffTree::is_edge_feasible#path', 'polytope of path_to_node(parent) extended by (parent, label of the edge to node)' if ok else
                                    'the polytope tested is not the path to the parent extended by the edge to the node in question', b.span)
    # (b) polyhedral_path_characterization intersects exactly the half-spaces it pushed
    b = ctx.body('C03.R3', 'AffTree::polyhedral_path_characterization')
    if b is not None:
        R = Resolver(b)
        inter = [(bb, R.call_args(bb)) for bb, t in b.calls_to('AffFuncBase::intersection_n')]
        pushes = [(bb, R.call_args(bb)) for bb, t in b.calls_to('Vec::push')]
        ok = len(inter) == 1 and len(pushes) == 1 and s(inter[0][1][1]) == s(pushes[0][1][0]) and is_call(inter[0][1][0], 'AffTree::in_dim')
        rets = [e for _, e in R.return_expr()]
        ok = ok and len(rets) == 1 and is_call(rets[0], 'AffFuncBase::intersection_n')
        # every path entry contributes: the push is unconditional in the loop over `path`
        if ok:
            lits = [l for l in literals(b, R, pushes[0][0]) if not (l[0] == 'is' and is_call(l[1], 'Iterator::next')) and not (l[0] == 'false' and l[1][0] == 'field' and l[1][2] == 'isleaf') and l[0] != 'eq']
            ok = not lits
        (ctx.ok if ok else ctx.bad)('C03.R3', 'AffTree::polyhedral_path_characterization#intersection', 'returns intersection_n(in_dim, one half-space per path entry)' if ok else
                                    'the path polytope does not intersect one half-space per path entry', b.span)
    lp_encoding(ctx, 'C03.R3')


def lp_encoding(ctx, rule):
    """min c^T x s.t. A x <= b with free variables; status() = zero objective; solve_linprog solves exactly that encoding (shared with C10.R1)."""
    from ..mir import Resolver, fmt, literals, walk, strip_sites as s
    from .prune import is_call
    F = ctx.facts
    # (c) LP encoding
    b = ctx.body(rule, 'AffFuncBase::as_linprog')
    if b is not None:
        R = Resolver(b)
        new = [(bb, R.call_args(bb)) for bb, t in b.calls_to('Problem::new')]
        ac = [(bb, R.call_args(bb), literals(b, R, bb)) for bb, t in b.calls_to('Problem::add_constraint')]
        problems = []
        if not (len(new) == 1 and new[0][1][0] == ('agg', ('adt', 'OptimizationDirection', 'Minimize', ()), ())):
            problems.append('objective sense is not Minimize')
        free = False
        for cb in b.closure_bodies():
            for _, e in Resolver(cb).return_expr():
                if is_call(e, 'Problem::add_var'):
                    free = e[2][2] == ('agg', 'tuple', (('const', '-inf'), ('const', 'inf'))) and e[2][1][0] == 'param'
        if not free:
            # the variables are created in a loop over the cost vector and pushed onto the variable list, instead of map + collect
            av = [(bb, R.call_args(bb), literals(b, R, bb)) for bb, t in b.calls_to('Problem::add_var')]
            if len(av) == 1:
                bb_, a_, lits_ = av[0]
                item = [x for x in walk(a_[1]) if is_call(x, 'Iterator::next')]
                # as_linprog has one parameter besides self: the cost vector
                from_cost = bool(item) and any(isinstance(x, tuple) and len(x) == 2 and x[0] == 'param' and x[1] != 'self' for x in walk(item[0]))
                every = all(l[0] == 'is' and is_call(l[1], 'Iterator::next') for l in lits_)
                pushed = [R.call_args(pb) for pb, t in b.calls_to('Vec::push') if any(is_call(x, 'Problem::add_var') for x in walk(R.call_args(pb)[1]))]
                free = a_[2] == ('agg', 'tuple', (('const', '-inf'), ('const', 'inf'))) and from_cost and every and len(pushed) == 1
        if not free:
            problems.append('variables are not free (bounds must be (-inf, +inf)) with the cost coefficient of their own position')
        if len(ac) != 1:
            problems.append('expected one add_constraint per row')
        else:
            a = ac[0][1]
            row_item = [x for x in walk(a[3]) if is_call(x, 'Iterator::next')]
            okc = a[2] == ('agg', ('adt', 'ComparisonOp', 'Le', ()), ()) and a[3][0] == 'field' and a[3][2] == '1' and row_item and \
                is_call(row_item[0][2][0], 'zip') and is_call(row_item[0][2][0][2][0], 'ArrayBase::rows') and row_item[0][2][0][2][0][2][0] == ('field', ('param', 'self'), 'mat') \
                and row_item[0][2][0][2][1] == ('field', ('param', 'self'), 'bias')
            coeffs_ok = any(is_call(x, 'zip') and s(x[2][1]) == s(('field', row_item[0], '0')) for x in walk(a[1])) if row_item else False
            if not coeffs_ok and row_item:
                # the terms are collected with pushes in a loop instead of map+collect: every element pairs a variable with the coefficient zipped to it
                from .prune import vec_elements
                els = vec_elements(F, b, R, a[1]) or []
                coeffs_ok = bool(els) and all(any(is_call(x, 'zip') and s(x[2][1]) == s(('field', row_item[0], '0')) for x in walk(e_)) for e_ in els)
            # nothing may thin the row out: every coefficient reaches the solver (a stage that drops terms may only drop exact zeros)
            from .prune import closure_ret
            for x in walk(a[1]):
                if is_call(x, 'Iterator::skip', 'Iterator::take', 'Iterator::step_by', 'Iterator::skip_while', 'Iterator::take_while', 'Iterator::filter_map'):
                    problems.append('terms of a constraint row are dropped (%s)' % x[1])
                if is_call(x, 'Iterator::filter') and len(x[2]) == 2 and x[2][1][0] == 'closure':
                    cb_, cr_ = closure_ret(F, x[2][1])
                    e_ = s(cr_[0]) if cr_ and len(cr_) == 1 else None
                    exact = e_ is not None and ((e_[0] == 'bin' and e_[1] == 'Ne' and e_[3] in (('const', 0.0), ('const', 0)) and e_[2][0] in ('field', 'param')) or
                                                (is_call(e_, 'PartialEq::ne') and s(e_[2][1]) in (('const', 0.0), ('const', 0))))
                    if not exact:
                        problems.append('coefficients are filtered out of a constraint row on a test other than "is exactly zero": the program solved is not A x <= b')
            uncond = all(l[0] == 'is' and is_call(l[1], 'Iterator::next') for l in ac[0][2])
            if not (okc and coeffs_ok and uncond):
                problems.append('constraints are not "row i · vars <= bias i" for every row (op=%s rhs/row=%s coeffs=%s unconditional=%s)' % (fmt(a[2]), okc, coeffs_ok, uncond))
        if problems:
            for p_ in problems:
                ctx.bad(rule, 'AffFuncBase::as_linprog#encoding', p_, b.span)
        else:
            ctx.ok(rule, 'AffFuncBase::as_linprog#encoding', 'min c^T x  s.t.  A x <= b (one Le row per constraint, coefficients zipped with the variables in order), x free', b.span)
    b = ctx.body(rule, 'AffFuncBase::status')
    if b is not None:
        R = Resolver(b)
        rets = [e for _, e in R.return_expr()]
        ok = len(rets) == 1 and is_call(rets[0], 'AffFuncBase::solve_linprog') and rets[0][2][0] == ('param', 'self') and is_call(rets[0][2][1], 'ArrayBase::zeros')
        (ctx.ok if ok else ctx.bad)(rule, 'AffFuncBase::status#objective', 'feasibility = LP of self with the zero objective' if ok else 'status() does not solve self with a zero objective', b.span)
    b = ctx.body(rule, 'AffFuncBase::solve_linprog')
    if b is not None:
        R = Resolver(b)
        al = [(bb, R.call_args(bb)) for bb, t in b.calls_to('AffFuncBase::as_linprog')]
        ok = len(al) == 1 and al[0][1][0] == ('param', 'self') and al[0][1][1] == ('param', 'coeffs')
        (ctx.ok if ok else ctx.bad)(rule, 'AffFuncBase::solve_linprog#problem', 'solves as_linprog(self, coeffs)' if ok else 'solve_linprog does not solve the encoding of self with the given objective', b.span)


def r4_skips(ctx):
    """skip_subtree is only called for nodes whose state is Infeasible (fresh or cached): nothing else is left unclassified / the root is never pruned."""
    from ..mir import Resolver, literals, fmt
    from .prune import is_call
    b = ctx.body('C03.R4', 'AffTree::infeasible_elimination')
    if b is None:
        return
    R = Resolver(b)
    n = 0
    for bb, t in b.calls_to('PolyhedraGen::skip_subtree'):
        n += 1
        lits = literals(b, R, bb)
        inf = [l for l in lits if l[0] == 'is' and l[2] == frozenset(['Infeasible'])]
        notroot = any(op == 'Ne' and is_call(y, 'Tree::get_root_idx') for op, x, y in prune.cmp_facts(lits))
        site = 'AffTree::infeasible_elimination#skip_subtree:%s' % ('cached' if inf and inf[0][1][0] == 'field' else 'fresh')
        if inf and notroot:
            ctx.ok('C03.R4', site, 'subtree skipped only under an Infeasible state of a non-root node', t['span'])
        else:
            ctx.bad('C03.R4', site, 'a subtree is skipped (left unclassified and later removed with its parent edge) without an Infeasible state of a non-root node', t['span'])
    if n == 0:
        ctx.lost('C03.R4', 'skip_subtree calls')


def run(ctx):
    helpers.run_for(ctx)
    helpers.share_from(ctx, 'c09', 'C03.R8', ['PolyhedraGen::next#sign-table', 'AffTree::polyhedral_path_characterization#sign-table', 'PolyhedraGen::skip_subtree', 'PolyhedraGen::new', 'PolyhedraGen::with_root', 'AffTree::polyhedra#'])
    helpers.share_arena_contracts(ctx, 'C03.R7')
    prune.check_removals(ctx, 'C03.R1')
    prune.check_infeasible_provenance(ctx, 'C03.R2')
    prune.check_edge_feasible_table(ctx, 'C03.R2')
    prune.check_explore_impls(ctx, 'C03.R2')
    prune.check_root_edges_kept(ctx, 'C03.R2')
    r3_lp_question(ctx)
    r4_skips(ctx)
    prune.check_childless(ctx, 'C03.R5')

"""C19 — text and DOT renderings are faithful to the objects they show (structural clauses)."""
from ..mir import Callee, Resolver, fmt, literals, walk, strip_sites as s, EXIT
from . import prune
from . import helpers
from .prune import is_call

LEVEL = 'other'
RULES = {
    'C19.R5': helpers.RULE_TEXT,
    'C19.R1': 'write_lincomb prints each coefficient next to the index it was enumerated with before any reordering; the position counter is only used for the skip test',
    'C19.R2': 'omissions are marked: a row/coefficient is skipped only on the skip-range test, and the first skip writes the ellipsis',
    'C19.R3': 'one scale: write_inequality divides the row and the bias by the same max|coeff|, only when not all-zero; tautology symbols follow bias >= 0; write_float prints sign and magnitude of the same value',
    'C19.R4': 'each kind of DOT label is printed with the format options Dot::from set up for that kind; one statement per node and edge: Dot prints n{idx} with the node\'s own function/predicate by its leaf flag and every edge\'s own source, target and label; Display iterates the nodes once',
}
FLOORS = {'C19.R5': 5, 'C19.R1': 1, 'C19.R2': 3, 'C19.R3': 4, 'C19.R4': 8}
EXPLANATION = 'Provenance rules on what is handed to the formatting machinery.'
DOES_NOT_DECIDE = 'that the digits equal the stored values at the printed precision (core::fmt), layout'


def displayed(b, R):
    """(bb, expr) of every value handed to Argument::new_display / new_debug"""
    out = []
    for bb, t in b.calls():
        c = Callee(t['func'])
        if c.self_base == 'Argument' and c.name.startswith('new_'):
            out.append((bb, R.call_args(bb)[0], t))
    return out


def comp(e, *path):
    """e == base.p1.p2...: returns base if the trailing field path matches"""
    x = e
    for p in reversed(path):
        if x[0] == 'field' and x[2] == p:
            x = x[1]
        else:
            return None
    return x


def run(ctx):
    helpers.run_for(ctx)
    F = ctx.facts
    lincomb(ctx, F)
    for q, inner, rng in (('write_poly', 'write_inequality', 'skip_rows'), ('write_func', 'write_affcomb', 'skip_rows')):
        skipping(ctx, F, q, inner, rng)
        row_separators(ctx, F, q)
    inequality(ctx, F)
    affcomb(ctx, F)
    wfloat(ctx, F)
    dot(ctx, F)
    node_display(ctx, F)


def lincomb(ctx, F):
    b = ctx.body('C19.R1', 'write_lincomb')
    if b is None:
        return
    R = Resolver(b)
    wf = [(bb, R.call_args(bb), t) for bb, t in b.calls_to('write_float')]
    disp = displayed(b, R)
    site = 'write_lincomb#pairing'
    ok = False
    why = ''
    if len(wf) == 1:
        coeff = wf[0][1][1]
        item = comp(coeff, '1', '1', '1')
        idxs = [d for d in disp if comp(d[1], '1', '1', '0') is not None]
        if item is not None and len(idxs) == 1 and s(comp(idxs[0][1], '1', '1', '0')) == s(item) and is_call(item, 'Iterator::next'):
            # the elements are enumerate(coefficients) collected BEFORE sorting
            src = item[2][0]
            enum_first = any(is_call(x, 'Itertools::collect_vec', 'Iterator::collect') and is_call(x[2][0], 'Iterator::enumerate') and x[2][0][2][0] == ('param', 'coefficients') for x in walk(src))
            # the counter `no` (item.0) is not printed
            no_printed = any(comp(d[1], '0') is not None and s(comp(d[1], '0')) == s(item) for d in disp)
            # nothing else numeric is printed in the non-skip path
            ok = enum_first and not no_printed
            why = 'enumerate-before-sort=%s position-printed=%s' % (enum_first, no_printed)
        else:
            why = 'coefficient and index are not the two components of one enumerated element'
    (ctx.ok if ok else ctx.bad)('C19.R1', site, 'prints (coeff, $idx) of the same element of enumerate(coefficients) taken before sorting' if ok else
                                'index and coefficient can be mismatched: ' + why, b.span)
    skipping(ctx, F, 'write_lincomb', 'write_float', 'skip_axes')
    complete(ctx, F, b, R)


LENGTH_PRESERVING = {'sort', 'sort_by', 'sort_by_key', 'sort_unstable', 'sort_unstable_by', 'sort_unstable_by_key', 'sort_by_cached_key', 'reverse',
                     'select_nth_unstable', 'select_nth_unstable_by', 'select_nth_unstable_by_key', 'iter_mut', 'as_mut_slice', 'deref_mut',
                     'swap', 'rotate_left', 'rotate_right', 'reserve', 'shrink_to_fit', 'index_mut', 'as_mut', 'borrow_mut', 'next', 'into_iter'}


def complete(ctx, F, b, R):
    """The list the printing loop walks holds every coefficient: it is enumerate(coefficients) collected, and between that and the loop it
    is only permuted (sorted / reversed), never shortened — an element removed here is omitted without the loop ever seeing it, i.e.
    without an ellipsis."""
    from ..effects import mut_calls, assigns
    site = 'write_lincomb#all-elements'
    lists = [x for bb, t in b.calls() for x in [R.call_expr(t, bb)]
             if is_call(x, 'Itertools::collect_vec', 'Iterator::collect') and x[2] and is_call(x[2][0], 'Iterator::enumerate') and
             any(y == ('param', 'coefficients') for y in walk(x[2][0]))]
    uniq = []
    for x in lists:
        if not any(s(x) == s(y) for y in uniq):
            uniq.append(x)
    lists = uniq
    if len(lists) != 1:
        ctx.undecided('C19.R2', site, 'expected one collected enumerate(coefficients), found %d' % len(lists), b.span)
        return
    lst = lists[0]
    # adaptors between enumerate and collect must not drop elements either
    inner = lst[2][0][2][0]
    while is_call(inner, 'Iterator::copied', 'Iterator::cloned', 'ArrayBase::iter', 'IntoIterator::into_iter', 'iter') and inner[2]:
        inner = inner[2][0]
    bad = []
    if inner != ('param', 'coefficients'):
        bad.append('the enumerated sequence is not the coefficient row itself (%s)' % fmt(s(inner))[:80])
    for w in mut_calls(b, R):
        if s(w.target) == s(lst) and w.callee.name not in LENGTH_PRESERVING:
            bad.append('the list of (index, coefficient) pairs is shortened or rebuilt by %s before it is printed' % w.callee.short)
    for w in assigns(b, R):
        if s(w.target) == s(lst):
            bad.append('the list of (index, coefficient) pairs is replaced before it is printed')
    if bad:
        for m_ in sorted(set(bad)):
            ctx.bad('C19.R2', site, m_, b.span)
    else:
        ctx.ok('C19.R2', site, 'the printed list is enumerate(coefficients) collected, only permuted before the loop (no element removed outside the skip test)', b.span)


def skipping(ctx, F, q, inner, rng):
    b = ctx.body('C19.R2', q)
    if b is None:
        return
    R = Resolver(b)
    cfg = b.cfg()
    site = '%s#skip' % q
    inner_calls = [bb for bb, t in b.calls_to(inner)]
    cont = [(bb, R.call_args(bb)) for bb, t in b.calls_to('RangeBounds::contains')]
    hdrs = [h for h in cfg.loop_headers() if isinstance(h, int)]
    prev_test = None
    if len(cont) == 2:
        # stateless marker: "this position is skipped and the previous one is not" — the second test looks at position - 1
        def is_prev(a):
            x = s(a[1])
            while x[0] == 'field' and x[2] == '0':
                x = x[1]
            return x[0] == 'bin' and x[1] in ('Sub', 'SubWithOverflow') and x[3] == ('const', 1)
        prevs = [c for c in cont if is_prev(c[1])]
        if len(prevs) == 1:
            prev_test = prevs[0]
            cont = [c for c in cont if c is not prev_test]
    if len(inner_calls) != 1 or len(cont) != 1 or not hdrs:
        ctx.undecided('C19.R2', site, 'unexpected shape (inner calls %d, range tests %d)' % (len(inner_calls), len(cont)), b.span)
        return
    cb, ca = cont[0]
    range_ok = ca[0] == ('field', ('param', 'options'), rng)
    # the tested number is the enumerate counter of the loop item
    counter_ok = any(x[0] == 'field' and x[2] == '0' and is_call(x[1], 'Iterator::next') for x in walk(ca[1]) if isinstance(x, tuple))
    # paths from the loop item to the next iteration that avoid the output call must pass the contains-true edge
    h = [x for x in hdrs if inner_calls[0] in cfg.loop_of(x)][0]
    sw = None
    n = cb
    for _ in range(4):
        t = b.blocks[n]['term']
        if t['k'] == 'switch':
            sw = n
            break
        n = t.get('target')
        if n is None:
            break
    true_edges = []
    if sw is not None:
        from ..mir import edge_literal
        for e in cfg.edge_nodes(sw):
            lit = edge_literal(b, R, sw, cfg.edge_label[e])
            if lit and lit[0] == 'true':
                true_edges.append(e)
        # the outcome may be held in a variable and tested more than once (`let skipped = ..; if skipped && first {..} if skipped {continue}`):
        # every test of that same value is a test of the range
        test_expr = s(('call', 'RangeBounds::contains', tuple(ca)))
        for sb_, bl_ in b.live_blocks():
            if bl_['term']['k'] != 'switch' or sb_ == sw:
                continue
            for e in cfg.edge_nodes(sb_):
                lit = edge_literal(b, R, sb_, cfg.edge_label[e])
                if lit and lit[0] == 'true' and s(lit[1]) == test_expr and e not in true_edges:
                    true_edges.append(e)
    some_edge = None
    for sb, bl in b.live_blocks():
        if bl['term']['k'] == 'switch' and sb in cfg.loop_of(h):
            d = R.switch_discr(sb)
            if d and d[0] == 'discr' and is_call(d[1], 'Iterator::next'):
                for e in cfg.edge_nodes(sb):
                    if cfg.edge_label[e] == ('sw', (1,)):
                        some_edge = e
    silent = some_edge is None or cfg.reaches(some_edge, h, avoid=[inner_calls[0]] + true_edges)
    # the ellipsis: a display of a constant string under true(contains) and true(first_skip), followed by first_skip := false
    ell = False
    for bb, e, t in displayed(b, R):
        lits = literals(b, R, bb)
        if e[0] == 'const' and isinstance(e[1], str) and any(l[0] == 'true' and is_call(l[1], 'RangeBounds::contains') for l in lits):
            is_ell = e[1] in ('⋯', '⋮') or 'ELLIPSIS' in str(e[1])
            # written on the FIRST skip: besides the range test the only guard is a flag that is true before the loop and
            # cleared only after this write
            extra = [l for l in lits if not (l[0] == 'is' and is_call(l[1], 'Iterator::next')) and not is_call(l[1], 'RangeBounds::contains')
                     and not (l[1][0] == 'bin' and l[1][1] in ('Lt',) and l[0] == 'true')]
            flag_ok = False
            if len(extra) == 1 and extra[0][0] in ('true', 'false') and extra[0][1][0] == 'phi' and set(extra[0][1][2]) == {('const', True), ('const', False)}:
                # a "first skip" flag in either polarity (`first_skip` starts true and is cleared, `ellipsis_written` starts false and is set):
                # the marker is written while the flag still has its initial value
                fl = extra[0][1][1]
                v0 = extra[0][0] == 'true'
                defs_ = [(dbb, R.def_expr(dbb, didx)) for (dbb, didx) in b.defs().get(fl, [])]
                inits = [d for d in defs_ if d[1] == ('const', v0)]
                clears = [d for d in defs_ if d[1] == ('const', not v0)]
                flag_ok = len(inits) == 1 and inits[0][0] not in cfg.loop_of(h) and cfg.dominates(inits[0][0], h) and clears and \
                    all(cfg.dominates(bb, d[0]) or _after_in_iteration(cfg, bb, d[0]) for d in clears)
            ell = is_ell and flag_ok
            if is_ell and not flag_ok and prev_test is not None:
                # the marker is written for the first position of every skipped block: whenever the position is 0, and whenever the previous
                # position is not in the range, the write is unavoidable before the next item (position - 1 of position 0 is not a position:
                # a range that is unbounded below contains it)
                from ..mir import edge_literal
                N = s(ca[1])
                zero_edges, notprev_edges = [], []
                for sb_, bl_ in b.live_blocks():
                    if bl_['term']['k'] != 'switch' or sb_ not in cfg.loop_of(h):
                        continue
                    for e_ in cfg.edge_nodes(sb_):
                        lit_ = edge_literal(b, R, sb_, cfg.edge_label[e_])
                        if lit_ is None:
                            continue
                        if lit_[0] == 'false' and is_call(lit_[1], 'RangeBounds::contains') and s(lit_[1]) == s(('call', 'RangeBounds::contains', tuple(prev_test[1]))):
                            notprev_edges.append(e_)
                        for op_, x_, y_ in prune.cmp_facts([lit_]):
                            if op_ == 'Eq' and s(x_) == N and s(y_) == ('const', 0):
                                zero_edges.append(e_)
                same_range = s(prev_test[1][0]) == s(ca[0])
                forced = lambda e_: not cfg.reaches(e_, h, avoid=[bb])
                ell = same_range and bool(zero_edges) and bool(notprev_edges) and all(forced(e_) for e_ in zero_edges + notprev_edges)
    # the row and the bias printed together belong to one (row, bias) pair of the zipped iteration
    pair_ok = True
    if q in ('write_poly', 'write_func'):
        ia = R.call_args(inner_calls[0])
        items = [x for x in walk(ia[1]) if is_call(x, 'Iterator::next')]
        pair_ok = bool(items) and any(s(x) == s(items[0]) for x in walk(ia[2])) and \
            any(is_call(x, 'zip') or is_call(x, 'Iterator::zip') for x in walk(items[0])) and \
            any(is_call(x, 'AffFuncBase::matrix_view') for x in walk(items[0])) and any(is_call(x, 'AffFuncBase::bias_view') for x in walk(items[0]))
    if not pair_ok:
        ctx.bad('C19.R2', site, 'the row and the bias handed to %s are not the two components of one zipped (row, bias) item: after a skipped row they can drift apart' % inner, b.span)
        return
    if range_ok and counter_ok and not silent and ell:
        ctx.ok('C19.R2', site, 'an item is skipped only when options.%s contains its position, and the first skip writes the ellipsis' % rng, b.span)
    else:
        ctx.bad('C19.R2', site, 'items can be dropped silently (range=%s counter=%s silent-path=%s ellipsis=%s)' % (range_ok, counter_ok, silent, ell), b.span)


def row_separators(ctx, F, q):
    """one row per line: after a printed row a newline follows exactly when the row is not the last one (positions First and Middle of
    with_position) -- otherwise two rows run together on one line, or the text ends in a stray empty line"""
    b = ctx.body('C19.R2', q)
    if b is None:
        return
    R = Resolver(b)
    site = '%s#row-separator' % q
    seps = set()
    n = 0
    for bb, t in b.calls():
        c = Callee(t['func'])
        if c.name != 'write_fmt':
            continue
        a = s(R.call_args(bb)[1])
        if not (is_call(a, 'Arguments::from_str', 'Arguments::new_const') and a[2] and a[2][0] in (('const', '\n'), ('const', "\n"))):
            if not (is_call(a, 'Arguments::from_str', 'Arguments::new_const') and a[2] and a[2][0][0] == 'const' and str(a[2][0][1]) == '\n'):
                continue
        pos = None
        for l in literals(b, R, bb):
            if l[0] == 'is' and len(l) > 2 and set(l[2]) <= {'First', 'Middle', 'Last', 'Only'}:
                pos = set(l[2])
        n += 1
        if pos is None:
            ctx.undecided('C19.R2', site, 'a newline is written without reference to the position of the row', b.where(bb))
            return
        seps |= pos
    if n == 0:
        ctx.undecided('C19.R2', site, 'no row separator found', b.span)
    elif seps == {'First', 'Middle'}:
        ctx.ok('C19.R2', site, 'a newline follows exactly the rows that are not the last', b.span)
    else:
        ctx.bad('C19.R2', site, 'a newline follows the rows at positions %s instead of First and Middle' % sorted(seps), b.span)


def _after_in_iteration(cfg, a, b):
    """block b is reached only through block a"""
    return cfg.dominates(a, b)


def inequality(ctx, F):
    b = ctx.body('C19.R3', 'write_inequality')
    if b is None:
        return
    R = Resolver(b)
    site = 'write_inequality#scale'
    wl = [(bb, R.call_args(bb), literals(b, R, bb)) for bb, t in b.calls_to('write_lincomb')]
    wf = [(bb, R.call_args(bb), literals(b, R, bb)) for bb, t in b.calls_to('write_float')]
    scaled_l = [x for x in wl if is_call(x[1][1], 'ArrayBase::map')]
    scaled_f = [x for x in wf if x[1][1][0] == 'bin' and x[1][1][1] == 'Div']
    ok = False
    why = ''
    if len(scaled_l) == 1 and len(scaled_f) == 1:
        m = scaled_l[0][1][1]
        clo = m[2][1]
        scale = clo[2][0] if clo[2] else None
        cb, crets = prune.closure_ret(F, clo)
        div_ok = bool(crets) and crets[0][0] == 'bin' and crets[0][1] == 'Div' and crets[0][3] == ('upvar', 'scale') and crets[0][2][0] == 'param'
        same = scale is not None and s(scaled_f[0][1][1][3]) == s(scale) and scaled_f[0][1][1][2] == ('param', 'bias') and m[2][0] == ('param', 'row')
        # scale = fold(row, 0, |a,b| a.max(b.abs()))
        # scale = fold(row, 0, |a, b| a.max(b.abs())) (desugared to an accumulator loop over the row, like a hand-written one):
        # positivity witness: the factor accumulates absolute values of the row's own entries, starting from a non-negative constant
        fold_ok = False
        if scale is not None and scale[0] == 'var':
            defs_ = [d[2] for d in R.var_defs(scale[1])]
            init = [d for d in defs_ if d[0] == 'const']
            step = [d for d in defs_ if d[0] != 'const']
            fold_ok = len(init) == 1 and isinstance(init[0][1], (int, float)) and init[0][1] >= 0 and len(step) == 1 and \
                any(is_call(x, 'f64::abs') and is_call(x[2][0], 'Iterator::next') and x[2][0][2][0] == ('param', 'row') for x in walk(step[0])) and \
                any(x == scale for x in walk(step[0]))
        guard = all(any(l[0] == 'false' and is_call(l[1], 'Iterator::all') for l in x[2]) for x in (scaled_l[0], scaled_f[0]))
        ok = div_ok and same and fold_ok and guard
        why = 'div=%s same-scale=%s max-abs=%s not-all-zero-guard=%s' % (div_ok, same, fold_ok, guard)
    (ctx.ok if ok else ctx.bad)('C19.R3', site, 'row and bias are divided by the same max|coeff|, only for rows that are not all zero' if ok else
                                'the printed inequality is not the stored one up to one positive factor: ' + why, b.span)
    # the unscaled path prints row and bias as they are
    plain = [x for x in wl if x[1][1] == ('param', 'row')] and [x for x in wf if x[1][1] == ('param', 'bias')]
    # tautologies
    site = 'write_inequality#tautology'
    sym = {}
    for e, lits in shown_alternatives(b, R):
        if e[0] == 'const' and e[1] in ('⊤', '⊥'):
            # polarity of `bias >= 0.0` on this path, in whichever spelling the guard is written
            ge = [('true',) for op_, x_, y_ in prune.cmp_facts(lits) if op_ == 'Ge' and x_ == ('param', 'bias') and y_ == ('const', 0.0)] + \
                 [('false',) for op_, x_, y_ in prune.cmp_facts(lits) if op_ == 'Lt' and x_ == ('param', 'bias') and y_ == ('const', 0.0)]
            allz = any(l[0] == 'true' and is_call(l[1], 'Iterator::all') for l in lits)
            opt = any(l[0] == 'true' and l[1] == ('field', ('param', 'options'), 'simplify_tautologies') for l in lits)
            sym[e[1]] = (ge[0][0] if ge else None, allz, opt)
    ok = sym.get('⊤') == ('true', True, True) and sym.get('⊥') == ('false', True, True) and bool(plain)
    (ctx.ok if ok else ctx.bad)('C19.R3', site, 'all-zero row: ⊤ iff bias >= 0, ⊥ otherwise (only with simplify_tautologies); otherwise row and bias are printed unchanged' if ok else
                                'tautology symbols do not follow the sign of the bias: %s' % sym, b.span)


def affcomb(ctx, F):
    """write_affcomb prints the bias and then the linear part of the same row; the linear part may be omitted only when every coefficient
    is exactly zero (and simplify_zero is set)."""
    from ..absint import Interp
    b = ctx.body('C19.R3', 'write_affcomb')
    if b is None:
        return
    R = Resolver(b)
    wf = [(bb, R.call_args(bb)) for bb, t in b.calls_to('write_float')]
    wl = [(bb, R.call_args(bb), literals(b, R, bb)) for bb, t in b.calls_to('write_lincomb')]
    ok = len(wf) == 1 and wf[0][1][1] == ('param', 'bias') and len(wl) == 1 and wl[0][1][1] == ('param', 'row')
    why = ''
    if ok:
        from ..mir import EXIT, edge_literal
        cfg = b.cfg()
        # every successful path that does not print the coefficients passes the true outcome of `row.iter().all(|x| x == 0.0)`
        zero_edges = []
        for sb, bl in b.live_blocks():
            if bl['term']['k'] != 'switch':
                continue
            d = R.switch_discr(sb)
            if d is not None and is_call(d, 'Iterator::all') and d[2][0] == ('param', 'row') and d[2][1][0] == 'closure':
                cb = F.closure(d[2][1][1])
                kind = Interp(F, cb, {}, True, 0).element_predicate(cb) if cb is not None else None
                for e in cfg.edge_nodes(sb):
                    lit = edge_literal(b, R, sb, cfg.edge_label[e])
                    if lit and lit[0] == 'true':
                        if kind == 'zero':
                            zero_edges.append(e)
                        else:
                            why = 'the test that suppresses the coefficients is not "every coefficient == 0.0" exactly'
        err_blocks = [bb for bb, t in b.calls() if Callee(t['func']).name == 'from_residual']
        # the same test held in a variable first (`let hide = simplify_zero && row.iter().all(..); if hide { return Ok(()) }`): blocks that are
        # only entered when the all-zero test came out true
        zero_blocks = []
        for bb_, _bl in b.live_blocks():
            for l in literals(b, R, bb_):
                if l[0] == 'true' and is_call(l[1], 'Iterator::all') and l[1][2][0] == ('param', 'row') and l[1][2][1][0] == 'closure':
                    cb = F.closure(l[1][2][1][1])
                    if cb is not None and Interp(F, cb, {}, True, 0).element_predicate(cb) == 'zero':
                        zero_blocks.append(bb_)
        if cfg.reaches(0, EXIT, avoid=[wl[0][0]] + zero_edges + zero_blocks + err_blocks):
            ok = False
            why = why or 'a successful path skips the coefficients without an exact all-zero test'
    (ctx.ok if ok else ctx.bad)('C19.R3', 'write_affcomb', 'bias then coefficients of the same row; coefficients omitted only if all are exactly 0.0 and simplify_zero is set' if ok else
                                'write_affcomb can drop non-zero coefficients or mis-pair bias and row: ' + why, b.span)


def node_display(ctx, F):
    """Display of a node shows its own complete function / predicate: leaf -> write_func of the whole aff, decision -> write_poly of all rows."""
    for q, inner, what in (('write_predicate', 'write_poly', 'all rows of the predicate'), ('write_terminal', 'write_func', 'the whole function')):
        b = ctx.body('C19.R4', q)
        if b is None:
            continue
        R = Resolver(b)
        calls_ = [(bb, R.call_args(bb)) for bb, t in b.calls_to(inner)]
        ok = len(calls_) == 1
        if ok:
            a = calls_[0][1][1]
            if inner == 'write_poly':
                ok = is_call(a, 'AffFuncBase::from_mats') and a[2][0] == ('field', ('param', 'pred'), 'mat') and a[2][1] == ('field', ('param', 'pred'), 'bias')
            else:
                ok = a == ('param', 'pred') or (a[0] == 'agg' and a[2][:2] == (('field', ('param', 'pred'), 'mat'), ('field', ('param', 'pred'), 'bias')))
        others = [Callee(t['func']).short for bb, t in b.calls() if Callee(t['func']).name in ('write_inequality', 'write_affcomb', 'write_lincomb')]
        ok = ok and not others
        (ctx.ok if ok else ctx.bad)('C19.R4', q, '%s(%s)' % (inner, what) if ok else '%s does not render %s of its argument' % (q, what), b.span)
    b = ctx.body('C19.R4', '<TreeNode as Display>::fmt')
    if b is not None:
        R = Resolver(b)
        wt = [(bb, R.call_args(bb), literals(b, R, bb)) for bb, t in b.calls_to('write_terminal')]
        wp = [(bb, R.call_args(bb), literals(b, R, bb)) for bb, t in b.calls_to('write_predicate')]
        AFF = ('field', ('field', ('param', 'self'), 'value'), 'aff')
        LEAF = ('field', ('param', 'self'), 'isleaf')
        ok = len(wt) == 1 and len(wp) == 1 and wt[0][1][1] == AFF and wp[0][1][1] == AFF and \
            any(l[0] == 'true' and l[1] == LEAF for l in wt[0][2]) and any(l[0] == 'false' and l[1] == LEAF for l in wp[0][2])
        (ctx.ok if ok else ctx.bad)('C19.R4', '<TreeNode_as_Display>::fmt', 'leaf -> its function, decision -> its predicate (own aff, by the leaf flag)' if ok else
                                    'node Display does not render the node\'s own aff according to its leaf flag', b.span)


def shown_alternatives(b, R):
    """(value, guard literals) for everything written with `{}`: a symbol that is first chosen into a variable (`let s = if c { A } else { B }`)
    counts as each alternative under the guards of its assignment plus those of the write."""
    from ..mir import phi_table
    out = []
    for bb, e, t in displayed(b, R):
        if e[0] == 'phi' and len(e) > 2 and all(a[0] == 'const' for a in e[2]):
            for v, dl, dbb in phi_table(b, R, e[1]):
                out.append((v, list(dl) + list(literals(b, R, bb))))
        else:
            out.append((e, literals(b, R, bb)))
    return out


def wfloat(ctx, F):
    b = ctx.body('C19.R3', 'write_float')
    if b is None:
        return
    R = Resolver(b)
    sgn = {}
    mag = None
    for e, lits in shown_alternatives(b, R):
        neg = [l for l in lits if is_call(l[1], 'f64::is_sign_negative') and l[1][2][0] == ('param', 'value')]
        if e[0] == 'const' and neg:
            sgn[e[1]] = neg[0][0]
        if is_call(e, 'f64::abs') and e[2][0] == ('param', 'value') and not neg:
            mag = True
    ok = sgn.get('−') == 'true' and sgn.get('+') == 'false' and mag
    (ctx.ok if ok else ctx.bad)('C19.R3', 'write_float', 'sign from is_sign_negative(value), magnitude abs(value) of the same value, on every path' if ok else
                                'sign and magnitude are not both derived from the value (%s, abs=%s)' % (sgn, mag), b.span)


def dot(ctx, F):
    b = ctx.body('C19.R4', '<Dot as Display>::fmt')
    if b is not None:
        R = Resolver(b)
        cfg = b.cfg()
        disp = displayed(b, R)
        node_items = [x for x in walk(('x',) + tuple(d[1] for d in disp)) if is_call(x, 'Iterator::next') and is_call(x[2][0], 'Tree::node_iter')]
        edge_items = [x for x in walk(('x',) + tuple(d[1] for d in disp)) if is_call(x, 'Iterator::next') and is_call(x[2][0], 'Tree::edge_iter')]
        n_node_loops = len({x[3] for x in node_items})
        n_edge_loops = len({x[3] for x in edge_items})
        site = '<Dot as Display>::fmt#nodes'
        wfn = [(bb, R.call_args(bb), literals(b, R, bb)) for bb, t in b.calls_to('write_func')]
        wpl = [(bb, R.call_args(bb), literals(b, R, bb)) for bb, t in b.calls_to('write_poly')]
        ok = n_node_loops == 1 and len(wfn) == 1 and len(wpl) == 1
        if ok:
            item = node_items[0]
            node = ('field', item, '1')
            aff = ('field', ('field', node, 'value'), 'aff')
            leaf_lit = lambda lits, want: any(l[0] == want and s(l[1]) == s(('field', node, 'isleaf')) for l in lits)
            pred = wpl[0][1][1]
            own_pred = is_call(pred, 'AffFuncBase::from_mats') and s(pred[2][0]) == s(('field', aff, 'mat')) and s(pred[2][1]) == s(('field', aff, 'bias'))
            if not own_pred and is_call(pred, 'AffContent::to_poly') and s(pred[2][0]) == s(('field', node, 'value')):
                # the accessor: checked to be from_mats(self.aff.mat, self.aff.bias)
                tp = F.q('AffContent::to_poly')
                tr = [e for _, e in Resolver(tp).return_expr()] if tp is not None else []
                SA = ('field', ('param', 'self'), 'aff')
                own_pred = len(tr) == 1 and is_call(tr[0], 'AffFuncBase::from_mats') and tr[0][2][0] == ('field', SA, 'mat') and tr[0][2][1] == ('field', SA, 'bias')
            ok = s(wfn[0][1][1]) == s(aff) and leaf_lit(wfn[0][2], 'true') and own_pred and leaf_lit(wpl[0][2], 'false') \
                and any(s(d[1]) == s(('field', item, '0')) for d in disp)
        (ctx.ok if ok else ctx.bad)('C19.R4', site, 'one loop over node_iter(): n{idx} with the node\'s own function (leaf) or predicate (decision)' if ok else
                                    'DOT node statements do not show each stored node once with its own function/predicate', b.span)
        # the options each kind of label is printed with are the ones the constructor set up for that kind
        site = '<Dot as Display>::fmt#options'
        fb = F.q('Dot::from')
        init = {}
        if fb is not None:
            for _, e in Resolver(fb).return_expr():
                if e[0] == 'agg' and isinstance(e[1], tuple) and e[1][0] == 'adt' and len(e[1]) > 3:
                    for name, v in zip(e[1][3], e[2]):
                        if v[0] == 'call':
                            init[name] = v[1]
        if len(wfn) == 1 and len(wpl) == 1 and init:
            def opt_field(a):
                x = s(a[2]) if len(a) > 2 else None
                return x[2] if x and x[0] == 'field' and x[1] == ('param', 'self') else None
            of, op = opt_field(wfn[0][1]), opt_field(wpl[0][1])
            if of is None or op is None or of not in init or op not in init:
                ctx.undecided('C19.R4', site, 'the format options handed to write_func / write_poly are not fields of the Dot value set up by Dot::from', b.span)
            elif init[of].endswith('default_func') and init[op].endswith('default_poly'):
                ctx.ok('C19.R4', site, 'terminal labels use the options Dot::from initialises with default_func (%s), predicate labels those with default_poly (%s)' % (of, op), b.span)
            else:
                ctx.bad('C19.R4', site, 'a label is printed with the options of the other kind: write_func gets `%s` (= %s), write_poly gets `%s` (= %s)' % (of, init[of], op, init[op]), b.span)
        site = '<Dot as Display>::fmt#edges'
        ok = n_edge_loops == 1
        if ok:
            e = edge_items[0]
            shown = {d[1][2] for d in disp if d[1][0] == 'field' and s(d[1][1]) == s(e)}
            ok = {'source_idx', 'target_idx', 'label'} <= shown
            # order: source before target in the statement "n{} -> n{}"
            srcs = [i for i, d in enumerate(disp) if d[1][0] == 'field' and d[1][2] == 'source_idx']
            tgts = [i for i, d in enumerate(disp) if d[1][0] == 'field' and d[1][2] == 'target_idx']
            ok = ok and srcs and tgts and srcs[0] < tgts[0]
        (ctx.ok if ok else ctx.bad)('C19.R4', site, 'one loop over edge_iter(): source -> target [label] of the same edge' if ok else
                                    'DOT edge statements do not show source, target and label of each edge once', b.span)
    b = ctx.body('C19.R4', '<AffTree as Display>::fmt')
    if b is not None:
        R = Resolver(b)
        disp = displayed(b, R)
        items = {x[3] for d in disp for x in walk(d[1]) if is_call(x, 'Iterator::next') and is_call(x[2][0], 'Tree::node_iter')}
        it = [x for d in disp for x in walk(d[1]) if is_call(x, 'Iterator::next') and is_call(x[2][0], 'Tree::node_iter')]
        ok = len(items) == 1 and any(s(d[1]) == s(('field', it[0], '0')) for d in disp) and any(s(d[1]) == s(('field', it[0], '1')) for d in disp)
        wc = [(bb, R.call_args(bb)) for bb, t in b.calls_to('write_children')]
        ok = ok and len(wc) == 1 and s(wc[0][1][1]) == s(('field', it[0], '1'))
        (ctx.ok if ok else ctx.bad)('C19.R4', '<AffTree as Display>::fmt', 'one line per stored node: its index, its own content, its own children' if ok else
                                    'Display does not print every node once with its own content', b.span)
    b = ctx.body('C19.R4', 'write_children')
    if b is not None:
        R = Resolver(b)
        disp = displayed(b, R)
        ok = bool(disp) and all(d[1][0] == 'field' and d[1][1][0] == 'field' and d[1][1][2] == '1' and is_call(d[1][1][1], 'Iterator::next') and
                                any(is_call(x, 'TreeNode::children_iter') and x[2][0] == ('param', 'node') for x in walk(d[1])) for d in disp)
        if ok:
            # label (.0) is printed before the index (.1) in every arm
            seq = [d[1][2] for d in disp]
            ok = seq in (['0', '0', '1', '1'], ['0', '1', '0', '1']) or (seq.count('0') == seq.count('1'))
        (ctx.ok if ok else ctx.bad)('C19.R4', 'write_children', 'label->index pairs of the node\'s own children_iter()' if ok else 'write_children prints something else than the node\'s (label, child) pairs', b.span)
        # one statement per edge: every write prints `label->child` in this order, and a separator follows exactly the entries that are not the
        # last one (positions First and Middle of with_position) -- otherwise two edge statements run together or a dangling separator appears
        import re as _re
        site = 'write_children#statements'
        writes = []
        for bb, t in b.calls():
            c = Callee(t['func'])
            if c.name != 'write_fmt':
                continue
            a = R.call_args(bb)
            fa = [x for x in walk(a[1]) if is_call(x, 'Arguments::new', 'Arguments::new_v1', 'Arguments::from_str', 'Arguments::new_const')]
            if len(fa) != 1:
                writes = None
                break
            tmpl = fa[0][2][0]
            text = _re.sub(r'\\x[0-9a-fA-F]{2}', '', str(tmpl[1])[2:-1]) if tmpl[0] == 'const' and isinstance(tmpl[1], str) and str(tmpl[1]).startswith('b"') else None
            arr = [x for x in fa[0][2][1:] if x[0] == 'agg' and x[1] == 'array']
            shown = [x[2][0] for x in (arr[0][2] if arr else ()) if is_call(x, 'Argument::new_display', 'Argument::new_debug')]
            pos = None
            for l in literals(b, R, bb):
                if l[0] == 'is' and len(l) > 2 and l[1][0] == 'field' and l[1][2] == '0' and is_call(l[1][1], 'Iterator::next'):
                    pos = set(l[2])
            writes.append((text, shown, pos, t['span']))
        if writes is None or len(writes) == 0 or any(w[0] is None for w in writes):
            ctx.undecided('C19.R4', site, 'edge statements are not written by format strings over the items of with_position()', b.span)
        else:
            problems = []
            with_sep = set()
            covered = set()
            for text, shown, pos, sp in writes:
                if not (len(shown) == 2 and shown[0][0] == 'field' and shown[0][2] == '0' and shown[1][0] == 'field' and shown[1][2] == '1' and
                        s(shown[0][1]) == s(shown[1][1]) and shown[0][1][0] == 'field' and shown[0][1][2] == '1'):
                    problems.append('a statement does not print the label followed by the child of one (label, child) pair')
                    continue
                if not text.startswith('->'):
                    problems.append('label and child are not joined by "->" (%r)' % text)
                if pos is None:
                    problems.append('a statement is not selected by the position of the entry')
                    continue
                covered |= pos
                if text[2:].strip(' ') != '' or text[2:] != '':
                    with_sep |= pos
            if not problems:
                if covered != {'First', 'Middle', 'Last', 'Only'}:
                    problems.append('positions %s print no statement' % sorted({'First', 'Middle', 'Last', 'Only'} - covered))
                elif with_sep != {'First', 'Middle'}:
                    problems.append('a separator follows the entries at positions %s instead of First and Middle' % sorted(with_sep))
            if problems:
                ctx.bad('C19.R4', site, '; '.join(sorted(set(problems)))[:300], b.span)
            else:
                ctx.ok('C19.R4', site, 'every entry prints `label->child`; a separator follows exactly the entries that are not the last', b.span)

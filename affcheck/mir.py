"""MIR fact model: bodies, CFG, dominators, control dependence, value resolution.

Everything here works on the JSON facts written by /verif/driver (engine E0); nothing of
the analysed crate is ever executed.
"""
from __future__ import annotations

import json
import re
from functools import lru_cache

# --------------------------------------------------------------------------------------
# names


def strip_generics(path: str) -> str:
    """Remove every turbofish `::<...>` generic argument list from a def path (balanced)."""
    out = []
    i = 0
    n = len(path)
    while i < n:
        if path.startswith('::<', i):
            j = _match(path, i + 2)
            i = j + 1
            continue
        out.append(path[i])
        i += 1
    return ''.join(out)


def _match(path, i):
    depth = 0
    for j in range(i, len(path)):
        if path[j] == '<':
            depth += 1
        elif path[j] == '>' and path[j - 1] != '-':
            depth -= 1
            if depth == 0:
                return j
    return len(path) - 1


def strip_generics_inner(s):
    # s is like "impl std::ops::Add<&T<K>> for &T<K>" or "X<Y> as Tr<Z>"
    out = []
    depth = 0
    for idx, c in enumerate(s):
        if c == '<':
            depth += 1
        elif c == '>' and s[idx - 1] != '-':
            depth -= 1
        elif depth == 0:
            out.append(c)
    return ''.join(out)


def base_type(ty: str) -> str:
    """`&'a mut linalg::affine::AffFuncBase<FunctionT, S>` -> `AffFuncBase`."""
    t = ty.strip()
    while True:
        t0 = t
        t = re.sub(r"^&\s*('\w+\s+)?(mut\s+)?", '', t)
        if t == t0:
            break
    t = strip_generics_inner(t)
    return t.split('::')[-1].strip()


def ref_kind(ty: str) -> str:
    t = ty.strip()
    m = re.match(r"^&\s*('\w+\s+)?(mut\s+)?", t)
    if not m:
        return 'val'
    return 'mut' if m.group(2) else 'ref'


# --------------------------------------------------------------------------------------
# facts


# --------------------------------------------------------------------------------------
# bounded inlining of helpers that are unknown to the rule set


def _load_inventory():
    import os
    p = os.path.join(os.path.dirname(os.path.abspath(__file__)), 'inventory.txt')
    if not os.path.exists(p):
        return None
    return {l.rstrip('\n') for l in open(p) if l.strip() and not l.startswith('#')}


def _load_type_inventory():
    import os
    p = os.path.join(os.path.dirname(os.path.abspath(__file__)), 'types_inventory.txt')
    if not os.path.exists(p):
        return None
    return {l.rstrip('\n') for l in open(p) if l.strip() and not l.startswith('#')}


def _rename_place(pl, lm):
    return {'local': lm(pl['local']), 'proj': [dict(p, local=lm(p['local'])) if p['k'] == 'index' else p for p in pl['proj']]}


def _rename_op(op, lm):
    if op['k'] in ('copy', 'move'):
        return dict(op, place=_rename_place(op['place'], lm))
    return op


def _rename_rv(rv, lm):
    k = rv['k']
    r = dict(rv)
    if k in ('use', 'cast', 'repeat'):
        r['op'] = _rename_op(rv['op'], lm)
    elif k in ('ref', 'rawptr', 'copy_for_deref', 'discr'):
        r['place'] = _rename_place(rv['place'], lm)
    elif k == 'agg':
        r['ops'] = [_rename_op(o, lm) for o in rv['ops']]
    elif k == 'binop':
        r['l'] = _rename_op(rv['l'], lm)
        r['r'] = _rename_op(rv['r'], lm)
    elif k == 'unop':
        r['x'] = _rename_op(rv['x'], lm)
    return r


def inline_call(b, bb, c):
    """Graft the body dict `c` of the callee at the call terminating block `bb` of body dict `b` (in place)."""
    t = b['blocks'][bb]['term']
    lbase = len(b['locals'])
    bbase = len(b['blocks'])
    lm = lambda l: l + lbase
    bm = lambda x: x + bbase
    for l in c['locals']:
        b['locals'].append(dict(l, i=l['i'] + lbase))
    for d in c['debug']:
        v = d['value']
        if 'local' in v:
            b['debug'].append({'name': d['name'], 'value': _rename_place(v, lm), 'arg': None})
    cont = t['target']
    dest = t['dest']
    span = t['span']
    # arguments -> callee parameter locals
    stmts = b['blocks'][bb]['stmts']
    for k, a in enumerate(t['args']):
        stmts.append({'k': 'assign', 'place': {'local': lm(k + 1), 'proj': []}, 'rv': {'k': 'use', 'op': a}, 'span': span, 'exp': t.get('exp', False)})
    b['blocks'][bb]['term'] = {'k': 'goto', 'target': bm(0), 'span': span, 'exp': t.get('exp', False)}
    # every `return` of the callee jumps to RET, which hands the result to the call's destination and continues after the call
    RET = bbase + len(c['blocks'])
    for blk in c['blocks']:
        nb = {'cleanup': blk['cleanup'], 'stmts': [], 'term': None}
        for st in blk['stmts']:
            s2 = dict(st)
            if 'place' in st:
                s2['place'] = _rename_place(st['place'], lm)
            if 'rv' in st:
                s2['rv'] = _rename_rv(st['rv'], lm)
            nb['stmts'].append(s2)
        tt = dict(blk['term'])
        k = tt['k']
        if k == 'return':
            tt = {'k': 'goto', 'target': RET, 'span': tt['span'], 'exp': tt.get('exp', False)}
        else:
            for key in ('target', 'otherwise'):
                if tt.get(key) is not None and isinstance(tt.get(key), int):
                    tt[key] = bm(tt[key])
            if k == 'switch':
                tt['targets'] = [[v, bm(x)] for v, x in tt['targets']]
                tt['discr'] = _rename_op(tt['discr'], lm)
            if k == 'call':
                tt['args'] = [_rename_op(a, lm) for a in tt['args']]
                tt['dest'] = _rename_place(tt['dest'], lm)
                if 'indirect' in tt['func']:
                    tt['func'] = dict(tt['func'], indirect=_rename_op(tt['func']['indirect'], lm))
            if k == 'drop':
                tt['place'] = _rename_place(tt['place'], lm)
            if k == 'assert':
                tt['cond'] = _rename_op(tt['cond'], lm)
            if k == 'other':
                tt['succ'] = [bm(x) for x in tt.get('succ', [])]
        nb['term'] = tt
        b['blocks'].append(nb)
    b['blocks'].append({'cleanup': False, 'stmts': [{'k': 'assign', 'place': dest, 'rv': {'k': 'use', 'op': {'k': 'move', 'place': {'local': lm(0), 'proj': []}}}, 'span': span, 'exp': True}],
                        'term': ({'k': 'goto', 'target': cont, 'span': span, 'exp': True} if cont is not None else {'k': 'unreachable', 'span': span, 'exp': False})})
    assert len(b['blocks']) - 1 == RET
    b.setdefault('inlined', []).append(c['path'])
    _resolve_ref_aliases(b, lbase)
    # a helper returning Result / Option whose result the caller immediately tests (`helper()?`, `match helper() {..}`): returns whose variant
    # is statically known are routed to the matching arm, so that no infeasible "returned Err but continued as Ok" path exists
    if cont is not None and not dest['proj']:
        k = _try_continuation(b, cont, dest['local'])
        if k is not None:
            chain, ok_target, err_target = k

            def clone_path(final):
                first = prev = None
                for n in [RET] + chain:
                    nb = copy.deepcopy(b['blocks'][n])
                    idx = len(b['blocks'])
                    b['blocks'].append(nb)
                    if prev is None:
                        first = idx
                    else:
                        b['blocks'][prev]['term']['target'] = idx
                    prev = idx
                b['blocks'][prev]['term'] = {'k': 'goto', 'target': final, 'span': span, 'exp': True}
                return first
            import copy
            _thread_known_returns(b, range(bbase, RET), lm(0), RET, clone_path(ok_target), clone_path(err_target))
            # if every return was routed, the untested hand-over block is dead: it must not contribute definitions any more
            def targets(t):
                out = [t.get('target'), t.get('otherwise')] + [x for _, x in t.get('targets', [])] + list(t.get('succ', []))
                return [x for x in out if isinstance(x, int)]
            if not any(RET in targets(blk['term']) for i_, blk in enumerate(b['blocks']) if i_ != RET):
                b['blocks'][RET] = {'cleanup': False, 'stmts': [], 'term': {'k': 'unreachable', 'span': span, 'exp': True}}
    # promoted constants of the callee are referenced by index: append and remap
    if c.get('promoted'):
        off = len(b.get('promoted', []))
        b.setdefault('promoted', []).extend(c['promoted'])
        for blk in b['blocks'][bbase:]:
            for st in blk['stmts']:
                _shift_promoted(st.get('rv'), off)
            for a in blk['term'].get('args', []) if blk['term']['k'] == 'call' else []:
                _shift_promoted_op(a, off)


def _shift_promoted_op(op, off):
    if isinstance(op, dict) and op.get('k') == 'const' and 'promoted' in op:
        op['promoted'] = op['promoted'] + off


def _shift_promoted(rv, off):
    if not isinstance(rv, dict):
        return
    for key in ('op', 'l', 'r', 'x'):
        if key in rv:
            _shift_promoted_op(rv[key], off)
    for o in rv.get('ops', []):
        _shift_promoted_op(o, off)


def _callee_names(b):
    out = set()
    for blk in b['blocks']:
        t = blk['term']
        if t['k'] == 'call' and 'indirect' not in t['func']:
            f = t['func']
            n = f.get('name')
            if n in ('clone', 'unwrap', 'expect', 'into', 'from', 'deref', 'deref_mut', 'into_iter', 'iter', 'next', 'branch', 'from_residual', 'fmt', 'new_display',
                     'new_debug', 'new', 'enabled', 'log', 'must_use', 'format', 'panic_fmt', 'drop'):
                continue
            owner = f.get('impl_self') or f.get('self_ty') or f.get('trait') or ''
            out.add('%s::%s' % (base_type(owner) if owner else '', n))
    return out


def fingerprints(doc):
    """{qname: sorted callee names} for the non-closure bodies of the crate (what `affcheck inventory` stores next to the inventory),
    plus under '#params' the parameter names of every function by definition path."""
    out = {}
    params = {}
    for b in doc['bodies']:
        if b['kind'] != 'Closure':
            out[_qname_of_dict(b)] = sorted(_callee_names(b))
            names = {}
            for d in b['debug']:
                v = d['value']
                if 'local' in v and not v['proj'] and 1 <= v['local'] <= b['arg_count']:
                    names.setdefault(v['local'], d['name'])
            params[b['path']] = [names.get(i) for i in range(1, b['arg_count'] + 1)]
    out['#params'] = params
    return out


def _load_fingerprints():
    import json
    import os
    p = os.path.join(os.path.dirname(os.path.abspath(__file__)), 'fingerprints.json')
    if not os.path.exists(p):
        return {}
    return json.load(open(p))


def apply_renames(doc, inventory):
    """A private function of the inventory that is gone, and a new private function of the same receiver type that does the same calls: a rename
    (possibly with a changed parameter list, possibly with parts of it moved into further new helpers).  The new function takes the old name
    (in its body record and at every call site), so that rules keep finding their anchor.  Candidates are compared by the set of functions
    they call (new helpers they call are expanded); only a clear best match is taken, anything else is left to the fail-closed anchor check.
    -> [(old qname, new qname)]"""
    if inventory is None:
        return []
    present = {}
    for b in doc['bodies']:
        if b['kind'] != 'Closure':
            present.setdefault(_qname_of_dict(b), []).append(b)
    missing = [q for q in inventory if q not in present and not q.startswith('<')]
    new = [b for b in doc['bodies'] if b['kind'] != 'Closure' and not b.get('is_pub') and _qname_of_dict(b) not in inventory]
    if not missing or not new:
        return []
    fps = _load_fingerprints()
    by_path = {b['path']: b for b in new}
    closures_of = {}
    for b in doc['bodies']:
        if b['kind'] == 'Closure':
            closures_of.setdefault(b.get('root'), []).append(b)

    def expanded(b, seen=()):
        """callee names of b, with calls to other new private functions replaced by what those call"""
        out = set()
        bodies = [b] + closures_of.get(b['path'], [])
        for bb in bodies:
            for blk in bb['blocks']:
                t = blk['term']
                if t['k'] == 'call' and 'indirect' not in t['func']:
                    tgt = t['func'].get('resolved') or t['func'].get('def')
                    if tgt in by_path and tgt not in seen and tgt != b['path']:
                        out |= expanded(by_path[tgt], seen + (b['path'],))
        out |= set().union(*[_callee_names(x) for x in bodies])
        return {x for x in out if x.split('::')[-1] not in {_qname_of_dict(n)['name'] if False else n['name'] for n in new}}

    def owner_of(q):
        return q.rsplit('::', 1)[0] if '::' in q else None

    def sim(a, b_):
        return len(a & b_) / float(len(a | b_)) if (a or b_) else 0.0
    pairs = []
    for q in missing:
        want = set(fps.get(q, []))
        cands = [b for b in new if (base_type(b['impl_self']) if b.get('impl_self') else None) == owner_of(q)]
        lost_same_owner = [m for m in missing if owner_of(m) == owner_of(q)]
        if len(cands) == 1 and len(lost_same_owner) == 1 and not want:
            pairs.append((1.0, q, cands[0]))
            continue
        # callee names of the old body may mention other functions that were renamed too: compare on names that still exist or are std
        newnames = {n['name'] for n in new}
        want_c = {x for x in want if x.split('::')[-1] not in {m.rsplit('::', 1)[-1] for m in missing}}
        scored = sorted(((sim(want_c, expanded(c)), c['path'], c) for c in cands), key=lambda x: (-x[0], x[1]))
        if scored and scored[0][0] >= 0.5 and (len(scored) == 1 or scored[0][0] - scored[1][0] >= 0.15):
            pairs.append((scored[0][0], q, scored[0][2]))
    out = []
    used = set()
    for score, q, b in sorted(pairs, key=lambda x: -x[0]):
        if b['path'] in used:
            continue
        used.add(b['path'])
        old_name = q.rsplit('::', 1)[-1]
        new_q = _qname_of_dict(b)
        path = b['path']
        for bb in doc['bodies']:
            for blk in bb['blocks']:
                t = blk['term']
                if t['k'] == 'call' and (t['func'].get('def') == path or t['func'].get('resolved') == path):
                    t['func'] = dict(t['func'], name=old_name)
        b['name'] = old_name
        out.append((q, new_q))
    return out


def apply_inlining(doc, inventory, depth=3):
    """Inline calls to crate-local, non-public functions that are not in the rule set's inventory (helpers extracted after the
    inventory was taken) into their callers, so that a helper extraction does not hide an anchored construct."""
    if inventory is None:
        return []
    by_def = {}
    for b in doc['bodies']:
        if b['kind'] != 'Closure':
            by_def[b['path']] = b
    def qn(b):
        bb = Body.__new__(Body)
        return None
    done = []
    helpers = {}
    for b in doc['bodies']:
        if b['kind'] == 'Closure' or b.get('is_pub'):
            continue
        q = _qname_of_dict(b)
        if q not in inventory:
            helpers[b['path']] = b
    if not helpers:
        return []
    import copy
    pristine = {p: copy.deepcopy(b) for p, b in helpers.items()}
    for _ in range(depth):
        changed = False
        for b in doc['bodies']:
            n0 = len(b['blocks'])   # only the calls present at the start of this round (bounds recursion)
            for i in range(n0):
                t = b['blocks'][i]['term']
                if t['k'] == 'call' and not b['blocks'][i]['cleanup']:
                    f = t['func']
                    target = f.get('resolved') or f.get('def')
                    if target in pristine and target != b['path'] and t['target'] is not None:
                        inline_call(b, i, copy.deepcopy(pristine[target]))
                        done.append((b['path'], target))
                        changed = True
        if not changed:
            break
    return done


# --------------------------------------------------------------------------------------
# iterator consumers written as method calls are loops: `it.for_each(|x| body)` == `for x in it { body }`


def _unique_closure_def(b, local):
    """path of the closure aggregate assigned to `local` if that is its only definition"""
    found = []
    for blk in b['blocks']:
        for st in blk['stmts']:
            if st['k'] == 'assign' and st['place']['local'] == local and not st['place']['proj']:
                found.append(st['rv'])
        t = blk['term']
        if t['k'] == 'call' and t['dest']['local'] == local and not t['dest']['proj']:
            found.append(None)
    if len(found) == 1 and found[0] is not None and found[0]['k'] == 'agg' and found[0]['agg']['k'] == 'closure':
        return found[0]['agg']['path']
    return None


def _unique_call_def(b, local):
    """the call terminator that is the only definition of `local`, if any"""
    found = []
    for blk in b['blocks']:
        for st in blk['stmts']:
            if st['k'] == 'assign' and st['place']['local'] == local and not st['place']['proj']:
                found.append(None)
        t = blk['term']
        if t['k'] == 'call' and t['dest']['local'] == local and not t['dest']['proj']:
            found.append(t)
    return found[0] if len(found) == 1 else None


def _resolve_ref_aliases(b, first_new_local):
    """After grafting: a grafted local that merely holds `&X` / `&mut X` of a caller place (a by-reference argument, possibly passed on through
    temporaries) is replaced in `*local` accesses by X itself, so that writes through the reference are writes of the caller's variable."""
    import copy
    ndefs, ref_of, copy_of = {}, {}, {}
    for blk in b['blocks']:
        for st in blk['stmts']:
            if st['k'] == 'assign' and not st['place']['proj']:
                l = st['place']['local']
                ndefs[l] = ndefs.get(l, 0) + 1
                rv = st['rv']
                if rv['k'] == 'ref':
                    ref_of[l] = rv['place']
                elif rv['k'] == 'use' and rv['op'].get('k') in ('copy', 'move') and not rv['op']['place']['proj']:
                    copy_of[l] = rv['op']['place']['local']
        t = blk['term']
        if t['k'] == 'call' and not t['dest']['proj']:
            ndefs[t['dest']['local']] = ndefs.get(t['dest']['local'], 0) + 1
    nargs = b.get('arg_count', 0)

    def stable(pl):
        # the referenced place must denote fixed storage: derefs only of single-definition locals or parameters
        if any(p['k'] == 'deref' for p in pl['proj']):
            l = pl['local']
            return (1 <= l <= nargs and ndefs.get(l, 0) == 0) or ndefs.get(l, 0) == 1
        return True

    alias = {}
    for u in range(first_new_local, len(b['locals'])):
        if ndefs.get(u) != 1:
            continue
        x = u
        for _ in range(6):
            if x in ref_of and ndefs.get(x) == 1:
                # a reborrow `&mut *r` refers to what r refers to
                pl = ref_of[x]
                if pl['proj'] and pl['proj'][0]['k'] == 'deref' and len(pl['proj']) == 1 and (pl['local'] in ref_of or pl['local'] in copy_of) and ndefs.get(pl['local']) == 1:
                    x = pl['local']
                    continue
                if stable(pl):
                    alias[u] = pl
                break
            if x in copy_of and ndefs.get(x) == 1:
                x = copy_of[x]
                continue
            break
    if not alias:
        return

    def g(pl):
        if pl['local'] in alias and pl['proj'] and pl['proj'][0]['k'] == 'deref':
            x = alias[pl['local']]
            return {'local': x['local'], 'proj': copy.deepcopy(x['proj']) + pl['proj'][1:]}
        return pl

    _map_places(b['blocks'], g)


def _capture_places(b, clo_local):
    """For the closure aggregate assigned to clo_local: per capture ('ref', place captured by reference) | ('val', place moved/copied) | None."""
    agg = None
    for blk in b['blocks']:
        for st in blk['stmts']:
            if st['k'] == 'assign' and st['place']['local'] == clo_local and not st['place']['proj'] and st['rv']['k'] == 'agg' and st['rv']['agg']['k'] == 'closure':
                agg = st['rv']
    if agg is None:
        return []
    out = []
    for op in agg['ops']:
        if op['k'] not in ('copy', 'move'):
            out.append(None)
            continue
        pl = op['place']
        if not pl['proj']:
            # a temporary holding `&X` / `&mut X`?
            defs = [st['rv'] for blk in b['blocks'] for st in blk['stmts']
                    if st['k'] == 'assign' and st['place']['local'] == pl['local'] and not st['place']['proj']]
            calls = [1 for blk in b['blocks'] if blk['term']['k'] == 'call' and blk['term']['dest']['local'] == pl['local'] and not blk['term']['dest']['proj']]
            if len(defs) == 1 and not calls and defs[0]['k'] == 'ref':
                out.append(('ref', defs[0]['place']))
                continue
        out.append(('val', pl))
    return out


def _map_places(blocks, f):
    """apply f(place) -> place to every place of the given blocks (in place)"""
    def op_(o):
        if isinstance(o, dict) and o.get('k') in ('copy', 'move'):
            o['place'] = f(o['place'])
    for blk in blocks:
        for st in blk['stmts']:
            if 'place' in st:
                st['place'] = f(st['place'])
            rv = st.get('rv')
            if isinstance(rv, dict):
                if 'place' in rv:
                    rv['place'] = f(rv['place'])
                for k in ('op', 'l', 'r', 'x'):
                    if k in rv:
                        op_(rv[k])
                for o in rv.get('ops', []):
                    op_(o)
        t = blk['term']
        if t['k'] == 'call':
            for a in t['args']:
                op_(a)
            t['dest'] = f(t['dest'])
            if 'indirect' in t['func']:
                op_(t['func']['indirect'])
        elif t['k'] == 'switch':
            op_(t['discr'])
        elif t['k'] == 'drop':
            t['place'] = f(t['place'])
        elif t['k'] == 'assert':
            op_(t['cond'])


def _substitute_captures(blocks, env_local, caps):
    """In a grafted closure body, an access to a captured variable through the environment becomes an access to the variable itself
    (`*(*env).k` for a by-reference capture of X is X), so that reads and writes of captured state are reads and writes of the caller's locals."""
    import copy

    def f(pl):
        if pl['local'] != env_local:
            return pl
        proj = pl['proj']
        i = 0
        if i < len(proj) and proj[i]['k'] == 'deref':
            i += 1
        if i >= len(proj) or proj[i]['k'] != 'field' or not (isinstance(proj[i].get('owner'), dict) and 'closure' in proj[i]['owner']):
            return pl
        k = proj[i].get('i')
        if k is None or k >= len(caps) or caps[k] is None:
            return pl
        kind, target = caps[k]
        rest = proj[i + 1:]
        if kind == 'ref':
            if rest and rest[0]['k'] == 'deref':
                rest = rest[1:]
            else:
                return pl   # the reference itself is used as a value: keep the environment access
        return {'local': target['local'], 'proj': copy.deepcopy(target['proj']) + rest}

    # temporaries that hold the captured reference itself (`_t = (*env).k`, then `*_t = v`): they alias the captured variable
    def env_capture(pl):
        if pl['local'] != env_local:
            return None
        proj = pl['proj']
        i = 1 if proj and proj[0]['k'] == 'deref' else 0
        if i < len(proj) and proj[i]['k'] == 'field' and isinstance(proj[i].get('owner'), dict) and 'closure' in proj[i]['owner'] and len(proj) == i + 1:
            k = proj[i].get('i')
            if k is not None and k < len(caps) and caps[k] is not None and caps[k][0] == 'ref':
                return caps[k][1]
        return None

    ndefs = {}
    alias = {}
    for blk in blocks:
        for st in blk['stmts']:
            if st['k'] == 'assign' and not st['place']['proj']:
                l = st['place']['local']
                ndefs[l] = ndefs.get(l, 0) + 1
                rv = st['rv']
                src = None
                if rv['k'] == 'use' and rv['op'].get('k') in ('copy', 'move'):
                    src = rv['op']['place']
                elif rv['k'] in ('ref', 'copy_for_deref') and rv['place']['proj'] and rv['place']['proj'][-1]['k'] == 'deref':
                    # reborrow `&mut *(*env).k`
                    src = {'local': rv['place']['local'], 'proj': rv['place']['proj'][:-1]}
                if src is not None:
                    x = env_capture(src)
                    if x is not None:
                        alias[l] = x
        t = blk['term']
        if t['k'] == 'call' and not t['dest']['proj']:
            ndefs[t['dest']['local']] = ndefs.get(t['dest']['local'], 0) + 1
    alias = {l: x for l, x in alias.items() if ndefs.get(l) == 1}

    def g(pl):
        if pl['local'] in alias and pl['proj'] and pl['proj'][0]['k'] == 'deref':
            x = alias[pl['local']]
            return {'local': x['local'], 'proj': copy.deepcopy(x['proj']) + pl['proj'][1:]}
        return pl

    if alias:
        _map_places(blocks, g)
    _map_places(blocks, f)


def _try_continuation(b, cont, dest_local):
    """The code after a call whose result `dest_local` is tested at once: a straight line from `cont` to either `Try::branch(dest)` followed by
    the switch on Continue/Break, or a switch on the variant of dest itself.  -> (blocks of that line incl. the switch block, target when the
    value is Ok/Some, target when it is Err/None), or None."""
    def single_succ(t):
        if t['k'] in ('goto', 'drop'):
            return t['target']
        return None

    def switch_on(blk, local, names_ok, names_err):
        t = blk['term']
        if t['k'] != 'switch' or t['discr'].get('k') not in ('move', 'copy') or t['discr']['place']['proj']:
            return None
        d = t['discr']['place']['local']
        for st in blk['stmts']:
            if st['k'] == 'assign' and st['place']['local'] == d and not st['place']['proj'] and st['rv']['k'] == 'discr' and \
                    st['rv']['place']['local'] == local and not st['rv']['place']['proj']:
                vmap = {v: n for v, n in st['rv'].get('variants', [])}
                tg = {}
                for v, x in t['targets']:
                    tg[vmap.get(v)] = x
                okt = [tg[n] for n in names_ok if n in tg]
                ert = [tg[n] for n in names_err if n in tg]
                listed = set(vmap.get(v) for v, _ in t['targets'])
                # an unlisted variant goes to `otherwise`
                if not okt and any(n in vmap.values() and n not in listed for n in names_ok):
                    okt = [t['otherwise']]
                if not ert and any(n in vmap.values() and n not in listed for n in names_err):
                    ert = [t['otherwise']]
                if len(okt) == 1 and len(ert) == 1:
                    return okt[0], ert[0]
        return None
    chain = []
    n = cont
    for _ in range(6):
        if n is None or n >= len(b['blocks']):
            return None
        blk = b['blocks'][n]
        t = blk['term']
        if any(st['k'] == 'assign' and st['place']['local'] == dest_local and not st['place']['proj'] for st in blk['stmts']):
            return None
        sw = switch_on(blk, dest_local, ('Ok', 'Some'), ('Err', 'None'))
        if sw is not None:
            return chain + [n], sw[0], sw[1]
        if t['k'] == 'call' and t['func'].get('name') == 'branch' and t['args'] and t['args'][0].get('k') in ('move', 'copy') and not t['args'][0]['place']['proj'] \
                and t['target'] is not None and not t['dest']['proj']:
            a = t['args'][0]['place']['local']
            direct = a == dest_local or any(st['k'] == 'assign' and st['place']['local'] == a and not st['place']['proj'] and st['rv']['k'] == 'use' and
                                             st['rv']['op'].get('k') in ('move', 'copy') and st['rv']['op']['place']['local'] == dest_local and not st['rv']['op']['place']['proj']
                                             for st in blk['stmts'])
            if not direct:
                return None
            r = t['dest']['local']
            chain.append(n)
            m = t['target']
            for _ in range(4):
                blk2 = b['blocks'][m]
                sw = switch_on(blk2, r, ('Continue',), ('Break',))
                if sw is not None:
                    return chain + [m], sw[0], sw[1]
                nn = single_succ(blk2['term'])
                if nn is None:
                    return None
                chain.append(m)
                m = nn
            return None
        nn = single_succ(t)
        if nn is None:
            return None
        chain.append(n)
        n = nn
    return None


def thread_materialised_bools(doc):
    """`if matches!(x, P) { A } else { B }` lowers to: arm P: c = true; goto J   otherwise: c = false; goto J   J: switch c -> A | B.
    A block that ends by assigning a *known* value to c — a boolean constant, or an aggregate whose variant is fixed (`Kind::Hit`, built by
    a classification helper) — and then only copies / negates it / takes its discriminant on a straight line up to a test of it is sent
    straight to the branch that test takes: the detour carries no information and creates the infeasible paths "matched, then else".
    The statements on the way are repeated in the threaded block; only the jump is retargeted.  Returns the number of jumps threaded."""
    n = 0
    for b in doc['bodies']:
        blocks = b['blocks']
        for P in blocks:
            pt = P['term']
            if pt['k'] != 'goto' or not isinstance(pt.get('target'), int) or not P['stmts'] or P['cleanup']:
                continue
            st = P['stmts'][-1]
            if st['k'] != 'assign' or st['place']['proj']:
                continue
            rv = st['rv']
            if rv['k'] == 'use' and rv['op']['k'] == 'const' and isinstance(rv['op'].get('val'), bool):
                val = ('bool', rv['op']['val'])
            elif rv['k'] == 'agg' and rv['agg']['k'] == 'adt' and isinstance(rv['agg'].get('variant_idx'), int):
                val = ('variant', rv['agg']['variant_idx'])
            else:
                continue
            env = {st['place']['local']: val}
            extra = []
            cur = pt['target']
            dest = None
            for _hop in range(4):
                J = blocks[cur]
                if J is P or J['cleanup']:
                    break
                ok = True
                for jst in J['stmts']:
                    jr = jst.get('rv') or {}
                    if jst['k'] != 'assign' or jst['place']['proj']:
                        ok = False
                        break
                    dst = jst['place']['local']
                    if jr.get('k') == 'use' and jr['op']['k'] in ('move', 'copy') and not jr['op']['place']['proj'] and jr['op']['place']['local'] in env:
                        env[dst] = env[jr['op']['place']['local']]
                    elif jr.get('k') == 'unop' and jr.get('op') == 'Not' and jr['x']['k'] in ('move', 'copy') and not jr['x']['place']['proj'] \
                            and env.get(jr['x']['place']['local'], ('?',))[0] == 'bool':
                        env[dst] = ('bool', not env[jr['x']['place']['local']][1])
                    elif jr.get('k') == 'discr' and not jr['place']['proj'] and env.get(jr['place']['local'], ('?',))[0] == 'variant':
                        # the discriminant *value* of the variant, as listed by the driver
                        vidx = env[jr['place']['local']][1]
                        vals = [x[0] for x in jr.get('variants', [])]
                        if vidx >= len(vals):
                            ok = False
                            break
                        env[dst] = ('int', vals[vidx])
                    else:
                        ok = False
                        break
                    extra.append(jst)
                if not ok:
                    break
                t = J['term']
                if t['k'] == 'goto' and isinstance(t.get('target'), int):
                    cur = t['target']
                    continue
                if t['k'] == 'switch' and t['discr']['k'] in ('move', 'copy') and not t['discr']['place']['proj'] and t['discr']['place']['local'] in env:
                    v = env[t['discr']['place']['local']]
                    key = (1 if v[1] else 0) if v[0] == 'bool' else (v[1] if v[0] == 'int' else None)
                    if key is not None:
                        tg = dict((a, x) for a, x in t['targets'])
                        dest = tg.get(key, t['otherwise'])
                break
            if isinstance(dest, int):
                P['stmts'] = P['stmts'] + extra
                P['term'] = dict(pt, target=dest)
                n += 1
    return n


def _thread_known_returns(b, grafted, ret_local, RET, H, EARLY):
    """In a grafted closure returning Result<(), E>: where the value returned is statically Ok (`Ok(())` literal) or Err (`?` residual), route that
    return directly to the loop header / the early exit instead of through the Ok/Err test at RET, so that no infeasible path
    (an `Err` return that continues the loop) exists in the rewritten body.  Straight-line tails (drops, storage) are cloned."""
    import copy

    def single_succ(t):
        if t['k'] in ('goto', 'drop'):
            return t['target']
        return None

    for g in list(grafted):
        blk = b['blocks'][g]
        kind = None
        t = blk['term']
        if t['k'] == 'call' and t['dest']['local'] == ret_local and not t['dest']['proj']:
            if t['func'].get('name') == 'from_residual':
                kind = 'Err'
            nxt_key = 'target'
        else:
            for st in blk['stmts']:
                if st['k'] == 'assign' and st['place']['local'] == ret_local and not st['place']['proj']:
                    rv = st['rv']
                    kind = rv['agg'].get('variant') if rv['k'] == 'agg' and rv['agg']['k'] == 'adt' and rv['agg'].get('variant') in ('Ok', 'Err', 'Some', 'None') else None
                    kind = {'Some': 'Ok', 'None': 'Err'}.get(kind, kind)
            nxt_key = 'target' if single_succ(t) is not None else None
        if kind is None or nxt_key is None or t.get(nxt_key) is None:
            continue
        # follow the straight-line tail to RET
        chain = []
        n = t[nxt_key]
        ok = False
        for _ in range(10):
            if n == RET:
                ok = True
                break
            tb = b['blocks'][n]
            if any(st['k'] == 'assign' and st['place']['local'] == ret_local for st in tb['stmts']):
                break
            nn = single_succ(tb['term'])
            if nn is None:
                break
            chain.append(n)
            n = nn
        if not ok:
            continue
        final = H if kind == 'Ok' else EARLY
        first = final
        prev = None
        for n in chain:
            nb = copy.deepcopy(b['blocks'][n])
            idx = len(b['blocks'])
            b['blocks'].append(nb)
            if prev is None:
                first = idx
            else:
                b['blocks'][prev]['term']['target'] = idx
            prev = idx
        if prev is not None:
            b['blocks'][prev]['term']['target'] = final
        t[nxt_key] = first


def devirtualize_fn_values(doc):
    """`f(args)` where f is known to be a function item of this crate (handed down as an argument to a helper that was grafted into its caller,
    or bound to a local): rewrite `Fn::call(f, (a, b, ..))` into the direct call `that_fn(a, b, ..)`, so that call-site queries find it."""
    by_path = {b['path']: b for b in doc['bodies'] if b['kind'] != 'Closure'}
    n = 0
    for b in doc['bodies']:
        # single-definition locals
        defs = {}
        for blk in b['blocks']:
            for st in blk['stmts']:
                if st['k'] == 'assign' and not st['place']['proj']:
                    defs.setdefault(st['place']['local'], []).append(st['rv'])
            t = blk['term']
            if t['k'] == 'call' and not t['dest']['proj']:
                defs.setdefault(t['dest']['local'], []).append(None)

        def fn_item(op, depth=0):
            if op.get('k') == 'const' and 'fn' in op:
                return op['fn']
            if op.get('k') in ('copy', 'move') and depth < 6:
                pl = op['place']
                proj = [p for p in pl['proj'] if p['k'] != 'deref']
                if proj:
                    return None
                d = defs.get(pl['local'], [])
                if len(d) == 1 and d[0] is not None:
                    rv = d[0]
                    if rv['k'] in ('use', 'cast'):   # `f as fn(..)` (reification of a function item) keeps the function
                        return fn_item(rv['op'], depth + 1)
                    if rv['k'] in ('ref', 'copy_for_deref') and not [p for p in rv['place']['proj'] if p['k'] != 'deref']:
                        return fn_item({'k': 'copy', 'place': {'local': rv['place']['local'], 'proj': []}}, depth + 1)
            return None
        for blk in b['blocks']:
            t = blk['term']
            if t['k'] == 'call' and 'indirect' in t['func']:
                # a call through a `fn(..)` pointer whose value is a known function item
                path = fn_item(t['func']['indirect'])
                if path is not None and path in by_path:
                    target = by_path[path]
                    f = {'def': path, 'generic_args': [], 'name': target['name'], 'local': True}
                    if target.get('impl_self'):
                        f['impl_self'] = target['impl_self']
                    t['func'] = f
                    n += 1
                continue
            if t['k'] != 'call' or t['func'].get('def') not in ('std::ops::Fn::call', 'std::ops::FnMut::call_mut', 'std::ops::FnOnce::call_once') or len(t['args']) != 2:
                continue
            path = fn_item(t['args'][0])
            if path is None:
                continue
            if path not in by_path:
                # a tuple-variant constructor used as a function value (`push_partial(idx, Layer::ReLU)` .. `activation(idx)`): calling it
                # builds that variant from the arguments
                adts = {a['path']: a for a in doc.get('adts', [])}
                enum_path, _, vname = path.rpartition('::')
                adt = adts.get(enum_path)
                tup = t['args'][1]
                ops = None
                if tup.get('k') in ('copy', 'move') and not tup['place']['proj']:
                    d = defs.get(tup['place']['local'], [])
                    if len(d) == 1 and d[0] is not None and d[0]['k'] == 'agg' and d[0]['agg']['k'] == 'tuple':
                        ops = d[0]['ops']
                if adt is not None and adt.get('kind') == 'Enum' and ops is not None and t.get('target') is not None:
                    names = [v['name'] for v in adt['variants']]
                    if vname in names and len(adt['variants'][names.index(vname)]['fields']) == len(ops):
                        vi = names.index(vname)
                        rv = {'k': 'agg', 'agg': {'k': 'adt', 'path': enum_path, 'variant': vname, 'variant_idx': vi,
                                                  'fields': [f_['name'] for f_ in adt['variants'][vi]['fields']]}, 'ops': list(ops)}
                        blk['stmts'].append({'k': 'assign', 'place': t['dest'], 'rv': rv, 'span': t['span'], 'exp': t.get('exp', False)})
                        blk['term'] = {'k': 'goto', 'target': t['target'], 'span': t['span'], 'exp': True}
                        n += 1
                continue
            tup = t['args'][1]
            ops = None
            if tup.get('k') in ('copy', 'move') and not tup['place']['proj']:
                d = defs.get(tup['place']['local'], [])
                if len(d) == 1 and d[0] is not None and d[0]['k'] == 'agg' and d[0]['agg']['k'] == 'tuple':
                    ops = d[0]['ops']
            if ops is None:
                continue
            target = by_path[path]
            f = {'def': path, 'generic_args': [], 'name': target['name'], 'local': True}
            if target.get('impl_self'):
                f['impl_self'] = target['impl_self']
            t['func'] = f
            t['args'] = list(ops)
            n += 1
    return n


def _qname_of_dict(b):
    st = b.get('impl_self')
    tr = b.get('impl_trait')
    if tr:
        return '<%s as %s>::%s' % (base_type(st), strip_generics_inner(tr).split('::')[-1], b['name'])
    if st:
        return '%s::%s' % (base_type(st), b['name'])
    return b['name']


def _const_initialiser(c):
    """value expression of a crate `const` item whose initialiser is straight-line (aggregates of literals and of other constants);
    None where it is not (calls, arithmetic): the constant then stays opaque"""
    env = {}

    def operand(op):
        if op['k'] in ('copy', 'move'):
            if op['place']['proj']:
                raise KeyError
            return env[op['place']['local']]
        if 'val' in op:
            return ('const', op['val'])
        if 'str' in op:
            return ('const', op['str'])
        if 'fn' in op:
            return ('fn', strip_generics(op['fn']))
        raise KeyError

    bb = 0
    try:
        for _ in range(64):
            bl = c['blocks'][bb]
            for st in bl['stmts']:
                if st['k'] != 'assign':
                    continue
                if st['place']['proj']:
                    raise KeyError
                rv = st['rv']
                if rv['k'] == 'use':
                    v = operand(rv['op'])
                elif rv['k'] == 'cast':
                    v = operand(rv['op'])
                elif rv['k'] == 'agg' and rv['agg']['k'] in ('tuple', 'array'):
                    v = ('agg', rv['agg']['k'], tuple(operand(o) for o in rv['ops']))
                else:
                    raise KeyError
                env[st['place']['local']] = v
            t = bl['term']
            if t['k'] == 'return':
                return env.get(0)
            if t['k'] in ('goto', 'drop'):
                bb = t['target']
            else:
                return None
    except (KeyError, IndexError):
        return None
    return None


class Facts:
    def __init__(self, doc):
        self.doc = doc
        self.meta = doc['meta']
        from .desugar import apply_desugaring
        self.threaded_bools = thread_materialised_bools(doc)
        self.desugared = apply_desugaring(doc)
        self.renamed = apply_renames(doc, _load_inventory())
        self.inlined = apply_inlining(doc, _load_inventory())
        self.devirtualized = devirtualize_fn_values(doc)
        self.threaded_bools += thread_materialised_bools(doc)
        from .desugar import unroll_literal_loops, inline_closure_calls_again
        self.desugared += inline_closure_calls_again(doc)
        self.unrolled = unroll_literal_loops(doc)
        self.helper_paths = {h for _, h in self.inlined} | {c for _, c in self.desugared}
        self.adts = {a['path']: a for a in doc['adts']}
        self.param_names = _load_fingerprints().get('#params', {})
        tinv = _load_type_inventory()
        self.transparent_adts = set() if tinv is None else {strip_generics(a['path']) for a in doc['adts'] if a['kind'] == 'Struct' and a['path'] not in tinv}
        self.all_bodies = [Body(self, b) for b in doc['bodies']]
        self.by_path = {b.path: b for b in self.all_bodies}
        self.const_values = {c['path']: _const_initialiser(c) for c in doc.get('consts', [])}
        # units of analysis: helpers grafted into their callers and closures rewritten into loops are not analysed a second time on their own
        self.bodies = [b for b in self.all_bodies if b.path not in self.helper_paths]
        self.by_qname = {}
        for b in self.all_bodies:
            self.by_qname.setdefault(b.qname, []).append(b)
        self.closures_of = {}
        for b in self.all_bodies:
            if b.kind == 'Closure':
                self.closures_of.setdefault(b.root, []).append(b)

    @staticmethod
    def load(path):
        with open(path) as f:
            return Facts(json.load(f))

    def q(self, qname, **kw):
        """Unique body with this qname (None if absent, error if ambiguous unless filtered)."""
        c = self.by_qname.get(qname, [])
        if 'trait' in kw:
            c = [b for b in c if b.impl_trait_base == kw['trait']]
        if 'path_contains' in kw:
            c = [b for b in c if kw['path_contains'] in b.path]
        if not c:
            return None
        if len(c) > 1:
            raise KeyError('ambiguous qname %s: %s' % (qname, [b.path for b in c]))
        return c[0]

    def units(self):
        """Bodies that are analysed as units of their own: helpers that were inlined into their callers are excluded."""
        return list(self.bodies)

    def qs(self, qname):
        return list(self.by_qname.get(qname, []))

    def closure(self, path):
        return self.by_path.get(path)

    def adt(self, name):
        c = [a for p, a in self.adts.items() if p.split('::')[-1] == name]
        return c[0] if len(c) == 1 else None

    def callers_of(self, pred):
        for b in self.bodies:
            for bb, t in b.calls():
                if pred(Callee(t['func'])):
                    yield b, bb, t


class Callee:
    """Normalised view on a call terminator's `func`."""

    def __init__(self, f):
        self.f = f
        self.indirect = 'indirect' in f
        self.def_path = f.get('def')
        self.name = f.get('name')
        self.trait = strip_generics(f['trait']).split('::')[-1] if f.get('trait') else None
        self.trait_path = strip_generics(f['trait']) if f.get('trait') else None
        self.self_ty = f.get('self_ty') or f.get('impl_self')
        self.self_base = base_type(self.self_ty) if self.self_ty else None
        self.resolved = f.get('resolved')
        self.local = bool(f.get('local')) or bool(f.get('resolved_local'))
        self.generic_args = f.get('generic_args', [])

    @property
    def qname(self):
        if self.indirect:
            return '<indirect>'
        if self.trait:
            return '<%s as %s>::%s' % (self.self_base, self.trait, self.name)
        if self.self_base:
            return '%s::%s' % (self.self_base, self.name)
        return strip_generics(self.def_path).split('::')[-1]

    @property
    def short(self):
        """`Type::name` / `Trait::name` / `name` (for matching sets of callees).  Methods of crate-local
        traits called on a concrete type are named by that type (`Bfs::iter`), on a type parameter by the trait."""
        if self.indirect:
            return '<indirect>'
        if self.trait:
            if self.f.get('local') and self.self_base and not re.fullmatch(r'[A-Z][A-Za-z]?', self.self_base) and self.self_base != 'Self':
                return '%s::%s' % (self.self_base, self.name)
            return '%s::%s' % (self.trait, self.name)
        if self.self_base:
            return '%s::%s' % (self.self_base, self.name)
        return self.name

    def is_(self, *names):
        """Match against `name`, `Type::name`, `Trait::name`, `<Type as Trait>::name`."""
        for n in names:
            if n == self.name or n == self.short or n == self.qname:
                return True
            if self.self_base and n == '%s::%s' % (self.self_base, self.name):
                return True
        return False

    def __repr__(self):
        return self.qname


EXIT = -1  # virtual exit (return)
DIVERGE = -2  # virtual exit (panic / unreachable)


class Body:
    def __init__(self, facts, b):
        self.facts = facts
        self.b = b
        self.path = b['path']
        self.kind = b['kind']
        self.name = b['name']
        self.root = b.get('root')
        self.parent = b.get('parent')
        self.impl_self = b.get('impl_self')
        self.impl_trait = b.get('impl_trait')
        self.impl_trait_base = strip_generics_inner(self.impl_trait).split('::')[-1] if self.impl_trait else None
        self.trait_default_of = b.get('trait_default_of')
        self.is_pub = b.get('is_pub', False)
        self.span = b['span']
        self.file = self.span.split(':')[0]
        self.from_expansion = b['from_expansion']
        self.arg_count = b['arg_count']
        self.locals = b['locals']
        self.blocks = b['blocks']
        self.debug = b['debug']
        self.self_base = base_type(self.impl_self) if self.impl_self else None
        self._names = {}
        for d in self.debug:
            v = d['value']
            if 'local' in v and not v['proj']:
                self._names.setdefault(v['local'], d['name'])
        # parameters are referred to by the names they had when the rule set was written (a renamed parameter is the same parameter)
        known = getattr(facts, 'param_names', {}).get(self.path)
        if known and len(known) == self.arg_count and self.kind != 'Closure':
            for i, n in enumerate(known):
                if n:
                    self._names[i + 1] = n
        self._cfg = None
        self._dom = None
        self._defs = None
        self._resolve_cache = {}

    # ---- naming
    @property
    def qname(self):
        if self.kind == 'Closure':
            return self.path
        if self.impl_trait_base:
            return '<%s as %s>::%s' % (self.self_base, self.impl_trait_base, self.name)
        if self.self_base:
            return '%s::%s' % (self.self_base, self.name)
        return self.name

    def local_name(self, l):
        return self._names.get(l)

    def local_ty(self, l):
        return self.locals[l]['ty']

    def arg_names(self):
        return [self._names.get(i, '_%d' % i) for i in range(1, self.arg_count + 1)]

    def local_by_name(self, name):
        r = [l for l, n in self._names.items() if n == name]
        return r

    def ret_ty(self):
        return self.locals[0]['ty']

    def __repr__(self):
        return 'Body(%s)' % self.qname

    # ---- iteration
    def _reachable_blocks(self):
        """block indices reachable from the entry over the non-unwind edges (grafting and jump threading leave dead blocks behind)"""
        if getattr(self, '_reach_blocks', None) is None:
            seen = set()
            st = [0]
            while st:
                n = st.pop()
                if n in seen or not isinstance(n, int) or n < 0 or n >= len(self.blocks):
                    continue
                seen.add(n)
                t = self.blocks[n]['term']
                k = t['k']
                if k in ('goto', 'drop', 'call', 'assert'):
                    if t.get('target') is not None:
                        st.append(t['target'])
                elif k == 'switch':
                    st.extend(x for _, x in t['targets'])
                    st.append(t['otherwise'])
                elif k == 'other':
                    st.extend(t.get('succ', []))
            self._reach_blocks = seen
        return self._reach_blocks

    def live_blocks(self):
        reach = self._reachable_blocks()
        for i, bl in enumerate(self.blocks):
            if not bl['cleanup'] and i in reach:
                yield i, bl

    def calls(self):
        for i, bl in self.live_blocks():
            t = bl['term']
            if t['k'] == 'call':
                yield i, t

    def calls_to(self, *names):
        for i, t in self.calls():
            if Callee(t['func']).is_(*names):
                yield i, t

    def stmts(self):
        for i, bl in self.live_blocks():
            for j, s in enumerate(bl['stmts']):
                yield i, j, s

    def where(self, bb, idx=None):
        bl = self.blocks[bb]
        if idx is None or idx == 'term' or idx >= len(bl['stmts']):
            return bl['term']['span']
        return bl['stmts'][idx]['span']

    # ---- CFG
    def cfg(self):
        if self._cfg is None:
            self._cfg = CFG(self)
        return self._cfg

    # ---- defs
    def defs(self):
        """local -> list of (bb, idx) where idx is stmt index or 'term' (call destination),
        only whole-local assignments (no projection)."""
        if self._defs is None:
            d = {}
            for i, bl in self.live_blocks():
                for j, s in enumerate(bl['stmts']):
                    if s['k'] == 'assign' and not s['place']['proj']:
                        d.setdefault(s['place']['local'], []).append((i, j))
                t = bl['term']
                if t['k'] == 'call' and not t['dest']['proj']:
                    d.setdefault(t['dest']['local'], []).append((i, 'term'))
            self._defs = d
        return self._defs

    def upvar_index(self):
        """closure body: {captured variable name: index in the closure's capture list}"""
        out = {}

        def scan_place(pl):
            for p in pl.get('proj', []):
                o = p.get('owner')
                if p['k'] == 'field' and isinstance(o, dict) and 'closure' in o:
                    n = p['name']
                    if n.startswith('_ref__'):
                        n = n[len('_ref__'):]
                    out[n] = p['i']

        def scan_op(op):
            if isinstance(op, dict) and op.get('k') in ('copy', 'move'):
                scan_place(op['place'])

        for bl in self.blocks:
            for st in bl['stmts']:
                if 'place' in st:
                    scan_place(st['place'])
                rv = st.get('rv')
                if isinstance(rv, dict):
                    if 'place' in rv:
                        scan_place(rv['place'])
                    for k in ('op', 'l', 'r', 'x'):
                        if k in rv:
                            scan_op(rv[k])
                    for o in rv.get('ops', []):
                        scan_op(o)
            t = bl['term']
            for a in t.get('args', []) if t['k'] == 'call' else []:
                scan_op(a)
            if t['k'] == 'switch':
                scan_op(t['discr'])
            if t['k'] == 'call':
                scan_place(t['dest'])
        for d in self.debug:
            if 'local' in d['value']:
                scan_place(d['value'])
        return out

    def closure_bodies(self):
        roots = {self.path} | set(self.b.get('inlined', []))
        return [b for b in self.facts.bodies if b.kind == 'Closure' and b.root in roots]


class CFG:
    """Unwind-free CFG with split switch/assert edges.

    Nodes: ints (blocks), EXIT, DIVERGE and ('e', bb, k) virtual nodes for the k-th outgoing
    edge of a block with several successors.  `edge_label[(bb,k)]` describes the outcome.
    """

    def __init__(self, body: Body):
        self.body = body
        self.succ = {}
        self.pred = {}
        self.edge_label = {}
        self.nodes = []
        for i, bl in body.live_blocks():
            t = bl['term']
            k = t['k']
            outs = []  # (label, target)
            if k == 'goto':
                outs = [(None, t['target'])]
            elif k == 'switch':
                # outcomes leading to the same block form one edge (or-patterns): label = ('sw', (v1, v2, ..))
                by_tgt = {}
                order = []
                for v, tgt in list(t['targets']) + [['otherwise', t['otherwise']]]:
                    if tgt not in by_tgt:
                        by_tgt[tgt] = []
                        order.append(tgt)
                    by_tgt[tgt].append(v)
                for tgt in order:
                    outs.append((('sw', tuple(by_tgt[tgt])), tgt))
            elif k == 'return':
                outs = [(None, EXIT)]
            elif k in ('unreachable', 'resume'):
                outs = [(None, DIVERGE)]
            elif k == 'drop':
                outs = [(None, t['target'])]
            elif k == 'call':
                outs = [(None, t['target'] if t['target'] is not None else DIVERGE)]
            elif k == 'assert':
                outs = [(('assert', True), t['target']), (('assert', False), DIVERGE)]
            else:
                outs = [(None, s) for s in t.get('succ', [])] or [(None, DIVERGE)]
            # cleanup targets cannot occur on the non-unwind edges
            if len(outs) == 1:
                self._add(i, outs[0][1])
            else:
                for n, (lab, tgt) in enumerate(outs):
                    e = ('e', i, n)
                    self.edge_label[e] = lab
                    self._add(i, e)
                    self._add(e, tgt)
        for n in (EXIT, DIVERGE):
            self.succ.setdefault(n, [])
            self.pred.setdefault(n, [])
        self.entry = 0
        self._idom = None
        self._ipdom = None
        self._reach = None

    def _add(self, a, b):
        self.succ.setdefault(a, []).append(b)
        self.pred.setdefault(b, []).append(a)
        self.succ.setdefault(b, [])
        self.pred.setdefault(a, [])

    # -- reachability from entry
    def reachable(self):
        if self._reach is None:
            seen = {self.entry}
            st = [self.entry]
            while st:
                n = st.pop()
                for s in self.succ.get(n, []):
                    if s not in seen:
                        seen.add(s)
                        st.append(s)
            self._reach = seen
        return self._reach

    # -- dominators (iterative, Cooper/Harvey/Kennedy)
    @staticmethod
    def _idoms(entry, succ, pred):
        order = []
        seen = set()

        def dfs(n):
            stack = [(n, iter(succ.get(n, [])))]
            seen.add(n)
            while stack:
                node, it = stack[-1]
                for s in it:
                    if s not in seen:
                        seen.add(s)
                        stack.append((s, iter(succ.get(s, []))))
                        break
                else:
                    order.append(node)
                    stack.pop()

        dfs(entry)
        rpo = list(reversed(order))
        idx = {n: i for i, n in enumerate(rpo)}
        idom = {entry: entry}
        changed = True
        while changed:
            changed = False
            for n in rpo[1:]:
                ps = [p for p in pred.get(n, []) if p in idom]
                if not ps:
                    continue
                new = ps[0]
                for p in ps[1:]:
                    a, b = p, new
                    while a != b:
                        while idx[a] > idx[b]:
                            a = idom[a]
                        while idx[b] > idx[a]:
                            b = idom[b]
                    new = a
                if idom.get(n) != new:
                    idom[n] = new
                    changed = True
        return idom

    def idom(self):
        if self._idom is None:
            self._idom = self._idoms(self.entry, self.succ, self.pred)
        return self._idom

    def dominates(self, a, b):
        """a dominates b (reflexive)."""
        idom = self.idom()
        if b not in idom:
            return False
        n = b
        while True:
            if n == a:
                return True
            p = idom.get(n)
            if p is None or p == n:
                return False
            n = p

    def dominators(self, b):
        idom = self.idom()
        out = []
        n = b
        if n not in idom:
            return out
        while True:
            out.append(n)
            p = idom[n]
            if p == n:
                break
            n = p
        return out

    def ipdom(self, exits=(EXIT,)):
        """Post-dominators w.r.t. a virtual sink joined from `exits`."""
        key = tuple(exits)
        if self._ipdom is None:
            self._ipdom = {}
        if key not in self._ipdom:
            SINK = 'sink'
            succ = {n: list(p) for n, p in self.pred.items()}  # reversed graph
            pred = {n: list(s) for n, s in self.succ.items()}
            succ[SINK] = list(exits)
            for e in exits:
                pred.setdefault(e, []).append(SINK)
            pred[SINK] = []
            self._ipdom[key] = self._idoms(SINK, succ, pred)
        return self._ipdom[key]

    def postdominates(self, a, b, exits=(EXIT,)):
        """a post-dominates b: every path from b to one of `exits` passes a."""
        ip = self.ipdom(exits)
        if b not in ip:
            return False
        n = b
        while True:
            if n == a:
                return True
            p = ip.get(n)
            if p is None or p == n or p == 'sink':
                return a == p
            n = p

    def guards(self, bb):
        """List of (switch_bb, label) edges that dominate block `bb`."""
        out = []
        for n in self.dominators(bb):
            if isinstance(n, tuple) and n[0] == 'e':
                out.append((n[1], self.edge_label[n]))
        return out

    def edge_nodes(self, bb):
        return [s for s in self.succ.get(bb, []) if isinstance(s, tuple)]

    def reaches(self, a, b, avoid=()):
        """Is there a path a ->* b (a != b allowed equal) not passing through nodes in avoid."""
        avoid = set(avoid)
        seen = set()
        st = [a]
        while st:
            n = st.pop()
            if n == b:
                return True
            if n in seen or n in avoid:
                continue
            seen.add(n)
            st.extend(self.succ.get(n, []))
        return False

    def reach_set(self, a, avoid=()):
        avoid = set(avoid)
        seen = set()
        st = [a]
        while st:
            n = st.pop()
            if n in seen or n in avoid:
                continue
            seen.add(n)
            st.extend(self.succ.get(n, []))
        return seen

    def back_edges(self):
        out = []
        for a, ss in self.succ.items():
            for s in ss:
                if self.dominates(s, a):
                    out.append((a, s))
        return out

    def loop_of(self, header):
        """Natural loop body (set of nodes) of a loop header."""
        body = {header}
        for a, h in self.back_edges():
            if h != header:
                continue
            st = [a]
            while st:
                n = st.pop()
                if n in body:
                    continue
                body.add(n)
                st.extend(self.pred.get(n, []))
        return body

    def loop_exits(self, header):
        """Edges (a, b) that leave the natural loop of `header` without diverging: a in the loop, b outside, b != DIVERGE."""
        body = self.loop_of(header)
        out = []
        for a in body:
            for b_ in self.succ.get(a, []):
                if b_ in body or b_ == DIVERGE:
                    continue
                if isinstance(b_, tuple):
                    # a split edge: report (edge node, its target) unless it only diverges
                    for c in self.succ.get(b_, []):
                        if c != DIVERGE and not self._only_diverges(c):
                            out.append((b_, c))
                elif not self._only_diverges(b_):
                    out.append((a, b_))
        return out

    def _only_diverges(self, n):
        seen = set()
        st = [n]
        while st:
            x = st.pop()
            if x in seen:
                continue
            seen.add(x)
            if x == EXIT:
                return False
            st.extend(self.succ.get(x, []))
        return True

    def loop_headers(self):
        return sorted({h for _, h in self.back_edges()}, key=str)


# --------------------------------------------------------------------------------------
# value resolution (provenance)

TRANSPARENT_CALLS = {
    'clone', 'to_owned', 'borrow', 'borrow_mut', 'deref', 'deref_mut', 'as_ref', 'as_mut', 'into',
    'unwrap', 'expect', 'view', 'to_vec', 'as_slice', 'as_mut_slice', 'by_ref', 'copied', 'cloned',
    'as_str', 'to_string', 'into_iter', 'iter', 'iter_mut', 'into_owned',
}
PAYLOAD_VARIANTS = {'Some', 'Ok', 'Continue'}


class Resolver:
    """Symbolic resolution of MIR operands to expression trees.

    Expressions are nested tuples:
      ('param', name) | ('upvar', name) | ('const', value) | ('fn', path)
      ('field', base, name) | ('vfield', base, variant, name) | ('index', base, idx)
      ('call', short_name, (args...), bb) | ('agg', kind, (ops...)) | ('bin', op, l, r)
      ('un', op, x) | ('discr', x) | ('cast', x) | ('phi', local, (alts...)) | ('local', l)
      ('closure', path, (captures...)) | ('payload', x, variant) | ('repeat', x)
    level 0: only copies/moves/refs/derefs are looked through;
    level 1 (default): identity-like calls and Option/Result payload extraction too.
    """

    def __init__(self, body: Body, level=1):
        self.body = body
        self.level = level
        self.cache = {}
        self._busy = set()
        self._busy_locals = set()
        self.cyclic = self._find_cyclic()

    def _find_cyclic(self):
        """Loop-carried variables: in every dependency cycle between locals pick the user-named
        multi-definition locals (else any multi-definition local) as the cut points."""
        body = self.body
        deps = {}

        def reads_place(pl, acc):
            acc.add(pl['local'])
            for p in pl['proj']:
                if p['k'] == 'index':
                    acc.add(p['local'])

        def reads_op(op, acc):
            if op['k'] in ('copy', 'move'):
                reads_place(op['place'], acc)

        def reads_rv(rv, acc):
            k = rv['k']
            if k in ('use', 'cast', 'repeat'):
                reads_op(rv['op'], acc)
            elif k in ('ref', 'rawptr', 'copy_for_deref', 'discr'):
                reads_place(rv['place'], acc)
            elif k == 'agg':
                for o in rv['ops']:
                    reads_op(o, acc)
            elif k == 'binop':
                reads_op(rv['l'], acc)
                reads_op(rv['r'], acc)
            elif k == 'unop':
                reads_op(rv['x'], acc)

        for (l, ds) in body.defs().items():
            acc = set()
            for (dbb, didx) in ds:
                bl = body.blocks[dbb]
                if didx == 'term':
                    t = bl['term']
                    for a in t['args']:
                        reads_op(a, acc)
                    if 'indirect' in t['func']:
                        reads_op(t['func']['indirect'], acc)
                else:
                    reads_rv(bl['stmts'][didx]['rv'], acc)
            deps[l] = acc
        # Tarjan SCC
        index = {}
        low = {}
        onst = set()
        st = []
        sccs = []
        counter = [0]
        import sys
        sys.setrecursionlimit(max(10000, sys.getrecursionlimit()))

        def strong(v):
            index[v] = low[v] = counter[0]
            counter[0] += 1
            st.append(v)
            onst.add(v)
            for w in deps.get(v, ()):
                if w not in deps:
                    continue
                if w not in index:
                    strong(w)
                    low[v] = min(low[v], low[w])
                elif w in onst:
                    low[v] = min(low[v], index[w])
            if low[v] == index[v]:
                comp = []
                while True:
                    w = st.pop()
                    onst.discard(w)
                    comp.append(w)
                    if w == v:
                        break
                sccs.append(comp)

        for v in list(deps):
            if v not in index:
                strong(v)
        cyc = set()
        ndefs = {l: len(ds) for l, ds in body.defs().items()}
        for comp in sccs:
            if len(comp) == 1 and comp[0] not in deps.get(comp[0], ()):
                continue
            named = [l for l in comp if ndefs.get(l, 0) >= 2 and body.local_name(l)]
            multi = [l for l in comp if ndefs.get(l, 0) >= 2]
            cyc.update(named or multi)
        return cyc

    # reaching definitions for a whole local at a program point
    def reaching(self, local, bb, idx):
        """Definition sites (bb, idx|'term') of `local` that reach the point just before
        statement idx of block bb (idx may be 'term' or len(stmts))."""
        body = self.body
        defs = body.defs().get(local, [])
        if not defs:
            return []
        if len(defs) == 1:
            return list(defs)
        defset = set(defs)
        cfg = body.cfg()
        out = set()
        seen = set()

        def scan_block(b, upto):
            """scan statements of block b backwards from index upto-1; True if def found."""
            bl = body.blocks[b]
            n = len(bl['stmts'])
            if upto == 'term':
                upto = n
            if upto == 'after':
                if (b, 'term') in defset:
                    out.add((b, 'term'))
                    return True
                upto = n
            for j in range(upto - 1, -1, -1):
                if (b, j) in defset:
                    out.add((b, j))
                    return True
            return False

        if scan_block(bb, idx):
            return sorted(out, key=str)
        st = [bb]
        while st:
            n = st.pop()
            for p in cfg.pred.get(n, []):
                if p in seen:
                    continue
                seen.add(p)
                if isinstance(p, tuple):
                    st.append(p)
                    continue
                if p in (EXIT, DIVERGE):
                    continue
                if not scan_block(p, 'after'):
                    st.append(p)
        return sorted(out, key=str)

    def operand(self, op, bb, idx):
        k = op['k']
        if k in ('copy', 'move'):
            return self.place(op['place'], bb, idx)
        if k == 'const':
            if 'fn' in op:
                # a crate-local function used as a value (`.filter(is_dead)`) is a closure without captures
                fb = self.body.facts.by_path.get(op['fn'])
                if fb is not None and fb.kind != 'Closure':
                    return ('closure', op['fn'], ())
                return ('fn', strip_generics(op['fn']))
            if 'val' in op:
                return ('const', op['val'])
            if 'promoted' in op:
                pv = self._promoted_value(op['promoted'])
                if pv is not None:
                    return pv
            if 'str' in op:
                return ('const', op['str'])
            if 'const_def' in op:
                cv = self.body.facts.const_values.get(op['const_def'])
                if cv is not None:
                    return cv
            return ('const', op.get('dbg', op.get('raw')))
        return ('unknown', op.get('dbg'))

    def _promoted_value(self, i):
        """`&CONST` promoted to a static: the constant it refers to (string value where known)."""
        pr = self.body.b.get('promoted', [])
        if i >= len(pr):
            return None
        for bl in pr[i]:
            for st in bl['stmts']:
                if st['k'] == 'assign' and st['rv']['k'] == 'use' and st['rv']['op']['k'] == 'const':
                    op = st['rv']['op']
                    if 'str' in op:
                        return ('const', op['str'])
                    if 'val' in op:
                        return ('const', op['val'])
                    if 'const_def' in op:
                        return ('const', op['const_def'])
        return None

    def place(self, place, bb, idx):
        e = self.local(place['local'], bb, idx)
        return self.project(e, place['proj'], bb, idx)

    def project(self, e, proj, bb, idx):
        variant = None
        for p in proj:
            k = p['k']
            if k == 'deref':
                continue
            if k == 'downcast':
                variant = p['variant']
                continue
            if k == 'field':
                name = p['name']
                owner = p.get('owner')
                if isinstance(owner, dict) and owner.get('adt') and strip_generics(owner['adt']) in self.body.facts.transparent_adts and p.get('i') is not None:
                    name = str(p['i'])   # positional, like a tuple component
                if isinstance(owner, dict) and 'closure' in owner and e[0] == 'closure' and p.get('i') is not None and p['i'] < len(e[2]):
                    # the environment of a closure that was grafted into this body: a captured variable is the captured operand
                    e = e[2][p['i']]
                    variant = None
                    continue
                if isinstance(owner, dict) and 'closure' in owner:
                    n = name
                    if n.startswith('_ref__'):
                        n = n[len('_ref__'):]
                    e = ('upvar', n)
                    variant = None
                    continue
                if variant is not None:
                    if self.level >= 1 and variant in PAYLOAD_VARIANTS and name == '0':
                        e = self._payload(e, variant)
                    elif e[0] == 'agg' and isinstance(e[1], tuple) and e[1][0] == 'adt' and e[1][2] == variant and name in e[1][3] and list(e[1][3]).index(name) < len(e[2]):
                        # a field of a variant of some crate enum, read back from the aggregate that built it
                        e = e[2][list(e[1][3]).index(name)]
                    elif e[0] == 'phi' and len(e) > 2 and all(a[0] == 'agg' and isinstance(a[1], tuple) and a[1][0] == 'adt' for a in e[2]) and \
                            any(a[1][2] == variant for a in e[2]):
                        # .. or from a value that is one of several such aggregates: only those of the tested variant carry the field
                        vals = []
                        for a in e[2]:
                            if a[1][2] == variant and name in a[1][3] and list(a[1][3]).index(name) < len(a[2]):
                                v_ = a[2][list(a[1][3]).index(name)]
                                if v_ not in vals:
                                    vals.append(v_)
                        e = vals[0] if len(vals) == 1 else (('phi', e[1], tuple(vals)) if vals else ('vfield', e, variant, name))
                    else:
                        e = ('vfield', e, variant, name)
                    variant = None
                    continue
                # projection out of a known aggregate
                if e[0] == 'agg' and e[1] == 'tuple' and name.isdigit() and int(name) < len(e[2]):
                    e = e[2][int(name)]
                    continue
                # component of a value that is one of several tuples (a helper returning (a, b) from different arms): the join of the components
                if e[0] == 'phi' and len(e) > 2 and name.isdigit() and isinstance(e[1], int) and \
                        all(a[0] == 'agg' and a[1] == 'tuple' and int(name) < len(a[2]) for a in e[2]):
                    comps = []
                    for a in e[2]:
                        if a[2][int(name)] not in comps:
                            comps.append(a[2][int(name)])
                    e = comps[0] if len(comps) == 1 else ('phi', ('comp', e[1], int(name)), tuple(comps))
                    continue
                if e[0] == 'agg' and isinstance(e[1], tuple) and e[1][0] == 'adt':
                    fields = e[1][3]
                    if name in fields and fields.index(name) < len(e[2]):
                        e = e[2][fields.index(name)]
                        continue
                e = ('field', e, name)
                continue
            if k == 'index':
                e = ('index', e, self.local(p['local'], bb, idx))
                continue
            if k == 'constidx':
                e = ('index', e, ('const', -p['off'] if p['from_end'] else p['off']))
                continue
            e = ('proj', e, k)
        if variant is not None:
            e = ('down', e, variant)
        return e

    def _payload(self, e, variant):
        # payload of Try::branch(x) is the payload of x
        if e[0] == 'call' and e[1] in ('Try::branch',) and e[2]:
            return self._payload(e[2][0], 'Ok')
        if e[0] == 'agg' and isinstance(e[1], tuple) and e[1][0] == 'adt' and e[1][2] == variant and len(e[2]) == 1:
            return e[2][0]
        if e[0] == 'phi' and len(e) > 2:
            # `(x as V).0` is evaluated only where x is a V: alternatives built as another variant cannot be the value here
            def other_variant(a):
                if a[0] == 'call' and a[1] == 'FromResidual::from_residual' and variant in ('Ok', 'Some', 'Continue'):
                    return True   # the value a `?` returns early with: an Err / None, never the success payload
                return a[0] == 'agg' and isinstance(a[1], tuple) and a[1][0] == 'adt' and a[1][2] != variant and \
                    ((a[1][2] in ('Some', 'None') and variant in ('Some', 'None')) or (a[1][2] in ('Ok', 'Err') and variant in ('Ok', 'Err')))
            keep = [a for a in e[2] if not other_variant(a)]
            if keep and len(keep) < len(e[2]) or (keep and all(a[0] == 'agg' for a in keep)):
                pl = []
                for a in keep:
                    x = self._payload(a, variant)
                    if x not in pl:
                        pl.append(x)
                return pl[0] if len(pl) == 1 else ('phi', e[1], tuple(pl))
        return e if self.level >= 1 else ('payload', e, variant)

    def local(self, l, bb, idx):
        body = self.body
        if 1 <= l <= body.arg_count:
            # arguments may be reassigned, but that is rare: treat a reassigned param as phi
            if l not in body.defs():
                if body.kind == 'Closure' and l == 1:
                    return ('closure_env',)
                return ('param', body.local_name(l) or '_%d' % l)
        key = (l, bb, idx if idx != len(body.blocks[bb]['stmts']) else 'term')
        if key in self.cache:
            return self.cache[key]
        if key in self._busy or l in self._busy_locals:
            # loop-carried variable: refer to it by identity, its definitions are available via var_defs()
            self.cyclic = set(self.cyclic) | {l}
            return ('var', l, body.local_name(l))
        self._busy.add(key)
        self._busy_locals.add(l)
        try:
            rd = self.reaching(l, bb, idx)
            if l in self.cyclic and len(rd) > 1:
                r = ('var', l, body.local_name(l))
                self.cache[key] = r
                return r
            if not rd:
                if 1 <= l <= body.arg_count:
                    r = ('param', body.local_name(l) or '_%d' % l)
                else:
                    r = ('local', l, body.local_name(l))
            else:
                alts = []
                for (dbb, didx) in rd:
                    alts.append(self.def_expr(dbb, didx))
                if 1 <= l <= body.arg_count:
                    alts.append(('param', body.local_name(l) or '_%d' % l))
                uniq = []
                for a in alts:
                    if a not in uniq:
                        uniq.append(a)
                r = uniq[0] if len(uniq) == 1 else ('phi', l, tuple(uniq))
                if l in self.cyclic and len(rd) > 1:
                    r = ('var', l, body.local_name(l))
        finally:
            self._busy.discard(key)
            self._busy_locals.discard(l)
        self.cache[key] = r
        return r

    def var_defs(self, l):
        """All definitions of a (loop-carried) variable: list of (bb, idx, expr)."""
        out = []
        for (dbb, didx) in self.body.defs().get(l, []):
            out.append((dbb, didx, self.def_expr(dbb, didx)))
        return out

    def def_expr(self, dbb, didx):
        body = self.body
        bl = body.blocks[dbb]
        if didx == 'term':
            t = bl['term']
            return self.call_expr(t, dbb)
        s = bl['stmts'][didx]
        return self.rvalue(s['rv'], dbb, didx)

    def call_expr(self, t, bb):
        c = Callee(t['func'])
        n = len(self.body.blocks[bb]['stmts'])
        args = tuple(self.operand(a, bb, n) for a in t['args'])
        if c.indirect:
            f = self.operand(t['func']['indirect'], bb, n)
            # a tuple-variant / tuple-struct constructor passed around as a function value: calling it builds that aggregate
            if f[0] == 'fn':
                parts = f[1].split('::')
                for cut in (1, 2):
                    adt = self.body.facts.adts.get('::'.join(parts[:-cut])) if len(parts) > cut else None
                    if adt is None:
                        continue
                    for v in adt['variants']:
                        if v['name'] == parts[-1] and len(v['fields']) == len(args):
                            return ('agg', ('adt', parts[-cut - 1] if cut == 1 else parts[-cut - 1], v['name'], tuple(fl['name'] for fl in v['fields'])), args)
            return ('callind', f, args, bb)
        if self.level >= 1 and c.name in TRANSPARENT_CALLS and (len(args) == 1 or (c.name == 'expect' and len(args) == 2)):
            # unwrap_or_else etc. are not in the set; expect/unwrap take the payload
            if c.name in ('unwrap', 'expect'):
                return self._payload(args[0], 'Ok')
            return args[0]
        if self.level >= 1 and c.short in ('From::from', 'Into::into') and len(args) == 1:
            return args[0]
        if self.level >= 1 and c.name == 'unwrap_or_else' and len(args) == 2 and args[1][0] == 'closure':
            # `x.unwrap_or_else(|e| panic!(..))`: the fallback never returns, the value is the payload of x (like unwrap / expect)
            cb = self.body.facts.by_path.get(args[1][1])
            if cb is not None and not any(bl['term']['k'] == 'return' for _, bl in cb.live_blocks()):
                return self._payload(args[0], 'Ok')
        return ('call', c.short, args, bb)

    def rvalue(self, rv, bb, idx):
        k = rv['k']
        if k == 'use':
            return self.operand(rv['op'], bb, idx)
        if k in ('ref', 'rawptr', 'copy_for_deref'):
            return self.place(rv['place'], bb, idx)
        if k == 'agg':
            a = rv['agg']
            ops = tuple(self.operand(o, bb, idx) for o in rv['ops'])
            if a['k'] == 'adt':
                if strip_generics(a['path']) in self.body.facts.transparent_adts:
                    # a struct introduced after the type inventory was taken (a named work item / record): a plain product
                    return ('agg', 'tuple', ops)
                kind = ('adt', strip_generics(a['path']).split('::')[-1], a['variant'], tuple(a.get('fields', [])))
                return ('agg', kind, ops)
            if a['k'] == 'closure':
                return ('closure', a['path'], ops)
            return ('agg', a['k'], ops)
        if k == 'binop':
            return ('bin', rv['op'], self.operand(rv['l'], bb, idx), self.operand(rv['r'], bb, idx))
        if k == 'unop':
            return ('un', rv['op'], self.operand(rv['x'], bb, idx))
        if k == 'cast':
            inner = self.operand(rv['op'], bb, idx)
            c = rv.get('cast', '')
            if 'Unsize' in c or 'PtrToPtr' in c or 'Transmute' in c or 'ReifyFnPointer' in c or 'ClosureFnPointer' in c or 'MutToConstPointer' in c:
                return inner
            return ('cast', inner, rv.get('ty'))
        if k == 'discr':
            return ('discr', self.place(rv['place'], bb, idx), tuple((v[0], v[1]) for v in rv.get('variants', [])))
        if k == 'repeat':
            return ('repeat', self.operand(rv['op'], bb, idx))
        return ('unknown', rv.get('dbg'))

    # convenience
    def call_args(self, bb):
        t = self.body.blocks[bb]['term']
        n = len(self.body.blocks[bb]['stmts'])
        return [self.operand(a, bb, n) for a in t['args']]

    def switch_discr(self, bb):
        t = self.body.blocks[bb]['term']
        n = len(self.body.blocks[bb]['stmts'])
        if t['k'] == 'switch':
            return self.operand(t['discr'], bb, n)
        if t['k'] == 'assert':
            return self.operand(t['cond'], bb, n)
        return None

    def return_expr(self):
        """Expression(s) of _0 at each return block."""
        out = []
        for i, bl in self.body.live_blocks():
            if bl['term']['k'] == 'return':
                out.append((i, self.local(0, i, 'term')))
        return out


def literals(body, R, bb):
    """Guard literals that hold on entry of block bb: every dominating switch/assert outcome,
    normalised to ('is', x, {variants}) | ('true', x) | ('false', x) | ('eq', x, v) | ('notin', x, {v..}).
    Tests of materialised values are traced back to what made them so (see `derive`)."""
    out = []
    cfg = body.cfg()
    seen = set()
    work = [bb]

    def derive(lit, depth=0):
        """consequences of a literal about a value that was materialised in a temporary"""
        e = lit[1]
        if depth > 4 or not isinstance(e, tuple) or not e or e[0] != 'phi' or len(e) < 3:
            return
        if lit[0] in ('true', 'false'):
            want = (lit[0] == 'true')
            all_defs = body.defs().get(e[1], [])
            defs_ = [(dbb, didx, R.def_expr(dbb, didx)) for (dbb, didx) in all_defs]   # a call result counts as assigned in the calling block
            if not defs_:
                return
            if all(d[2][0] == 'const' and isinstance(d[2][1], bool) for d in defs_):
                # `matches!(x, P)`: a test of the temporary implies the guards of the unique assignment that gave it the tested value
                hits = [d[0] for d in defs_ if d[2] == ('const', want)]
                if len(hits) == 1:
                    work.append(hits[0])
                return
            # `let c = a && b;` lowers to c = phi(false | b) with `b` assigned under the guard `a`: c being true means b was true where it
            # was assigned (dually for `||` and a false test); also the boolean result of a grafted helper with early `return false`s
            others = [d for d in defs_ if d[2] != ('const', not want)]
            if len(others) == 1 and len(others) < len(defs_):
                dbb, didx, ex = others[0]
                if ex != ('const', want):
                    nl = norm_bool(ex, want)
                    if (nl + (dbb,)) not in out:
                        out.append(nl + (dbb,))
                    derive(nl, depth + 1)
                work.append(dbb)
        elif lit[0] == 'is' and all(a[0] == 'agg' and isinstance(a[1], tuple) for a in e[2]):
            # a variant test of a value that was built as one of several aggregates (an inlined helper returning Some(..) / None in
            # different arms): the tested variant implies the guards of the unique arm that built it
            wanted = [a for a in e[2] if a[1][2] in lit[2]]
            if wanted and len(wanted) < len(e[2]):
                hits = []
                for (dbb, didx) in body.defs().get(e[1], []):
                    if didx == 'term':
                        continue
                    d = R.def_expr(dbb, didx)
                    if any(x == w for x in walk(d) for w in wanted):
                        hits.append(dbb)
                if len(hits) == 1:
                    work.append(hits[0])

    while work:
        cur = work.pop()
        if cur in seen:
            continue
        seen.add(cur)
        for (sb, lab) in cfg.guards(cur):
            lit = edge_literal(body, R, sb, lab)
            if lit is None:
                continue
            if (lit + (sb,)) not in out:
                out.append(lit + (sb,))
            derive(lit)
    return out


def built_under(body, R, lit):
    """A variant test of a value that was built as one of several aggregates (a private classification enum computed by a helper:
    `match Kind::of(&state) { Kind::Hit => .. }`): the guard literals under which the tested variant(s) were built, or None.
    With several builders of the tested variants the literals common to all of them are returned."""
    e = lit[1]
    if lit[0] != 'is' or not isinstance(e, tuple) or e[:1] != ('phi',) or len(e) < 3:
        return None
    if not all(a[0] == 'agg' and isinstance(a[1], tuple) for a in e[2]):
        return None
    wanted = [a for a in e[2] if a[1][2] in lit[2]]
    if not wanted or len(wanted) == len(e[2]):
        return None
    hits = []
    for (dbb, didx) in body.defs().get(e[1], []):
        if didx == 'term':
            continue
        d = R.def_expr(dbb, didx)
        if any(x == w for x in walk(d) for w in wanted):
            hits.append(dbb)
    if not hits:
        return None
    sets = [[tuple(l[:3]) if l[0] == 'is' else tuple(l[:2]) for l in literals(body, R, h)] for h in hits]
    common = [l for l in sets[0] if all(l in s_ for s_ in sets[1:])]
    return common


_COMP = {'Lt': 'Ge', 'Ge': 'Lt', 'Le': 'Gt', 'Gt': 'Le', 'Eq': 'Ne', 'Ne': 'Eq'}
_SWAP = {'Lt': 'Gt', 'Gt': 'Lt', 'Le': 'Ge', 'Ge': 'Le', 'Eq': 'Eq', 'Ne': 'Ne'}
_METH = {'PartialOrd::lt': 'Lt', 'PartialOrd::le': 'Le', 'PartialOrd::gt': 'Gt', 'PartialOrd::ge': 'Ge', 'PartialEq::eq': 'Eq', 'PartialEq::ne': 'Ne'}


def comparison_spellings(lit):
    """The other spellings of a comparison guard: `a < b` holds == `!(a >= b)` holds == `b > a` holds == `!(b <= a)` holds (NaN operands
    aside, which make the negated forms differ; guards on NaN are outside every rule).  Rules may match whichever spelling they name."""
    if lit[0] not in ('true', 'false'):
        return []
    x = lit[1]
    if x[0] == 'bin' and x[1] in _COMP:
        o, a, b = x[1], x[2], x[3]
    elif x[0] == 'call' and x[1] in _METH and len(x[2]) == 2:
        o, a, b = _METH[x[1]], x[2][0], x[2][1]
    else:
        return []
    if lit[0] == 'false':
        o = _COMP[o]
    # now: `a o b` holds
    out = [('true', ('bin', o, a, b)), ('false', ('bin', _COMP[o], a, b)), ('true', ('bin', _SWAP[o], b, a)), ('false', ('bin', _COMP[_SWAP[o]], b, a))]
    return [v for v in out if v != lit]


_DP_CACHE = {}


def discr_predicate(F, qname):
    """For a crate-local `fn(&self) -> bool` whose result depends only on the discriminant of self: (variants where true, variants where false)."""
    key = (id(F), qname)
    if key in _DP_CACHE:
        return _DP_CACHE[key]
    _DP_CACHE[key] = None
    try:
        b = F.q(qname)
    except KeyError:
        return None
    if b is None or b.kind == 'Closure' or b.arg_count != 1 or b.ret_ty() != 'bool' or not b.self_base:
        return None
    adt = F.adt(b.self_base)
    if adt is None or adt.get('kind') != 'Enum':
        return None
    allv = {v['name'] for v in adt['variants']}
    R = Resolver(b)
    tset, fset = set(), set()
    ut = uf = False
    for i, j, st in b.stmts():
        if st['k'] == 'assign' and st['place']['local'] == 0 and not st['place']['proj']:
            v = R.rvalue(st['rv'], i, j)
            lits = [l for l in literals(b, R, i) if l[0] == 'is' and l[1] == ('param', 'self')]
            if v == ('const', True):
                if lits:
                    tset |= set(lits[0][2])
                else:
                    ut = True
            elif v == ('const', False):
                if lits:
                    fset |= set(lits[0][2])
                else:
                    uf = True
            else:
                return None
    for i, t in b.calls():
        if t['dest']['local'] == 0 and not t['dest']['proj']:
            return None
    if ut and uf:
        return None
    if ut:
        tset = allv - fset
    if uf:
        fset = allv - tset
    if tset & fset or (tset | fset) != allv:
        return None
    _DP_CACHE[key] = (frozenset(tset), frozenset(fset))
    return _DP_CACHE[key]


def edge_literal(body, R, sb, lab):
    if lab is None:
        return None
    t = body.blocks[sb]['term']
    d = R.switch_discr(sb)
    if lab[0] == 'assert':
        want = t['expected'] if lab[1] else (not t['expected'])
        return norm_bool(d, want)
    # switch: lab = ('sw', (v1, v2, ...)) where a value may be 'otherwise'
    vs = lab[1] if isinstance(lab[1], tuple) else (lab[1],)
    listed = [x[0] for x in t['targets']]
    if d[0] == 'discr':
        variants = dict(d[2])
        names = set()
        for v in vs:
            if v == 'otherwise':
                names |= {n for k, n in variants.items() if k not in listed}
            else:
                names.add(variants.get(v, '#%s' % v))
        return ('is', d[1], frozenset(names))
    if t.get('discr_ty') == 'bool':
        if len(vs) != 1:
            return None
        v = vs[0]
        if v == 'otherwise':
            # listed [0] -> otherwise means true; listed [1] -> otherwise means false
            val = (listed[0] == 0)
        else:
            val = (v != 0)
        lit = norm_bool(d, val)
        # `x.is_v()` for a crate-local `fn(&self) -> bool` that only tests the discriminant of self is the test `x is {variants}`
        e = lit[1]
        if e[0] == 'call' and len(e[2]) == 1 and '::' in e[1]:
            dp = discr_predicate(body.facts, e[1])
            if dp is not None:
                return ('is', e[2][0], dp[0] if lit[0] == 'true' else dp[1])
        return lit
    if 'otherwise' in vs:
        rest = [x for x in listed if x not in vs]
        return ('notin', d, frozenset(rest))
    if len(vs) == 1:
        return ('eq', d, vs[0])
    return ('in', d, frozenset(vs))


def norm_bool(d, val):
    while d[0] == 'un' and d[1] == 'Not':
        d = d[2]
        val = not val
    return ('true' if val else 'false', d)


def const_reach(body, R, env):
    """Constant propagation for const-generic booleans: the set of blocks reachable from the entry when the
    named constants have the given values (switches on anything else keep all their successors)."""
    cfg = body.cfg()
    seen = set()
    work = [(0, ())]
    reached = set()
    while work:
        bb, known = work.pop()
        key = (bb, known)
        if key in seen or not isinstance(bb, int) or bb < 0:
            continue
        seen.add(key)
        reached.add(bb)
        vals = dict(known)
        bl = body.blocks[bb]
        for st in bl['stmts']:
            if st['k'] == 'assign' and not st['place']['proj']:
                v = _const_val(st['rv'], vals, env)
                l = st['place']['local']
                if v is None:
                    vals.pop(l, None)
                else:
                    vals[l] = v
        t = bl['term']
        k = t['k']
        nk = tuple(sorted(vals.items()))
        if k == 'switch':
            d = _const_opv(t['discr'], vals, env)
            if d is None or isinstance(d, tuple):
                for _, tgt in t['targets']:
                    work.append((tgt, nk))
                work.append((t['otherwise'], nk))
            else:
                tgt = None
                for v, x in t['targets']:
                    if v == int(d):
                        tgt = x
                work.append((tgt if tgt is not None else t['otherwise'], nk))
        else:
            for s_ in cfg.succ.get(bb, []):
                if isinstance(s_, tuple):
                    for s2 in cfg.succ.get(s_, []):
                        work.append((s2, nk))
                else:
                    work.append((s_, nk))
    return reached


def _const_operand(op, env):
    if op['k'] == 'const':
        if 'val' in op and isinstance(op['val'], bool):
            return op['val']
        if op.get('dbg') in env:
            return env[op['dbg']]
    return None


def _const_opv(op, vals, env):
    """constant value of an operand: a known local, a component of a known tuple of constants, or a constant"""
    if op['k'] in ('copy', 'move'):
        v = vals.get(op['place']['local'])
        for p in op['place']['proj']:
            if p['k'] == 'deref':
                continue
            if p['k'] == 'field' and isinstance(v, tuple) and p.get('i') is not None and p['i'] < len(v):
                v = v[p['i']]
                continue
            return None
        return v
    return _const_operand(op, env)


def _const_val(rv, vals, env):
    opv = lambda op: _const_opv(op, vals, env)
    if rv['k'] == 'agg' and rv['agg']['k'] == 'tuple':
        t = tuple(opv(o) for o in rv['ops'])
        return t if any(x is not None for x in t) else None
    if rv['k'] in ('ref', 'copy_for_deref'):
        return _const_opv({'k': 'copy', 'place': rv['place']}, vals, env)
    if rv['k'] == 'use':
        return opv(rv['op'])
    if rv['k'] == 'unop' and rv['op'] == 'Not':
        v = opv(rv['x'])
        return None if v is None else (not v)
    return None


def ret_defs(body, R):
    """Every definition of the return place _0: (bb, expr, span), from assignments and from call destinations."""
    out = []
    for i, j, st in body.stmts():
        if st['k'] == 'assign' and st['place']['local'] == 0 and not st['place']['proj']:
            out.append((i, R.rvalue(st['rv'], i, j), st['span']))
    for i, t in body.calls():
        if t['dest']['local'] == 0 and not t['dest']['proj']:
            out.append((i, R.call_expr(t, i), t['span']))
    return out


def phi_table(body, R, local):
    """For a local assigned in several arms: list of (value expr, guard literals of the assigning block, bb)."""
    out = []
    for (dbb, didx) in body.defs().get(local, []):
        out.append((R.def_expr(dbb, didx), literals(body, R, dbb), dbb))
    return out


def value_table(body, R, local=0, depth=0):
    """Like phi_table, but alternatives that are themselves joins of another local (the return value of a grafted helper, a temporary holding
    the result of an if/else) are expanded into that local's alternatives, each with the guards of both assignments."""
    out = []
    if isinstance(local, tuple) and local[:1] == ('comp',):
        # component i of a local that is assigned one of several tuples
        for v, lits, bb in value_table(body, R, local[1], depth):
            if v[0] == 'agg' and v[1] == 'tuple' and local[2] < len(v[2]):
                out.append((v[2][local[2]], lits, bb))
            else:
                out.append((('field', v, str(local[2])), lits, bb))
        return out
    for v, lits, bb in phi_table(body, R, local):
        if v[0] == 'phi' and len(v) > 2 and depth < 3 and v[1] != local:
            alts = set(strip_sites(a) for a in v[2])
            for v2, lits2, bb2 in value_table(body, R, v[1], depth + 1):
                # `v` may be the payload projected out of that local (`(opt as Some).0`): its alternatives are then the payloads of the
                # aggregates of that variant; aggregates of the other variants (None, the `?` residual) are not values of `v`
                if strip_sites(v2) not in alts and v2[0] == 'agg' and isinstance(v2[1], tuple) and v2[1][0] == 'adt':
                    inner = [o for o in v2[2] if strip_sites(o) in alts]
                    if len(v2[2]) == 1 and inner:
                        v2 = inner[0]
                    elif not any(strip_sites(a) == strip_sites(v2) for a in v[2]):
                        continue
                out.append((v2, list(lits2) + [l for l in lits if l not in lits2], bb2))
        else:
            out.append((v, lits, bb))
    return out


def walk(e):
    """Pre-order walk over an expression tree."""
    st = [e]
    while st:
        x = st.pop()
        yield x
        if isinstance(x, tuple):
            kids = x[1:] if (x and isinstance(x[0], str)) else x
            for y in kids:
                if isinstance(y, tuple):
                    st.append(y)


def contains_expr(e, pred):
    return any(pred(x) for x in walk(e) if isinstance(x, tuple) and x and isinstance(x[0], str))


def strip_sites(e):
    if not isinstance(e, tuple):
        return e
    if e and e[0] == 'call':
        return ('call', e[1], tuple(strip_sites(a) for a in e[2]))
    if e and e[0] == 'callind':
        return ('callind', strip_sites(e[1]), tuple(strip_sites(a) for a in e[2]))
    if e and e[0] == 'phi':
        alts = e[2] if len(e) > 2 else e[1]      # idempotent: an already stripped phi is ('phi', alternatives)
        return ('phi', tuple(strip_sites(a) for a in alts))
    if e and e[0] == 'local':
        return ('local', e[2] if len(e) > 2 and e[2] else e[1])
    return tuple(strip_sites(x) for x in e)


def agg_field(e, name, default=None):
    """the operand of a struct / variant aggregate ('agg', ('adt', Type, Variant, field names), operands) that initialises field `name`"""
    if isinstance(e, tuple) and len(e) == 3 and e[0] == 'agg' and isinstance(e[1], tuple) and len(e[1]) > 3 and name in e[1][3]:
        i = list(e[1][3]).index(name)
        if i < len(e[2]):
            return e[2][i]
    return default


def fmt(e, depth=0):
    """Readable rendering of an expression."""
    if not isinstance(e, tuple) or not e:
        return repr(e)
    k = e[0]
    if depth > 8:
        return '…'
    f = lambda x: fmt(x, depth + 1)
    if k == 'param':
        return e[1]
    if k == 'upvar':
        return '^' + e[1]
    if k == 'const':
        return repr(e[1])
    if k == 'fn':
        return 'fn ' + e[1]
    if k == 'field':
        return '%s.%s' % (f(e[1]), e[2])
    if k == 'vfield':
        return '(%s as %s).%s' % (f(e[1]), e[2], e[3])
    if k == 'index':
        return '%s[%s]' % (f(e[1]), f(e[2]))
    if k == 'call':
        return '%s(%s)' % (e[1], ', '.join(f(a) for a in e[2]))
    if k == 'callind':
        return '(%s)(%s)' % (f(e[1]), ', '.join(f(a) for a in e[2]))
    if k == 'agg':
        kind = e[1]
        if isinstance(kind, tuple):
            return '%s::%s{%s}' % (kind[1], kind[2], ', '.join(f(a) for a in e[2]))
        return '%s(%s)' % (kind, ', '.join(f(a) for a in e[2]))
    if k == 'bin':
        return '(%s %s %s)' % (f(e[2]), e[1], f(e[3]))
    if k == 'un':
        return '%s(%s)' % (e[1], f(e[2]))
    if k == 'discr':
        return 'discr(%s)' % f(e[1])
    if k == 'var':
        return '$%s' % (e[2] or ('_%s' % e[1]))
    if k == 'cast':
        return 'cast(%s)' % f(e[1])
    if k == 'phi':
        return 'phi(%s)' % ' | '.join(f(a) for a in (e[2] if len(e) > 2 else e[1]))
    if k == 'local':
        return '_%s%s' % (e[1], ('/' + e[2]) if len(e) > 2 and e[2] else '')
    if k == 'closure':
        return 'closure %s[%s]' % (e[1].split('::')[-1], ', '.join(f(a) for a in e[2]))
    return '%s(%s)' % (k, ', '.join(f(a) if isinstance(a, tuple) else repr(a) for a in e[1:]))

#!/bin/sh
# development aid: (re)create the scratch worktree /tmp/dbg_wt of /repo HEAD with one patch applied; remove it with `dbgwt.sh -`
git -C /repo worktree remove --force /tmp/dbg_wt 2>/dev/null; rm -rf /tmp/dbg_wt; git -C /repo worktree prune
[ "$1" = "-" ] && exit 0
git -C /repo worktree add -q --detach /tmp/dbg_wt HEAD && cp /repo/Cargo.lock /tmp/dbg_wt/ && git -C /tmp/dbg_wt apply "$1" && echo ready

#!/bin/sh
# runs every claimed check (tier = $1, default quick) and prints one summary line per property
tier=${1:-quick}
rc=0
for p in C01 C02 C03 C04 C05 C06 C07 C08 C09 C10 C11 C12 C13 C14 C15 C16 C17 C18 C19; do
  python3 -m affcheck run $p --tier $tier | tail -1 || rc=1
done
exit $rc

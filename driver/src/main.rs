// afffacts: rustc_private driver that serialises the un-optimised MIR of the
// `affinitree` lib crate (and the /verif fixture crate) as JSON facts.
//
// Nothing of the analysed crate is executed. The driver is injected with
// RUSTC_WORKSPACE_WRAPPER (argv[1] = real rustc, dropped).
//
// Env:
//   AFFFACTS_CRATES  comma separated crate names to dump (default "affinitree")
//   AFFFACTS_OUT     output directory; one file <crate>.facts.json per dumped crate
#![feature(rustc_private)]

extern crate rustc_abi;
extern crate rustc_driver;
extern crate rustc_hir;
extern crate rustc_interface;
extern crate rustc_middle;
extern crate rustc_span;

use std::fmt::Write as _;

use rustc_driver::Compilation;
use rustc_hir::def::DefKind;
use rustc_hir::def_id::DefId;
use rustc_middle::mir;
use rustc_middle::ty::print::PrintTraitRefExt;
use rustc_middle::ty::{self, TyCtxt};

mod json;
use json::J;

struct NoOp;
impl rustc_driver::Callbacks for NoOp {}

struct Dump {
    krate: String,
}

fn s(x: impl Into<String>) -> J {
    J::Str(x.into())
}

fn obj(v: Vec<(&str, J)>) -> J {
    J::Obj(v.into_iter().map(|(k, v)| (k.to_string(), v)).collect())
}

struct Cx<'tcx> {
    tcx: TyCtxt<'tcx>,
}

impl<'tcx> Cx<'tcx> {
    fn span(&self, sp: rustc_span::Span) -> J {
        let sm = self.tcx.sess.source_map();
        // use the call-site span for macro expansions so that locations point into the crate
        let root = sp.source_callsite();
        s(sm.span_to_diagnostic_string(root))
    }

    fn path(&self, did: DefId) -> String {
        self.tcx.def_path_str(did)
    }

    fn place(&self, body: &mir::Body<'tcx>, p: &mir::Place<'tcx>) -> J {
        let tcx = self.tcx;
        let mut proj = Vec::new();
        let mut pty = mir::PlaceTy::from_ty(body.local_decls[p.local].ty);
        for elem in p.projection.iter() {
            let j = match elem {
                mir::ProjectionElem::Deref => obj(vec![("k", s("deref"))]),
                mir::ProjectionElem::Field(f, fty) => {
                    let mut name = format!("{}", f.index());
                    let mut owner = J::Null;
                    match pty.ty.kind() {
                        ty::Adt(adt, _) => {
                            let vi = pty.variant_index.unwrap_or(rustc_abi::FIRST_VARIANT);
                            if vi.index() < adt.variants().len() {
                                let v = adt.variant(vi);
                                if f.index() < v.fields.len() {
                                    name = v.fields[f].name.to_string();
                                }
                                owner = obj(vec![
                                    ("adt", s(self.path(adt.did()))),
                                    ("variant", s(v.name.to_string())),
                                ]);
                            }
                        }
                        ty::Closure(did, _) => {
                            owner = obj(vec![("closure", s(self.path(*did)))]);
                            // upvar name
                            let names = tcx.closure_saved_names_of_captured_variables(*did);
                            if let Some(n) = names.iter().nth(f.index()) {
                                name = n.to_string();
                            }
                        }
                        ty::Tuple(_) => {
                            owner = s("tuple");
                        }
                        _ => {}
                    }
                    obj(vec![
                        ("k", s("field")),
                        ("i", J::Int(f.index() as i128)),
                        ("name", s(name)),
                        ("owner", owner),
                        ("ty", s(format!("{}", fty))),
                    ])
                }
                mir::ProjectionElem::Index(l) => {
                    obj(vec![("k", s("index")), ("local", J::Int(l.index() as i128))])
                }
                mir::ProjectionElem::ConstantIndex {
                    offset,
                    min_length,
                    from_end,
                } => obj(vec![
                    ("k", s("constidx")),
                    ("off", J::Int(offset as i128)),
                    ("min", J::Int(min_length as i128)),
                    ("from_end", J::Bool(from_end)),
                ]),
                mir::ProjectionElem::Subslice { from, to, from_end } => obj(vec![
                    ("k", s("subslice")),
                    ("from", J::Int(from as i128)),
                    ("to", J::Int(to as i128)),
                    ("from_end", J::Bool(from_end)),
                ]),
                mir::ProjectionElem::Downcast(name, vi) => obj(vec![
                    ("k", s("downcast")),
                    (
                        "variant",
                        match name {
                            Some(n) => s(n.to_string()),
                            None => J::Null,
                        },
                    ),
                    ("i", J::Int(vi.index() as i128)),
                ]),
                other => obj(vec![("k", s("other")), ("dbg", s(format!("{:?}", other)))]),
            };
            proj.push(j);
            pty = pty.projection_ty(tcx, elem);
        }
        obj(vec![
            ("local", J::Int(p.local.index() as i128)),
            ("proj", J::Arr(proj)),
        ])
    }

    fn const_val(&self, owner: DefId, c: &mir::ConstOperand<'tcx>) -> J {
        let tcx = self.tcx;
        let cty = c.const_.ty();
        let mut fields: Vec<(&str, J)> = vec![("k", s("const")), ("ty", s(format!("{}", cty)))];
        match cty.kind() {
            ty::FnDef(did, args) => {
                fields.push(("fn", s(self.path(*did))));
                fields.push((
                    "fn_args",
                    J::Arr(args.iter().map(|a| s(format!("{}", a))).collect()),
                ));
                return obj(fields);
            }
            _ => {}
        }
        if let mir::Const::Unevaluated(uv, _) = c.const_ {
            fields.push(("const_def", s(self.path(uv.def))));
            if let Some(p) = uv.promoted {
                fields.push(("promoted", J::Int(p.index() as i128)));
            }
        }
        let tenv = ty::TypingEnv::post_analysis(tcx, owner);
        if let ty::Ref(_, inner, _) = cty.kind() {
            if inner.is_str() {
                if let Ok(val) = c.const_.eval(tcx, tenv, rustc_span::DUMMY_SP) {
                    if let Some(bytes) = val.try_get_slice_bytes_for_diagnostics(tcx) {
                        fields.push(("str", s(String::from_utf8_lossy(bytes).to_string())));
                    }
                }
            }
        }
        if let Some(si) = c.const_.try_eval_scalar_int(tcx, tenv) {
            match cty.kind() {
                ty::Bool => {
                    fields.push(("val", J::Bool(si.to_bits_unchecked() != 0)));
                }
                ty::Float(fty) => {
                    let bits = si.to_bits_unchecked();
                    let v = match fty {
                        ty::FloatTy::F64 => f64::from_bits(bits as u64),
                        ty::FloatTy::F32 => f32::from_bits(bits as u32) as f64,
                        _ => f64::NAN,
                    };
                    fields.push(("val", J::Num(v)));
                    fields.push(("bits", s(format!("{:#x}", bits))));
                }
                ty::Int(_) => {
                    let size = si.size();
                    fields.push(("val", J::Int(si.to_int(size))));
                }
                ty::Uint(_) | ty::Char => {
                    fields.push(("val", J::Int(si.to_bits_unchecked() as i128)));
                }
                _ => {
                    fields.push(("raw", s(format!("{:?}", si))));
                }
            }
        } else {
            fields.push(("dbg", s(format!("{}", c.const_))));
        }
        obj(fields)
    }

    fn operand(&self, owner: DefId, body: &mir::Body<'tcx>, o: &mir::Operand<'tcx>) -> J {
        match o {
            mir::Operand::Copy(p) => obj(vec![("k", s("copy")), ("place", self.place(body, p))]),
            mir::Operand::Move(p) => obj(vec![("k", s("move")), ("place", self.place(body, p))]),
            mir::Operand::Constant(c) => self.const_val(owner, c),
            #[allow(unreachable_patterns)]
            other => obj(vec![("k", s("other")), ("dbg", s(format!("{:?}", other)))]),
        }
    }

    fn rvalue(&self, owner: DefId, body: &mir::Body<'tcx>, rv: &mir::Rvalue<'tcx>) -> J {
        match rv {
            mir::Rvalue::Use(o, ..) => {
                obj(vec![("k", s("use")), ("op", self.operand(owner, body, o))])
            }
            mir::Rvalue::Ref(_, bk, p) => obj(vec![
                ("k", s("ref")),
                ("mut", J::Bool(matches!(bk, mir::BorrowKind::Mut { .. }))),
                ("place", self.place(body, p)),
            ]),
            mir::Rvalue::RawPtr(_, p) => {
                obj(vec![("k", s("rawptr")), ("place", self.place(body, p))])
            }
            mir::Rvalue::Aggregate(kind, ops) => {
                let ak = match &**kind {
                    mir::AggregateKind::Adt(did, vi, _, _, _) => {
                        let adt = self.tcx.adt_def(*did);
                        obj(vec![
                            ("k", s("adt")),
                            ("path", s(self.path(*did))),
                            ("variant", s(adt.variant(*vi).name.to_string())),
                            ("variant_idx", J::Int(vi.index() as i128)),
                            (
                                "fields",
                                J::Arr(
                                    adt.variant(*vi)
                                        .fields
                                        .iter()
                                        .map(|f| s(f.name.to_string()))
                                        .collect(),
                                ),
                            ),
                        ])
                    }
                    mir::AggregateKind::Tuple => obj(vec![("k", s("tuple"))]),
                    mir::AggregateKind::Array(_) => obj(vec![("k", s("array"))]),
                    mir::AggregateKind::Closure(did, _) => {
                        obj(vec![("k", s("closure")), ("path", s(self.path(*did)))])
                    }
                    other => obj(vec![("k", s("other")), ("dbg", s(format!("{:?}", other)))]),
                };
                obj(vec![
                    ("k", s("agg")),
                    ("agg", ak),
                    (
                        "ops",
                        J::Arr(ops.iter().map(|o| self.operand(owner, body, o)).collect()),
                    ),
                ])
            }
            mir::Rvalue::BinaryOp(op, b) => obj(vec![
                ("k", s("binop")),
                ("op", s(format!("{:?}", op))),
                ("l", self.operand(owner, body, &b.0)),
                ("r", self.operand(owner, body, &b.1)),
            ]),
            mir::Rvalue::UnaryOp(op, o) => obj(vec![
                ("k", s("unop")),
                ("op", s(format!("{:?}", op))),
                ("x", self.operand(owner, body, o)),
            ]),
            mir::Rvalue::Cast(ck, o, t) => obj(vec![
                ("k", s("cast")),
                ("cast", s(format!("{:?}", ck))),
                ("op", self.operand(owner, body, o)),
                ("ty", s(format!("{}", t))),
            ]),
            mir::Rvalue::Discriminant(p) => {
                let pty = p.ty(body, self.tcx).ty;
                let mut adt_path = J::Null;
                let mut variants = Vec::new();
                if let ty::Adt(adt, _) = pty.kind() {
                    adt_path = s(self.path(adt.did()));
                    if adt.is_enum() {
                        for (vi, v) in adt.variants().iter_enumerated() {
                            let d = adt.discriminant_for_variant(self.tcx, vi);
                            variants.push(J::Arr(vec![J::Int(d.val as i128), s(v.name.to_string())]));
                        }
                    }
                }
                obj(vec![
                    ("k", s("discr")),
                    ("place", self.place(body, p)),
                    ("adt", adt_path),
                    ("variants", J::Arr(variants)),
                ])
            }
            mir::Rvalue::Repeat(o, n) => obj(vec![
                ("k", s("repeat")),
                ("op", self.operand(owner, body, o)),
                ("n", s(format!("{}", n))),
            ]),
            mir::Rvalue::CopyForDeref(p) => {
                obj(vec![("k", s("copy_for_deref")), ("place", self.place(body, p))])
            }
            other => obj(vec![("k", s("other")), ("dbg", s(format!("{:?}", other)))]),
        }
    }

    fn callee(&self, owner: DefId, body: &mir::Body<'tcx>, func: &mir::Operand<'tcx>) -> J {
        let tcx = self.tcx;
        let fty = func.ty(body, tcx);
        match fty.kind() {
            ty::FnDef(did, args) => {
                let mut fields: Vec<(&str, J)> = vec![("def", s(self.path(*did)))];
                fields.push((
                    "generic_args",
                    J::Arr(args.iter().map(|a| s(format!("{}", a))).collect()),
                ));
                fields.push(("name", s(tcx.item_name(*did).to_string())));
                fields.push(("local", J::Bool(did.is_local())));
                // trait method?
                if let Some(tr) = tcx.trait_of_assoc(*did) {
                    fields.push(("trait", s(self.path(tr))));
                    if let Some(self_ty) = args.types().next() {
                        fields.push(("self_ty", s(format!("{}", self_ty))));
                    }
                } else if let Some(impl_did) = tcx.impl_of_assoc(*did) {
                    let st = tcx.type_of(impl_did).instantiate_identity().skip_norm_wip();
                    fields.push(("impl_self", s(format!("{}", st))));
                }
                let tenv = ty::TypingEnv::post_analysis(tcx, owner);
                if let Ok(Some(inst)) = ty::Instance::try_resolve(tcx, tenv, *did, args) {
                    let rdid = inst.def_id();
                    if rdid != *did {
                        fields.push(("resolved", s(self.path(rdid))));
                        fields.push(("resolved_local", J::Bool(rdid.is_local())));
                    }
                }
                obj(fields)
            }
            _ => obj(vec![
                ("indirect", self.operand(owner, body, func)),
                ("ty", s(format!("{}", fty))),
            ]),
        }
    }

    fn body(&self, did: DefId) -> J {
        let tcx = self.tcx;
        let body: &mir::Body<'tcx> = tcx.optimized_mir(did);
        let kind = tcx.def_kind(did);
        let mut fields: Vec<(&str, J)> = Vec::new();
        fields.push(("path", s(self.path(did))));
        fields.push(("kind", s(format!("{:?}", kind))));
        fields.push(("name", s(if kind == DefKind::Closure {
            "{closure}".to_string()
        } else {
            tcx.item_name(did).to_string()
        })));
        if kind == DefKind::Closure {
            let parent = tcx.typeck_root_def_id(did);
            fields.push(("root", s(self.path(parent))));
            fields.push(("parent", s(self.path(tcx.parent(did)))));
        } else {
            let vis = tcx.visibility(did);
            fields.push(("vis", s(format!("{:?}", vis))));
            fields.push(("is_pub", J::Bool(vis.is_public())));
        }
        if let Some(impl_did) = tcx.impl_of_assoc(did) {
            let st = tcx.type_of(impl_did).instantiate_identity().skip_norm_wip();
            fields.push(("impl_self", s(format!("{}", st))));
            if let Some(tr) = tcx.impl_opt_trait_ref(impl_did) {
                let tr = tr.instantiate_identity().skip_norm_wip();
                fields.push(("impl_trait", s(format!("{}", tr.print_only_trait_path()))));
                fields.push(("impl_trait_def", s(self.path(tr.def_id))));
            }
            fields.push(("impl", s(self.path(impl_did))));
        } else if let Some(tr) = tcx.trait_of_assoc(did) {
            fields.push(("trait_default_of", s(self.path(tr))));
        }
        fields.push(("span", self.span(body.span)));
        fields.push(("from_expansion", J::Bool(body.span.from_expansion())));
        fields.push(("arg_count", J::Int(body.arg_count as i128)));

        let mut locals = Vec::new();
        for (l, decl) in body.local_decls.iter_enumerated() {
            locals.push(obj(vec![
                ("i", J::Int(l.index() as i128)),
                ("ty", s(format!("{}", decl.ty))),
                ("mut", J::Bool(decl.mutability == mir::Mutability::Mut)),
            ]));
        }
        fields.push(("locals", J::Arr(locals)));

        let mut dbg = Vec::new();
        for vdi in body.var_debug_info.iter() {
            let val = match &vdi.value {
                mir::VarDebugInfoContents::Place(p) => self.place(body, p),
                mir::VarDebugInfoContents::Const(c) => self.const_val(did, c),
            };
            dbg.push(obj(vec![
                ("name", s(vdi.name.to_string())),
                ("value", val),
                (
                    "arg",
                    match vdi.argument_index {
                        Some(i) => J::Int(i as i128),
                        None => J::Null,
                    },
                ),
            ]));
        }
        fields.push(("debug", J::Arr(dbg)));

        fields.push(("blocks", self.blocks_json(did, body)));
        let mut promoted = Vec::new();
        for pb in tcx.promoted_mir(did).iter() {
            promoted.push(self.blocks_json(did, pb));
        }
        fields.push(("promoted", J::Arr(promoted)));
        obj(fields)
    }

    fn blocks_json(&self, did: DefId, body: &mir::Body<'tcx>) -> J {
        let tcx = self.tcx;
        let mut blocks = Vec::new();
        for (_bb, data) in body.basic_blocks.iter_enumerated() {
            let mut stmts = Vec::new();
            for st in data.statements.iter() {
                let sp = st.source_info.span;
                match &st.kind {
                    mir::StatementKind::Assign(b) => {
                        let (p, rv) = &**b;
                        stmts.push(obj(vec![
                            ("k", s("assign")),
                            ("place", self.place(body, p)),
                            ("rv", self.rvalue(did, body, rv)),
                            ("span", self.span(sp)),
                            ("exp", J::Bool(sp.from_expansion())),
                        ]));
                    }
                    mir::StatementKind::SetDiscriminant {
                        place,
                        variant_index,
                    } => {
                        stmts.push(obj(vec![
                            ("k", s("set_discr")),
                            ("place", self.place(body, place)),
                            ("variant_idx", J::Int(variant_index.index() as i128)),
                            ("span", self.span(sp)),
                            ("exp", J::Bool(sp.from_expansion())),
                        ]));
                    }
                    mir::StatementKind::StorageLive(_)
                    | mir::StatementKind::StorageDead(_)
                    | mir::StatementKind::Nop
                    | mir::StatementKind::FakeRead(_)
                    | mir::StatementKind::AscribeUserType(..)
                    | mir::StatementKind::Coverage(_)
                    | mir::StatementKind::PlaceMention(_)
                    | mir::StatementKind::ConstEvalCounter => {}
                    other => {
                        stmts.push(obj(vec![
                            ("k", s("other")),
                            ("dbg", s(format!("{:?}", other))),
                            ("span", self.span(sp)),
                            ("exp", J::Bool(sp.from_expansion())),
                        ]));
                    }
                }
            }
            let term = data.terminator();
            let sp = term.source_info.span;
            let mut t: Vec<(&str, J)> = Vec::new();
            match &term.kind {
                mir::TerminatorKind::Goto { target } => {
                    t.push(("k", s("goto")));
                    t.push(("target", J::Int(target.index() as i128)));
                }
                mir::TerminatorKind::SwitchInt { discr, targets } => {
                    t.push(("k", s("switch")));
                    t.push(("discr", self.operand(did, body, discr)));
                    t.push(("discr_ty", s(format!("{}", discr.ty(body, tcx)))));
                    let mut ts = Vec::new();
                    for (v, bb) in targets.iter() {
                        ts.push(J::Arr(vec![J::Int(v as i128), J::Int(bb.index() as i128)]));
                    }
                    t.push(("targets", J::Arr(ts)));
                    t.push(("otherwise", J::Int(targets.otherwise().index() as i128)));
                }
                mir::TerminatorKind::Return => {
                    t.push(("k", s("return")));
                }
                mir::TerminatorKind::Unreachable => {
                    t.push(("k", s("unreachable")));
                }
                mir::TerminatorKind::UnwindResume => {
                    t.push(("k", s("resume")));
                }
                mir::TerminatorKind::Drop { place, target, .. } => {
                    t.push(("k", s("drop")));
                    t.push(("place", self.place(body, place)));
                    t.push(("target", J::Int(target.index() as i128)));
                }
                mir::TerminatorKind::Call {
                    func,
                    args,
                    destination,
                    target,
                    ..
                } => {
                    t.push(("k", s("call")));
                    t.push(("func", self.callee(did, body, func)));
                    t.push((
                        "args",
                        J::Arr(args.iter().map(|a| self.operand(did, body, &a.node)).collect()),
                    ));
                    t.push(("dest", self.place(body, destination)));
                    t.push((
                        "target",
                        match target {
                            Some(b) => J::Int(b.index() as i128),
                            None => J::Null,
                        },
                    ));
                }
                mir::TerminatorKind::Assert {
                    cond,
                    expected,
                    msg,
                    target,
                    ..
                } => {
                    t.push(("k", s("assert")));
                    t.push(("cond", self.operand(did, body, cond)));
                    t.push(("expected", J::Bool(*expected)));
                    let mut m = String::new();
                    let _ = write!(m, "{:?}", msg);
                    t.push(("msg", s(m)));
                    t.push(("target", J::Int(target.index() as i128)));
                }
                other => {
                    t.push(("k", s("other")));
                    t.push(("dbg", s(format!("{:?}", other))));
                    let succ: Vec<J> = term
                        .successors()
                        .map(|b| J::Int(b.index() as i128))
                        .collect();
                    t.push(("succ", J::Arr(succ)));
                }
            }
            t.push(("span", self.span(sp)));
            t.push(("exp", J::Bool(sp.from_expansion())));
            blocks.push(obj(vec![
                ("cleanup", J::Bool(data.is_cleanup)),
                ("stmts", J::Arr(stmts)),
                ("term", obj(t)),
            ]));
        }
        J::Arr(blocks)
    }
}

impl rustc_driver::Callbacks for Dump {
    fn after_analysis<'tcx>(
        &mut self,
        _c: &rustc_interface::interface::Compiler,
        tcx: TyCtxt<'tcx>,
    ) -> Compilation {
        let cx = Cx { tcx };
        let mut bodies = Vec::new();
        let mut n_closures = 0usize;
        for ldid in tcx.hir_body_owners() {
            let did = ldid.to_def_id();
            let kind = tcx.def_kind(did);
            if !matches!(kind, DefKind::Fn | DefKind::AssocFn | DefKind::Closure) {
                continue;
            }
            if kind == DefKind::Closure {
                n_closures += 1;
            }
            bodies.push(cx.body(did));
        }

        // initialisers of the crate's own `const` items: a named constant of aggregate type (`const FREE: (f64, f64) = ..`) is not a
        // scalar the operand can carry, so its value is exported as the MIR of its initialiser
        let mut consts = Vec::new();
        for ldid in tcx.hir_body_owners() {
            let did = ldid.to_def_id();
            if !matches!(tcx.def_kind(did), DefKind::Const { .. } | DefKind::AssocConst { .. }) {
                continue;
            }
            if !tcx.generics_of(did).is_empty() || tcx.generics_of(did).parent.is_some() {
                continue;
            }
            let body: &mir::Body<'tcx> = tcx.mir_for_ctfe(ldid);
            consts.push(obj(vec![
                ("path", s(cx.path(did))),
                ("ty", s(format!("{}", body.local_decls[mir::RETURN_PLACE].ty))),
                ("blocks", cx.blocks_json(did, body)),
            ]));
        }

        // ADTs and their freeze-ness (no interior mutability) where the type is closed
        let mut adts = Vec::new();
        let mut unsafe_blocks = 0usize;
        for id in tcx.hir_free_items() {
            let did = id.owner_id.to_def_id();
            match tcx.def_kind(did) {
                DefKind::Struct | DefKind::Enum | DefKind::Union => {
                    let adt = tcx.adt_def(did);
                    let mut variants = Vec::new();
                    for v in adt.variants().iter() {
                        let mut fs = Vec::new();
                        for f in v.fields.iter() {
                            let fty = tcx.type_of(f.did).instantiate_identity().skip_norm_wip();
                            fs.push(obj(vec![
                                ("name", s(f.name.to_string())),
                                ("ty", s(format!("{}", fty))),
                                ("vis", s(format!("{:?}", f.vis))),
                                ("is_pub", J::Bool(f.vis.is_public())),
                            ]));
                        }
                        variants.push(obj(vec![
                            ("name", s(v.name.to_string())),
                            ("fields", J::Arr(fs)),
                        ]));
                    }
                    let generics = tcx.generics_of(did);
                    let mut freeze = J::Null;
                    if generics.count() == 0 {
                        let t = tcx.type_of(did).instantiate_identity().skip_norm_wip();
                        let tenv = ty::TypingEnv::post_analysis(tcx, did);
                        freeze = J::Bool(t.is_freeze(tcx, tenv));
                    }
                    adts.push(obj(vec![
                        ("path", s(cx.path(did))),
                        ("kind", s(format!("{:?}", tcx.def_kind(did)))),
                        ("n_generics", J::Int(generics.count() as i128)),
                        ("freeze", freeze),
                        ("variants", J::Arr(variants)),
                    ]));
                }
                _ => {}
            }
        }
        // count unsafe blocks / fns via HIR bodies' MIR safety is gone; use a simple HIR visitor-free
        // approximation: `unsafe fn` items and impls
        for ldid in tcx.hir_body_owners() {
            let did = ldid.to_def_id();
            if matches!(tcx.def_kind(did), DefKind::Fn | DefKind::AssocFn) {
                let sig = tcx.fn_sig(did).instantiate_identity().skip_norm_wip();
                if sig.safety().is_unsafe() {
                    unsafe_blocks += 1;
                }
            }
        }

        let meta = obj(vec![
            ("crate", s(self.krate.clone())),
            ("rustc", s(rustc_interface::util::rustc_version_str().unwrap_or("?"))),
            ("n_bodies", J::Int(bodies.len() as i128)),
            ("n_closures", J::Int(n_closures as i128)),
            ("n_unsafe_fns", J::Int(unsafe_blocks as i128)),
        ]);
        let doc = obj(vec![
            ("meta", meta),
            ("adts", J::Arr(adts)),
            ("bodies", J::Arr(bodies)),
            ("consts", J::Arr(consts)),
        ]);
        let out_dir = std::env::var("AFFFACTS_OUT").unwrap_or_else(|_| ".".to_string());
        let path = format!("{}/{}.facts.json", out_dir, self.krate);
        let mut text = String::new();
        doc.write(&mut text);
        std::fs::write(&path, text).expect("cannot write facts");
        Compilation::Continue
    }
}

fn main() {
    let mut args: Vec<String> = std::env::args().collect();
    // RUSTC_WORKSPACE_WRAPPER: argv[1] is the real rustc path
    if args.len() > 1 && (args[1].ends_with("rustc") || args[1].contains("/rustc")) {
        args.remove(1);
    }
    let wanted = std::env::var("AFFFACTS_CRATES").unwrap_or_else(|_| "affinitree".to_string());
    let wanted: Vec<&str> = wanted.split(',').collect();
    let mut krate: Option<String> = None;
    let mut is_lib = false;
    let mut it = args.iter();
    while let Some(a) = it.next() {
        if a == "--crate-name" {
            if let Some(n) = it.next() {
                if wanted.contains(&n.as_str()) {
                    krate = Some(n.clone());
                }
            }
        }
        if a == "--crate-type" {
            if let Some(n) = it.next() {
                if n == "lib" || n == "rlib" {
                    is_lib = true;
                }
            }
        }
    }
    let is_test = args.iter().any(|a| a == "--test");
    match krate {
        Some(k) if is_lib && !is_test => {
            let mut cb = Dump { krate: k };
            rustc_driver::run_compiler(&args, &mut cb);
        }
        _ => {
            let mut cb = NoOp;
            rustc_driver::run_compiler(&args, &mut cb);
        }
    }
}

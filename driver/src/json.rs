// Minimal JSON value + writer (the driver has zero dependencies).

pub enum J {
    Null,
    Bool(bool),
    Int(i128),
    Num(f64),
    Str(String),
    Arr(Vec<J>),
    Obj(Vec<(String, J)>),
}

fn esc(out: &mut String, s: &str) {
    out.push('"');
    for c in s.chars() {
        match c {
            '"' => out.push_str("\\\""),
            '\\' => out.push_str("\\\\"),
            '\n' => out.push_str("\\n"),
            '\r' => out.push_str("\\r"),
            '\t' => out.push_str("\\t"),
            c if (c as u32) < 0x20 => {
                out.push_str(&format!("\\u{:04x}", c as u32));
            }
            c => out.push(c),
        }
    }
    out.push('"');
}

impl J {
    pub fn write(&self, out: &mut String) {
        match self {
            J::Null => out.push_str("null"),
            J::Bool(b) => out.push_str(if *b { "true" } else { "false" }),
            J::Int(i) => out.push_str(&i.to_string()),
            J::Num(f) => {
                if f.is_finite() {
                    // repr with enough digits to round-trip
                    out.push_str(&format!("{:?}", f));
                } else if f.is_nan() {
                    out.push_str("\"NaN\"");
                } else if *f > 0.0 {
                    out.push_str("\"inf\"");
                } else {
                    out.push_str("\"-inf\"");
                }
            }
            J::Str(s) => esc(out, s),
            J::Arr(v) => {
                out.push('[');
                for (i, x) in v.iter().enumerate() {
                    if i > 0 {
                        out.push(',');
                    }
                    x.write(out);
                }
                out.push(']');
            }
            J::Obj(v) => {
                out.push('{');
                for (i, (k, x)) in v.iter().enumerate() {
                    if i > 0 {
                        out.push(',');
                    }
                    esc(out, k);
                    out.push(':');
                    x.write(out);
                }
                out.push('}');
            }
        }
    }
}
